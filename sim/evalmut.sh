#!/bin/bash
# evalmut.sh <mutdir> <PROP> [budget]: apply a seeded defect to /repo, run the check, undo.
set -u
M="$1"; P="$2"; B="${3:-60}"
cd /repo || exit 2
if [ -n "$(git status --porcelain)" ]; then echo "SKIP $M: /repo not clean"; exit 2; fi
if ! git apply --check "$M/patch.diff" 2>/dev/null; then echo "RESULT $M $P patch-does-not-apply"; exit 0; fi
git apply "$M/patch.diff"
OUT=$(cd /verif && VERIF_BUDGET_S=$B VERIF_SCRATCH_ROOT=/var/tmp/verif-scratch/mut ./check $P quick 2>&1)
RC=$?
git -C /repo checkout -- . 
N=$(echo "$OUT" | grep -c "^VIOLATION")
echo "RESULT $M $P exit=$RC violations=$N"
echo "$OUT" | grep -A1 "^VIOLATION" | head -6 | cut -c1-400
