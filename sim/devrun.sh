#!/bin/bash
# devrun.sh PROP [budget_s] [seed]: build worker in dev scratch and run one worker
S=/var/tmp/verif-scratch/${VERIF_DEV:-dev}
${VERIF_HOME:-/verif}/sim/dev.sh test -c -o $S/worker.test . || exit 2
mkdir -p $S/replays $S/runs
cd $S && VERIF_PROP=$1 VERIF_SEED=${3:-1} VERIF_BUDGET_S=${2:-10} VERIF_SCRATCH=$S/runs VERIF_REPLAY_DIR=$S/replays VERIF_KNOWN=${VERIF_KNOWN-${VERIF_HOME:-/verif}/known_findings.json} env ${VERIF_ENV:-} ./worker.test -test.run TestWorker > $S/out.jsonl 2> $S/err.txt
python3 - <<PY
import json
n=0;v=[];infra=[];k={}
for l in open('$S/out.jsonl'):
    if not l.startswith('{'): continue
    d=json.loads(l); n+=1
    if d.get('known'): k[d['known']]=k.get(d['known'],0)+1; continue
    if d.get('violation'): v.append(d)
    if d.get('infra'): infra.append(d)
print('runs',n,'violations',len(v),'infra',len(infra),'known',k)
for d in v: print(' V',d['idx'],d['violation']['oracle'],'|',d['violation']['detail'][:300],'|',d.get('shrunk'),d.get('replay'))
for d in infra[:5]: print(' I',d['idx'],d['infra'][:300])
PY
tail -3 $S/err.txt
