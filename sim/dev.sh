#!/bin/bash
# dev.sh [go test args]: sync harness into the dev scratch and build/run tests there
export GOFLAGS=-mod=mod GOPROXY=off GOSUMDB=off GOTOOLCHAIN=local
S=/var/tmp/verif-scratch/${VERIF_DEV:-dev}
[ -d $S/gluon ] || /verif/sim/prepare.sh $S
rsync -a --delete --delete-excluded --exclude go.sum $( [ -z "${VERIF_DEV_ALL:-}" ] && echo --exclude-from=/verif/sim/harness/.wip ) /verif/sim/harness/ $S/harness/ && cd $S/harness && { [ -f go.sum ] || cp /repo/go.sum .; } && go1.26.8 "$@"
