#!/bin/bash
# dev.sh [go test args]: sync harness into the dev scratch and build/run tests there
export GOFLAGS=-mod=mod GOPROXY=off GOSUMDB=off GOTOOLCHAIN=local
S=/var/tmp/verif-scratch/${VERIF_DEV:-dev}
R=${VERIF_REPO:-/repo}
H=$( (echo $R; git -C $R rev-parse HEAD; git -C $R diff; cat ${VERIF_HOME:-/verif}/sim/bridge/rootpkg/*.go ${VERIF_HOME:-/verif}/sim/rt/*.go ${VERIF_HOME:-/verif}/sim/instrument/*.go ${VERIF_HOME:-/verif}/sim/prepare.sh) | md5sum | cut -c1-16)
[ -d $S/gluon ] && [ "$(cat $S/.repohash 2>/dev/null)" = "$H" ] || { rm -rf $S/gluon; ${VERIF_HOME:-/verif}/sim/prepare.sh $S && echo $H > $S/.repohash; }
rsync -a --delete --delete-excluded --exclude go.sum $( [ -z "${VERIF_DEV_ALL:-}" ] && echo --exclude-from=${VERIF_HOME:-/verif}/sim/harness/.wip ) ${VERIF_HOME:-/verif}/sim/harness/ $S/harness/ && cd $S/harness && { [ -f go.sum ] || cp /repo/go.sum .; } && go1.26.8 "$@"
