package gluon

import (
	"context"

	"github.com/ProtonMail/gluon/db"
	"github.com/ProtonMail/gluon/internal/state"
)

// VerifDefaultDBClientInterface returns the db.ClientInterface a server uses when no
// WithDBClient option is given ("whatever ships"): taken from the server's own builder.
// This file exists only in the scratch copy the checks build (see /verif/sim/prepare.sh).
func VerifDefaultDBClientInterface() db.ClientInterface {
	b, err := newBuilder()
	if err != nil {
		panic(err)
	}
	return b.dbCI
}

// VerifStateIDFromContext returns the id of the session state a command handler's context
// belongs to (ids are handed out in the order the sessions were created).
func VerifStateIDFromContext(ctx context.Context) (int64, bool) {
	id, ok := state.GetStateIDFromContext(ctx)
	return int64(id), ok
}
