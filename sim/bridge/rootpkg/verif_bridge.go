package gluon

import "github.com/ProtonMail/gluon/db"

// VerifDefaultDBClientInterface returns the db.ClientInterface a server uses when no
// WithDBClient option is given ("whatever ships"): taken from the server's own builder.
// This file exists only in the scratch copy the checks build (see /verif/sim/prepare.sh).
func VerifDefaultDBClientInterface() db.ClientInterface {
	b, err := newBuilder()
	if err != nil {
		panic(err)
	}
	return b.dbCI
}
