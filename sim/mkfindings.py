#!/usr/bin/env python3
"""mkfindings.py: regenerate the findings tables of DESIGN.md (between the findings markers) from known_findings.json"""
import json, re
kf = json.load(open('/verif/known_findings.json'))['findings']
def clean(s): return s.replace('|', '\\|').replace('\n', ' ')
fixed, opened = {}, []
for k in kf:
    if k.get('status') == 'fixed':
        m = re.match(r'fixed: property=(\S+) (\S+|\(.*?\)) (.*)', k['what'])
        what = m.group(3) if m else k['what']
        key = (k.get('commit', ''), what)
        fixed.setdefault(key, []).append((k['id'], k['property'], k.get('regress', '')))
    else:
        opened.append(k)
out = []
out.append('**Repaired in /repo by `fix:` commits** (%d entries; each has a regression scenario under `regress/<ID>/` that every run of the check replays first; recorded as `fixed:` in `known_findings.json`, which suppresses nothing):\n' % sum(len(v) for v in fixed.values()))
out.append('| finding ids | properties | commit | what failed |')
out.append('|---|---|---|---|')
for (commit, what), ids in fixed.items():
    out.append('| %s | %s | %s | %s |' % (', '.join(i for i, _, _ in ids), ', '.join(sorted({p for _, p, _ in ids})), commit, clean(what)))
out.append('')
out.append('**Open (known findings: genuine, but the repair is not small, not obviously safe, or pinned by the existing tests)** - %d entries; a check prints one `KNOWN-FINDING:` line per entry it met and still reports anything else:\n' % len(opened))
out.append('| finding id | property | what fails (input / history that identifies it) |')
out.append('|---|---|---|')
for k in opened:
    out.append('| %s | %s | %s |' % (k['id'], k['property'], clean(k['what'])))
txt = '\n'.join(out)
p = '/verif/DESIGN.md'
s = open(p).read()
b, e = '<!-- findings:begin -->', '<!-- findings:end -->'
i, j = s.index(b), s.index(e)
s = s[:i + len(b)] + '\n' + txt + '\n' + s[j:]
open(p, 'w').write(s)
print('fixed', sum(len(v) for v in fixed.values()), 'open', len(opened))
