#!/bin/bash
# determinism.sh PROP [count] [seed]: run the same <count> scenarios of PROP in separate processes under
# GOMAXPROCS 1, 4 and 16 (twice each) and compare trace hash, statistics and verdict of every run.
# Exit 0 = identical everywhere.
P=$1; N=${2:-40}; SEED=${3:-1}
S=/var/tmp/verif-scratch/${VERIF_DEV:-det}
/verif/sim/dev.sh test -c -o $S/worker.test . >/dev/null || exit 2
mkdir -p $S/runs $S/replays
i=0
for g in 1 4 16 1 4 16; do
  i=$((i+1))
  (cd $S && GOMAXPROCS=$g VERIF_PROP=$P VERIF_SEED=$SEED VERIF_FROM=0 VERIF_STRIDE=1 VERIF_COUNT=$N VERIF_BUDGET_S=600 VERIF_SCRATCH=$S/runs VERIF_REPLAY_DIR=$S/replays VERIF_KNOWN=/verif/known_findings.json VERIF_SHRINK_RUNS=0 env ${VERIF_ENV:-} ./worker.test -test.run TestWorker > $S/det-$i.jsonl 2> $S/det-$i.err)
done
python3 - <<PY
import json,sys
def load(p):
    out={}
    for l in open(p):
        if not l.startswith('{'): continue
        d=json.loads(l)
        v=d.get('violation') or {}
        st=d.get('stats',{})
        out[d['idx']]=(st.get('trace'), st.get('actions'), st.get('checks'), v.get('oracle'), v.get('sig'), d.get('known'))
    return out
runs=[load('$S/det-%d.jsonl'%i) for i in range(1,7)]
base=runs[0]
bad=0
for i,r in enumerate(runs[1:],2):
    for k in sorted(set(base)|set(r)):
        if base.get(k)!=r.get(k):
            bad+=1
            if bad<=5: print('DIFF run',k,'process 1 vs',i,':',base.get(k),'|',r.get(k))
print('$P: %d scenarios x 6 processes (GOMAXPROCS 1,4,16 twice): %s' % (len(base), 'identical' if not bad else '%d differences'%bad))
sys.exit(1 if bad else 0)
PY
