// Package simrt is the in-process runtime of the deterministic simulator.
//
// It is copied into the *scratch copy* of the gluon module (import path
// github.com/ProtonMail/gluon/verifsimrt) and called from statements the
// instrumenter inserts.  With no simulator installed every entry point returns at
// once, so an instrumented copy behaves like the original.
//
// The runtime never draws random numbers, never reads a clock and never logs:
// all decisions are taken by the harness (which owns the tape).
package simrt

import (
	"reflect"
	"runtime"
	"sort"
	"strconv"
	"sync"
	"sync/atomic"
)

// Token is handed from a parent goroutine to the goroutine it starts.
type Token struct {
	Label string // macro-action label current when the goroutine was started
	Site  string
	N     int
}

// Parked is a task stopped at a gate.
type Parked struct {
	Label    string // label of the goroutine (spawn label, inherited)
	Site     string
	ElemType string
	Seq      uint64 // park order (not deterministic within a macro step; do not log)
	release  chan struct{}
}

// Sim is one simulation instance.  At most one is installed per process.
type Sim struct {
	mu      sync.Mutex
	label   string
	tasks   map[int64]*task
	parked  []*Parked
	seq     uint64
	gate    func(site, elemType string) bool
	spawnN  map[string]int
	Stats   Stats
	gateOff atomic.Bool
	Debug   func(string)
}

type Stats struct {
	Parks    int64
	Spawns   int64
	Sends    int64
	Releases int64
}

type task struct {
	tok Token
}

var active atomic.Pointer[Sim]

// Install makes s the active simulator.  gate decides which send sites park.
func Install(gate func(site, elemType string) bool) *Sim {
	s := &Sim{tasks: map[int64]*task{}, gate: gate, spawnN: map[string]int{}}
	active.Store(s)
	return s
}

// Uninstall removes the active simulator and releases everything still parked.
func (s *Sim) Uninstall() {
	s.gateOff.Store(true)
	s.mu.Lock()
	ps := s.parked
	s.parked = nil
	s.mu.Unlock()
	for _, p := range ps {
		close(p.release)
	}
	active.CompareAndSwap(s, nil)
}

// SetLabel sets the macro-action label inherited by goroutines started from now on.
func (s *Sim) SetLabel(l string) {
	s.mu.Lock()
	s.label = l
	s.mu.Unlock()
}

// OpenGates makes every gate transparent from now on (used for teardown).
func (s *Sim) OpenGates(open bool) { s.gateOff.Store(open) }

// ParkedList returns the parked tasks ordered by (Label, Site).  Call only at quiescence.
func (s *Sim) ParkedList() []*Parked {
	s.mu.Lock()
	defer s.mu.Unlock()
	out := append([]*Parked(nil), s.parked...)
	sort.SliceStable(out, func(i, j int) bool {
		if out[i].Label != out[j].Label {
			return out[i].Label < out[j].Label
		}
		return out[i].Site < out[j].Site
	})
	return out
}

// Release lets p continue.
func (s *Sim) Release(p *Parked) {
	s.mu.Lock()
	for i, q := range s.parked {
		if q == p {
			s.parked = append(s.parked[:i], s.parked[i+1:]...)
			break
		}
	}
	s.Stats.Releases++
	s.mu.Unlock()
	close(p.release)
}

func goid() int64 {
	var buf [64]byte
	n := runtime.Stack(buf[:], false)
	// "goroutine 123 ["
	b := buf[10:n]
	i := 0
	for i < len(b) && b[i] >= '0' && b[i] <= '9' {
		i++
	}
	id, _ := strconv.ParseInt(string(b[:i]), 10, 64)
	return id
}

// Spawn is evaluated by the parent at a go statement.
func Spawn(site string) Token {
	s := active.Load()
	if s == nil {
		return Token{}
	}
	s.mu.Lock()
	defer s.mu.Unlock()
	label := s.label
	k := label + "|" + site
	s.spawnN[k]++
	s.Stats.Spawns++
	if s.Debug != nil {
		s.Debug("spawn " + label + " " + site)
	}
	return Token{Label: label, Site: site, N: s.spawnN[k]}
}

// Begin is the first statement of an instrumented goroutine.
func Begin(tok Token) {
	s := active.Load()
	if s == nil {
		return
	}
	id := goid()
	s.mu.Lock()
	s.tasks[id] = &task{tok: tok}
	s.mu.Unlock()
}

// End is deferred by an instrumented goroutine.
func End() {
	s := active.Load()
	if s == nil {
		return
	}
	id := goid()
	s.mu.Lock()
	delete(s.tasks, id)
	s.mu.Unlock()
}

// BeforeSend is called before a channel send statement (or a select with a send case).
func BeforeSend(site string, ch any) {
	s := active.Load()
	if s == nil || s.gateOff.Load() {
		return
	}
	et := ""
	if t := reflect.TypeOf(ch); t != nil && t.Kind() == reflect.Chan {
		et = t.Elem().String()
	}
	atomic.AddInt64(&s.Stats.Sends, 1)
	if s.gate == nil || !s.gate(site, et) {
		return
	}
	id := goid()
	s.mu.Lock()
	label := ""
	if t := s.tasks[id]; t != nil {
		label = t.tok.Label
	}
	s.seq++
	p := &Parked{Label: label, Site: site, ElemType: et, Seq: s.seq, release: make(chan struct{})}
	s.parked = append(s.parked, p)
	s.Stats.Parks++
	s.mu.Unlock()
	<-p.release
}

// CurrentLabel returns the label of the calling goroutine ("" if unknown).
func CurrentLabel() string {
	s := active.Load()
	if s == nil {
		return ""
	}
	id := goid()
	s.mu.Lock()
	defer s.mu.Unlock()
	if t := s.tasks[id]; t != nil {
		return t.tok.Label
	}
	return ""
}

// LiveTasks returns the spawn tokens of instrumented goroutines that have begun and
// not ended (diagnostics for leak reports).
func (s *Sim) LiveTasks() []Token {
	s.mu.Lock()
	defer s.mu.Unlock()
	out := make([]Token, 0, len(s.tasks))
	for _, t := range s.tasks {
		out = append(out, t.tok)
	}
	sort.Slice(out, func(i, j int) bool {
		if out[i].Label != out[j].Label {
			return out[i].Label < out[j].Label
		}
		if out[i].Site != out[j].Site {
			return out[i].Site < out[j].Site
		}
		return out[i].N < out[j].N
	})
	return out
}
