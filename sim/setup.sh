#!/bin/bash
# setup.sh: build the instrumenter and warm the Go build cache (std + cgo sqlite with
# go1.26.8) so that the first check does not pay ~1 minute of compilation.
set -euo pipefail
export GOFLAGS=-mod=mod GOPROXY=off GOSUMDB=off GOTOOLCHAIN=local
HERE="$(cd "$(dirname "$0")" && pwd)"
mkdir -p "$HERE/bin"
(cd "$HERE/instrument" && go build -o "$HERE/bin/verif-instrument" .)
S=/var/tmp/verif-scratch/setup
rm -rf "$S"; mkdir -p "$S"
"$HERE/prepare.sh" "$S" >/dev/null
rsync -a --delete --exclude go.sum "$HERE/harness/" "$S/harness/"
cp "${VERIF_REPO:-/repo}/go.sum" "$S/harness/go.sum"
(cd "$S/harness" && go1.26.8 test -c -o "$S/worker.test" . )
if [ "${VERIF_SETUP_RACE:-1}" = 1 ]; then (cd "$S/harness" && go1.26.8 test -race -c -o "$S/worker-race.test" . ) || true; fi
rm -rf "$S"
echo "setup ok"
