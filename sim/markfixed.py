#!/usr/bin/env python3
"""markfixed.py <id[,id...]> <property> <regress-src or -> <regress-name or -> <what failed>
Marks known findings as fixed by /repo HEAD and stores the regression scenario."""
import json, os, shutil, sys
ids, prop, src, name, what = sys.argv[1].split(','), sys.argv[2], sys.argv[3], sys.argv[4], sys.argv[5]
h = os.environ.get('COMMIT') or os.popen('git -C /repo log --format=%h -1').read().strip()
reg = None
if src != '-':
    os.makedirs('/verif/regress/%s' % prop, exist_ok=True)
    reg = 'regress/%s/%s.json' % (prop, name)
    d = json.load(open(src)); d['property'] = prop; d.setdefault('seed', 1); d.pop('violation', None); d.pop('log', None)
    json.dump(d, open('/verif/' + reg, 'w'), indent=1)
kf = json.load(open('/verif/known_findings.json'))
found = False
for k in kf['findings']:
    if k['id'] in ids:
        found = True
        k['status'] = 'fixed'; k['commit'] = h
        k['what'] = 'fixed: property=%s %s %s' % (k['property'], h, what)
        if reg: k['regress'] = reg
if not found:
    kf['findings'].append({'id': ids[0], 'property': prop, 'status': 'fixed', 'commit': h, 'what': 'fixed: property=%s %s %s' % (prop, h, what), 'match': {}, **({'regress': reg} if reg else {})})
json.dump(kf, open('/verif/known_findings.json', 'w'), indent=1)
print('marked', ids, 'fixed by', h, reg)
