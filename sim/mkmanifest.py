#!/usr/bin/env python3
"""Regenerate /verif/MANIFEST.json from sim/props.json (one source of truth)."""
import json, os
HERE = os.path.dirname(os.path.abspath(__file__))
ROOT = os.path.dirname(HERE)
props = json.load(open(os.path.join(HERE, "props.json")))
allprops = [json.loads(l)["id"] for l in open(os.path.join(ROOT, "properties.jsonl"))]
NA = {
 "C12": "pure function of one byte string (no schedule, clock, fault, I/O fragmentation or multi-party history can change its result; quantifier is inputs only): not a deterministic-simulation target, see DESIGN.md section 6",
}
checks = []
for pid in allprops:
    if pid not in props:
        continue
    P = props[pid]
    checks.append({
        "property_id": pid,
        "quick_cmd": "./check %s quick" % pid,
        "thorough_cmd": "./check %s thorough" % pid,
        "evidence_file": "evidence/%s.json" % pid,
        "replay_cmd_template": "./check replay {path}",
        "engine": "gluon-dsim",
        "level_claimed": {"category": P["level"], "text": P.get("level_text", P["rule"][:600]), "design_ref": P.get("design_ref", "DESIGN.md section 5, " + pid)},
        "level_note": "; ".join(P.get("assumptions", [])) or "see DESIGN.md",
        "technique": P.get("technique", "deterministic simulation (scheduling mode %s): seeded search over generated histories, update-delivery schedules and faults against the real server in a testing/synctest bubble; reference-model / client-mirror oracles; action-level shrinking and exact replay" % P.get("mode", "M")),
    })
na = []
for pid in allprops:
    if pid in props:
        continue
    na.append({"property_id": pid, "reason": NA.get(pid, "no check registered yet (under construction in this session); not claimed")})
man = {
 "version": 1,
 "setup_cmd": "./sim/setup.sh",
 "hooks": {
  "guard": "verifsim-scratch-instrumentation: no hook is committed to /repo; every check copies /repo's working tree to /var/tmp/verif-scratch/<ID>/gluon and instruments the copy (sim/instrument), so the shipped tree and its test suite are unchanged",
  "enable": "./check <ID> quick|thorough (sim/prepare.sh: rsync working tree -> go/ast instrumenter -> harness built with go1.26.8 against the copy)",
  "baseline_off_cmd": "cd /repo && GOFLAGS=-mod=mod go test -vet=off -count=1 -timeout 25m ./...",
  "source_commits": [],
  "add_only": True
 },
 "engines": [{"name": "gluon-dsim", "path": "sim/", "serves_properties": [c["property_id"] for c in checks],
              "kind_free_text": "deterministic simulator for gluon: go/ast instrumenter (gates, spawn labels), simrt runtime, testing/synctest fake clock + quiescence, simulated transport / connector / store faults, reference model R, client mirror, seeded scenario generator with action-level delta-debugging and replay files"}],
 "checks": checks,
 "notes": "Violations that are genuine defects of gluon are either repaired by 'fix:' commits in /repo (recorded as fixed in known_findings.json, with a regression scenario under regress/) or listed as open known findings; see DESIGN.md section 11.",
 "not_applicable": na,
}
json.dump(man, open(os.path.join(ROOT, "MANIFEST.json"), "w"), indent=1)
print("MANIFEST: %d checks, %d not claimed" % (len(checks), len(na)))
