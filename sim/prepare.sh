#!/bin/bash
# prepare.sh <scratch-dir>: copy /repo's working tree to <scratch-dir>/gluon, instrument it,
# drop in the runtime and the bridge.  Prints the instrumenter summary.
set -euo pipefail
export GOFLAGS=-mod=mod GOPROXY=off GOSUMDB=off GOTOOLCHAIN=local
SCRATCH="$1"
REPO="${VERIF_REPO:-/repo}"
HERE="$(cd "$(dirname "$0")" && pwd)"
mkdir -p "$SCRATCH"
rm -rf "$SCRATCH/gluon"
mkdir -p "$SCRATCH/gluon"
rsync -a --delete --exclude .git --exclude '/tests' --exclude '/benchmarks' --exclude '/demo' --exclude '/tools' "$REPO"/ "$SCRATCH/gluon"/
rm -rf "$SCRATCH/gluon/verifsimrt" "$SCRATCH/gluon/verifbridge"
mkdir -p "$SCRATCH/gluon/verifsimrt" "$SCRATCH/gluon/verifbridge"
cp "$HERE"/rt/*.go "$SCRATCH/gluon/verifsimrt/"
if ls "$HERE"/bridge/*.go >/dev/null 2>&1; then cp "$HERE"/bridge/*.go "$SCRATCH/gluon/verifbridge/"; fi
if [ -d "$HERE/bridge/rootpkg" ]; then cp "$HERE"/bridge/rootpkg/*.go "$SCRATCH/gluon/"; fi
INSTR="$HERE/bin/verif-instrument"
if [ ! -x "$INSTR" ] || [ "$HERE/instrument/main.go" -nt "$INSTR" ]; then
  mkdir -p "$HERE/bin"
  (cd "$HERE/instrument" && go build -o "$INSTR" .)
fi
"$INSTR" -root "$SCRATCH/gluon" ${VERIF_INSTR_FLAGS:-}
