#!/bin/bash
# fixcheck3.sh <replay.json>...: replay on /var/tmp/base (clean main) and on /var/tmp/wip (work in progress); leaves /repo alone
cd /verif
for f in "$@"; do
  for w in base wip; do
    echo -n "$(basename $f) @$w: "; VERIF_REPO=/var/tmp/$w VERIF_SCRATCH_ROOT=/var/tmp/verif-scratch/$w ./check replay $f 2>&1 | grep -A1 "^VIOLATION\|^replay: \|^check:" | tail -1 | cut -c1-170
  done
done
