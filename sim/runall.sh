#!/bin/bash
# runall.sh [tier]: run every registered check once on /repo as it is; summary on stdout.
T=${1:-quick}
cd /verif
for id in $(python3 -c "import json; print(' '.join(c['property_id'] for c in json.load(open('MANIFEST.json'))['checks']))"); do
  s=$(date +%s)
  out=$(./check $id $T 2>&1); rc=$?
  e=$(( $(date +%s) - s ))
  echo "$id rc=$rc ${e}s $(echo "$out" | grep -c '^KNOWN-FINDING') known $(echo "$out" | grep -c '^VIOLATION') viol | $(echo "$out" | tail -1 | cut -c1-120)"
  if [ $rc != 0 ]; then echo "$out" | grep -A2 "^VIOLATION\|INFRA\|NON-REPRO" | head -12 | cut -c1-300; fi
done
