#!/bin/bash
# fixcheck.sh <replay.json>...: replay each scenario on /repo HEAD (uncommitted fix stashed) and on the working tree
cd /verif
for f in "$@"; do
  git -C /repo stash -q; echo -n "$(basename $f) BEFORE: "; ./check replay $f 2>&1 | grep -A1 "^VIOLATION\|^replay: \|^check:" | tail -1 | cut -c1-170
  git -C /repo stash pop -q; echo -n "$(basename $f) AFTER:  "; ./check replay $f 2>&1 | grep -A1 "^VIOLATION\|^replay: \|^check:" | tail -1 | cut -c1-170
done
