package world

import (
	"context"
	"sync"

	"github.com/ProtonMail/gluon/db"
	"github.com/ProtonMail/gluon/imap"
)

// FaultDB wraps a db.ClientInterface: every Write reports its step boundaries
// (enter, before-commit, after-commit) to Hook, which may fail the step.
type FaultDB struct {
	Inner db.ClientInterface
	// Hook is called at each boundary; a non-nil error fails the step (ignored for
	// after-commit, where nothing can be failed any more).
	Hook func(point string) error
	// EnterCtx, if set, is called first at the entry of every Write with the caller's
	// context (it may park the caller: the simulator's write gate).
	EnterCtx func(ctx context.Context)
	Calls    map[string]int
	// FailNextInit, if set, is returned by the next Init (once): a transient failure of the
	// first database step of a start.
	FailNextInit error
	// Statements: also report (and allow failing) selected statements inside a Write
	// as boundaries "db.stmt.<Method>".
	Statements bool

	mu sync.Mutex
}

type faultClient struct {
	b     *FaultDB
	inner db.Client
}

func (f *FaultDB) New(path, userID string) (db.Client, bool, error) {
	c, isNew, err := f.Inner.New(path, userID)
	if err != nil {
		return nil, isNew, err
	}
	return &faultClient{b: f, inner: c}, isNew, nil
}

func (f *FaultDB) Delete(path, userID string) error { return f.Inner.Delete(path, userID) }

func (f *FaultDB) hook(point string) error {
	// database steps of different goroutines (sessions, the connector's update loop) reach
	// this concurrently
	f.mu.Lock()
	if f.Calls == nil {
		f.Calls = map[string]int{}
	}
	f.Calls[point]++
	h := f.Hook
	f.mu.Unlock()
	if h == nil {
		return nil
	}
	return h(point)
}

func (c *faultClient) Init(ctx context.Context, g imap.UIDValidityGenerator) error {
	if err := c.b.FailNextInit; err != nil {
		c.b.FailNextInit = nil
		if c.b.Calls == nil {
			c.b.Calls = map[string]int{}
		}
		c.b.Calls["db.init.error"]++
		return err
	}
	return c.inner.Init(ctx, g)
}

func (c *faultClient) Read(ctx context.Context, op func(context.Context, db.ReadOnly) error) error {
	return c.inner.Read(ctx, op)
}

func (c *faultClient) Write(ctx context.Context, op func(context.Context, db.Transaction) error) error {
	if c.b.EnterCtx != nil {
		c.b.EnterCtx(ctx)
	}
	if err := c.b.hook("db.write.enter"); err != nil {
		return err
	}
	err := c.inner.Write(ctx, func(ctx context.Context, tx db.Transaction) error {
		if c.b.Statements {
			tx = &faultTx{Transaction: tx, b: c.b}
		}
		if err := op(ctx, tx); err != nil {
			return err
		}
		return c.b.hook("db.write.before-commit")
	})
	if err == nil {
		_ = c.b.hook("db.write.after-commit")
	}
	return err
}

func (c *faultClient) Close() error { return c.inner.Close() }
