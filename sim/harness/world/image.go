package world

import (
	"fmt"
	"io"
	"os"
	"path/filepath"
)

// Image is a crash image: a copy of the database and store directories as they were at
// one instant (what kill -9 at that instant leaves on disk).
type Image struct {
	Data, DB string
}

func copyTree(src, dst string) error {
	return filepath.Walk(src, func(p string, info os.FileInfo, err error) error {
		if err != nil {
			if os.IsNotExist(err) {
				return nil // a file removed while we walk (temp file of an in-flight write)
			}
			return err
		}
		rel, _ := filepath.Rel(src, p)
		target := filepath.Join(dst, rel)
		if info.IsDir() {
			return os.MkdirAll(target, 0o700)
		}
		in, err := os.Open(p)
		if err != nil {
			if os.IsNotExist(err) {
				return nil
			}
			return err
		}
		defer in.Close()
		out, err := os.OpenFile(target, os.O_CREATE|os.O_TRUNC|os.O_WRONLY, 0o600)
		if err != nil {
			return err
		}
		if _, err := io.Copy(out, in); err != nil {
			out.Close()
			return err
		}
		return out.Close()
	})
}

// TakeImage copies the data and database directories.  It may be called at quiescence
// or synchronously from a storage hook (on the goroutine performing the operation).
func (w *World) TakeImage() (*Image, error) {
	w.images++
	img := &Image{
		Data: filepath.Join(w.Cfg.Dir, fmt.Sprintf("img%d-data", w.images)),
		DB:   filepath.Join(w.Cfg.Dir, fmt.Sprintf("img%d-db", w.images)),
	}
	if err := copyTree(w.DataDir, img.Data); err != nil {
		return nil, err
	}
	if err := copyTree(w.DBDir, img.DB); err != nil {
		return nil, err
	}
	w.Stats["crash_images"]++
	return img, nil
}

// RestartOn abandons the running server (closing it cleanly afterwards, which can only
// touch the old directories) and boots a new one on the image.
func (w *World) RestartOn(img *Image) error {
	_ = w.Shutdown()
	w.DataDir, w.DBDir = img.Data, img.DB
	return w.boot(false)
}

// CrashRestart = kill -9 now, then start again.
func (w *World) CrashRestart() error {
	img, err := w.TakeImage()
	if err != nil {
		return err
	}
	return w.RestartOn(img)
}
