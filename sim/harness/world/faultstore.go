package world

import (
	"bytes"
	"io"
	"sync"

	"github.com/ProtonMail/gluon/imap"
	"github.com/ProtonMail/gluon/store"
)

// FaultStoreBuilder wraps a store.Builder; every Store it makes calls Hook before each
// operation (Set is called after the reader has been fully consumed, so "disk full"
// can be modelled as write-then-fail by the hook returning ErrAfter).
type FaultStoreBuilder struct {
	Inner store.Builder
	mu    sync.Mutex
	// Hook decides the fate of one call: nil = proceed.  op is get/set/delete/list.
	Hook   func(op string, ids []imap.InternalMessageID) *StoreFault
	Calls  map[string]int
	Stores []*FaultStore
}

type StoreFault struct {
	Err   error
	After bool // perform the real operation first, then report Err
	Torn  int  // for set: write only this many bytes of the content before failing (with After)
}

type FaultStore struct {
	b     *FaultStoreBuilder
	inner store.Store
	Dir   string
}

func (b *FaultStoreBuilder) New(dir, userID string, passphrase []byte) (store.Store, error) {
	s, err := b.Inner.New(dir, userID, passphrase)
	if err != nil {
		return nil, err
	}
	fs := &FaultStore{b: b, inner: s, Dir: dir}
	b.mu.Lock()
	b.Stores = append(b.Stores, fs)
	b.mu.Unlock()
	return fs, nil
}

func (b *FaultStoreBuilder) Delete(dir, userID string) error { return b.Inner.Delete(dir, userID) }

func (b *FaultStoreBuilder) fault(op string, ids ...imap.InternalMessageID) *StoreFault {
	b.mu.Lock()
	if b.Calls == nil {
		b.Calls = map[string]int{}
	}
	b.Calls[op]++
	h := b.Hook
	b.mu.Unlock()
	if h == nil {
		return nil
	}
	return h(op, ids)
}

func (s *FaultStore) Get(id imap.InternalMessageID) ([]byte, error) {
	if f := s.b.fault("get", id); f != nil && !f.After {
		return nil, f.Err
	}
	return s.inner.Get(id)
}

func (s *FaultStore) Set(id imap.InternalMessageID, r io.Reader) error {
	f := s.b.fault("set", id)
	if f != nil && !f.After {
		return f.Err
	}
	if f != nil && f.After {
		data, err := io.ReadAll(r)
		if err != nil {
			return err
		}
		if f.Torn >= 0 && f.Torn < len(data) {
			data = data[:f.Torn]
		}
		_ = s.inner.Set(id, bytes.NewReader(data))
		return f.Err
	}
	return s.inner.Set(id, r)
}

func (s *FaultStore) Delete(ids ...imap.InternalMessageID) error {
	if f := s.b.fault("delete", ids...); f != nil {
		if f.After {
			_ = s.inner.Delete(ids...)
		}
		return f.Err
	}
	return s.inner.Delete(ids...)
}

func (s *FaultStore) List() ([]imap.InternalMessageID, error) {
	if f := s.b.fault("list"); f != nil && !f.After {
		return nil, f.Err
	}
	return s.inner.List()
}

func (s *FaultStore) Close() error { return s.inner.Close() }

// Inner exposes the real store (for corruption faults and final checks).
func (s *FaultStore) Inner() store.Store { return s.inner }
