// Package world boots a real gluon server inside a testing/synctest bubble on the
// simulated transport, connector, store wrapper and clock, and exposes the macro
// actions of scheduling mode M.
package world

import (
	"context"
	"fmt"
	"io"
	"os"
	"path/filepath"
	"runtime"
	"strings"
	"sync"
	"testing/synctest"
	"time"

	"github.com/ProtonMail/gluon"
	"github.com/ProtonMail/gluon/db"
	"github.com/ProtonMail/gluon/imap"
	"github.com/ProtonMail/gluon/limits"
	"github.com/ProtonMail/gluon/store"
	simrt "github.com/ProtonMail/gluon/verifsimrt"
	"github.com/google/uuid"
	"github.com/sirupsen/logrus"

	"verifharness/simconn"
	"verifharness/simnet"
	"verifharness/wire"
)

// Start of simulated time: after the UIDVALIDITY epoch (2023-02-01).
var SimStart = time.Date(2024, 1, 1, 0, 0, 0, 0, time.UTC)

type UserCfg struct {
	Names    []string
	Password string
}

type Config struct {
	Delimiter          string
	IdleBulk           time.Duration // 0 = immediate
	JailTime           time.Duration
	DisableParallelism bool
	Limits             *limits.IMAP
	Users              []UserCfg
	Gate               bool // park state-update forwarders (mode M gating)
	UIDValidityGen     func() imap.UIDValidityGenerator
	StoreFaults        bool // wrap the store builder with the fault-injecting store
	DBClient           func() db.ClientInterface
	DBFaults           bool   // wrap the default database client with FaultDB (w.DB)
	Dir                string // base directory for this run (data+db dirs are created inside)
	UUIDSeed           uint64
	Trace              bool
}

type User struct {
	Cfg  UserCfg
	ID   string
	Conn *simconn.Conn
	Pass []byte
}

type World struct {
	Cfg     Config
	Sim     *simrt.Sim
	Srv     *gluon.Server
	L       *simnet.Listener
	Users   []*User
	Clients []*Sess
	Panics  []string
	Log     []string
	DataDir string
	DBDir   string
	Store   *FaultStoreBuilder
	DB      *FaultDB
	ctx     context.Context
	cancel  context.CancelFunc
	boots   int
	images  int
	closed  bool
	Stats   map[string]int
}

// Sess is a client connection with its mirror.
type Sess struct {
	W       *World
	Idx     int
	Label   string
	C       *wire.Client
	M       wire.Mirror
	User    int // index of the user it logged in as (-1 none)
	InIdle  bool
	IdleTag string
	Viol    []string // structural violations seen by the mirror
}

type panicRec struct{ w *World }

func (p panicRec) HandlePanic(r interface{}) {
	if r == nil {
		return
	}
	buf := make([]byte, 4096)
	n := runtime.Stack(buf, false)
	p.w.Panics = append(p.w.Panics, fmt.Sprintf("%v\n%s", r, buf[:n]))
}

func init() {
	logrus.SetOutput(io.Discard)
	logrus.SetLevel(logrus.PanicLevel)
	if os.Getenv("VERIF_LOGRUS") != "" {
		logrus.SetOutput(os.Stderr)
		logrus.SetLevel(logrus.ErrorLevel)
	}
}

type detRand struct {
	mu sync.Mutex
	s  uint64
}

func (d *detRand) Read(p []byte) (int, error) {
	d.mu.Lock()
	defer d.mu.Unlock()
	for i := range p {
		d.s ^= d.s << 13
		d.s ^= d.s >> 7
		d.s ^= d.s << 17
		p[i] = byte(d.s >> 24)
	}
	return len(p), nil
}

// New creates the world (must run inside a synctest bubble) and boots the server.
func New(cfg Config) (*World, error) {
	w := &World{Cfg: cfg, Stats: map[string]int{}}
	if cfg.Delimiter == "" {
		w.Cfg.Delimiter = "/"
	}
	// advance the fake clock beyond the UIDVALIDITY epoch
	if d := time.Until(SimStart); d > 0 {
		time.Sleep(d)
	}
	seed := cfg.UUIDSeed*2654435761 + 88172645463325252
	if seed == 0 {
		seed = 1
	}
	uuid.SetRand(&detRand{s: seed})
	w.DataDir = filepath.Join(cfg.Dir, "data")
	w.DBDir = filepath.Join(cfg.Dir, "db")
	gate := func(site, elem string) bool { return false }
	if cfg.Gate {
		gate = func(site, elem string) bool { return strings.HasSuffix(elem, "state.Update") }
	}
	w.Sim = simrt.Install(gate)
	for i, uc := range cfg.Users {
		u := &User{Cfg: uc, Pass: []byte(fmt.Sprintf("passphrase-%d", i))}
		w.Users = append(w.Users, u)
	}
	if err := w.boot(true); err != nil {
		w.Sim.Uninstall()
		return nil, err
	}
	return w, nil
}

func (w *World) Tracef(format string, args ...any) {
	w.Log = append(w.Log, fmt.Sprintf(format, args...))
}

func (w *World) options() []gluon.Option {
	opts := []gluon.Option{
		gluon.WithDataDir(w.DataDir),
		gluon.WithDatabaseDir(w.DBDir),
		gluon.WithDelimiter(w.Cfg.Delimiter),
		gluon.WithIdleBulkTime(w.Cfg.IdleBulk),
		gluon.WithLoginJailTime(w.Cfg.JailTime),
		gluon.WithPanicHandler(panicRec{w}),
	}
	if w.Cfg.DisableParallelism {
		opts = append(opts, gluon.WithDisableParallelism())
	}
	if w.Cfg.Limits != nil {
		opts = append(opts, gluon.WithIMAPLimits(*w.Cfg.Limits))
	}
	if w.Cfg.UIDValidityGen != nil {
		opts = append(opts, gluon.WithUIDValidityGenerator(w.Cfg.UIDValidityGen()))
	}
	if w.Cfg.StoreFaults {
		if w.Store == nil {
			w.Store = &FaultStoreBuilder{Inner: &store.OnDiskStoreBuilder{}}
		}
		opts = append(opts, gluon.WithStoreBuilder(w.Store))
	}
	if w.Cfg.DBClient != nil {
		opts = append(opts, gluon.WithDBClient(w.Cfg.DBClient()))
	} else if w.Cfg.DBFaults {
		if w.DB == nil {
			w.DB = &FaultDB{}
		}
		w.DB.Inner = gluon.VerifDefaultDBClientInterface()
		opts = append(opts, gluon.WithDBClient(w.DB))
	}
	return opts
}

// boot starts a server on the current directories.  first=true adds the users, else
// loads them.
func (w *World) boot(first bool) error {
	w.boots++
	w.Sim.SetLabel(fmt.Sprintf("boot%d", w.boots))
	srv, err := gluon.New(w.options()...)
	if err != nil {
		return fmt.Errorf("gluon.New: %w", err)
	}
	w.Srv = srv
	w.ctx, w.cancel = context.WithCancel(context.Background())
	for i, u := range w.Users {
		prefix := fmt.Sprintf("u%d", i)
		if u.Conn == nil {
			u.Conn = simconn.New(prefix, u.Cfg.Names, u.Cfg.Password)
		} else {
			// a new connector instance for the new process, same remote data
			nc := simconn.New(prefix, u.Cfg.Names, u.Cfg.Password)
			nc.AdoptRemote(u.Conn)
			u.Conn = nc
		}
		if first || u.ID == "" {
			id, err := srv.AddUser(w.ctx, u.Conn, u.Pass)
			if err != nil {
				return fmt.Errorf("AddUser: %w", err)
			}
			u.ID = id
			w.Quiesce()
			if _, err := w.CreateRemoteMailbox(u, "INBOX"); err != nil {
				return err
			}
		} else {
			isNew, err := srv.LoadUser(w.ctx, u.Conn, u.ID, u.Pass)
			if err != nil {
				// the start failed: end what was started, so that the next boot begins afresh
				_ = srv.Close(w.ctx)
				w.cancel()
				w.Quiesce()
				return fmt.Errorf("LoadUser: %w", err)
			}
			if isNew {
				w.Tracef("LoadUser(%s) reported a new database", u.ID)
			}
		}
	}
	w.L = simnet.NewListener()
	if err := srv.Serve(w.ctx, w.L); err != nil {
		return err
	}
	w.closed = false
	w.Quiesce()
	return nil
}

// Quiesce runs the system until every goroutine is durably blocked.
func (w *World) Quiesce() { synctest.Wait() }

// Connect opens a new client connection and consumes the greeting.
func (w *World) Connect() (*Sess, error) {
	idx := len(w.Clients)
	label := fmt.Sprintf("c%d", idx)
	w.Sim.SetLabel(label)
	conn, err := w.L.Dial(label)
	if err != nil {
		return nil, err
	}
	s := &Sess{W: w, Idx: idx, Label: label, User: -1}
	var trace func(string, ...any)
	if w.Cfg.Trace {
		trace = w.Tracef
	}
	s.C = wire.NewClient(label, conn, w.Quiesce, trace)
	w.Clients = append(w.Clients, s)
	w.Quiesce()
	lines, err := s.C.Drain()
	if err != nil {
		return s, err
	}
	if len(lines) != 1 || lines[0].Status != "OK" {
		return s, fmt.Errorf("bad greeting: %d lines", len(lines))
	}
	return s, nil
}

// Do runs one command to completion, folding untagged data into the mirror.
func (s *Sess) Do(cmd wire.Cmd) *wire.Result {
	s.W.Sim.SetLabel(s.Label)
	res := s.C.Do(cmd)
	s.apply(res.Lines)
	return res
}

func (s *Sess) apply(lines []*wire.Line) {
	for _, l := range lines {
		if err := s.M.Apply(l); err != nil {
			s.Viol = append(s.Viol, err.Error())
		}
	}
}

// Cmd is shorthand for a literal-free command.
func (s *Sess) Cmd(format string, args ...any) *wire.Result {
	return s.Do(wire.Simple(fmt.Sprintf(format, args...)))
}

// Poll collects unsolicited output (IDLE pushes) at quiescence.
func (s *Sess) Poll() ([]*wire.Line, error) {
	lines, err := s.C.Drain()
	if s.W.Cfg.Trace {
		for _, l := range lines {
			s.W.Tracef("S %s: %s", s.Label, wire.Abridge(l.Raw))
		}
	}
	s.apply(lines)
	return lines, err
}

// ---- gates (mode M) ----

// Pending returns how many forwarders belonging to the session are parked
// (at most one per session: a forwarder handles one update at a time).
func (w *World) parkedFor(label string) *simrt.Parked {
	for _, p := range w.Sim.ParkedList() {
		if p.Label == label {
			return p
		}
	}
	return nil
}

// HasPendingUpdate reports whether an update is waiting at the session's gate.
func (s *Sess) HasPendingUpdate() bool { return s.W.parkedFor(s.Label) != nil }

// ReleaseUpdates lets up to k queued state updates reach the session (k<0: all),
// one at a time, each run to quiescence.  Returns how many were released.
func (s *Sess) ReleaseUpdates(k int) int {
	n := 0
	s.W.Sim.SetLabel("deliver:" + s.Label)
	for k < 0 || n < k {
		p := s.W.parkedFor(s.Label)
		if p == nil {
			break
		}
		s.W.Sim.Release(p)
		s.W.Quiesce()
		n++
	}
	s.W.Stats["updates_released"] += n
	return n
}

// ReleaseAll drains every gate of every session until nothing is parked.
func (w *World) ReleaseAll() int {
	n := 0
	w.Sim.SetLabel("deliver:*")
	for {
		ps := w.Sim.ParkedList()
		if len(ps) == 0 {
			return n
		}
		for _, p := range ps {
			w.Sim.Release(p)
			n++
		}
		w.Quiesce()
	}
}

// ---- clock ----

// Advance moves the fake clock forward with everything else quiescent.
func (w *World) Advance(d time.Duration) {
	w.Sim.SetLabel("clock")
	time.Sleep(d)
	w.Quiesce()
}

// ---- lifecycle ----

// CloseClients resets every client connection.
func (w *World) CloseClients() {
	for _, s := range w.Clients {
		if !s.C.Dead {
			s.C.Conn.ClientCloseWrite()
			s.C.Dead = true
		}
	}
	w.Quiesce()
}

// Shutdown closes the server cleanly.
func (w *World) Shutdown() error {
	if w.closed {
		return nil
	}
	w.Sim.SetLabel("shutdown")
	w.Sim.OpenGates(true)
	w.ReleaseAll()
	if w.Cfg.JailTime > 0 {
		// a LOGIN held in the login jail keeps the backend's user lock until the jail
		// timer fires: let simulated time pass, as real time would
		time.Sleep(w.Cfg.JailTime + time.Second)
		w.Quiesce()
	}
	w.CloseClients()
	w.L.Close()
	err := w.Srv.Close(w.ctx)
	w.cancel()
	w.closed = true
	w.Quiesce()
	w.Sim.OpenGates(false)
	return err
}

// Restart closes the server cleanly and boots a new one on the same directories.
func (w *World) Restart() error {
	if err := w.Shutdown(); err != nil {
		return fmt.Errorf("close: %w", err)
	}
	return w.boot(false)
}

// Destroy tears everything down and removes the run directory.
func (w *World) Destroy() {
	_ = w.Shutdown()
	w.Sim.Uninstall()
	if w.Cfg.Dir != "" {
		_ = os.RemoveAll(w.Cfg.Dir)
	}
}

// UpdRes is the fate of a connector update at the next quiescence.
type UpdRes struct {
	Delivered bool  // the server took it from the stream
	Done      bool  // its waiter was completed
	Err       error // error it was completed with
}

// Submit hands a connector update to the server, runs to quiescence and reports
// whether and how it was acknowledged.
func (w *World) Submit(u *User, upd imap.Update) UpdRes {
	w.Sim.SetLabel("conn")
	var r UpdRes
	if !u.Conn.Submit(upd) {
		return r
	}
	r.Delivered = true
	w.Stats["conn_updates"]++
	w.Quiesce()
	ch := make(chan UpdRes, 1)
	go func() {
		err, _ := upd.Wait()
		ch <- UpdRes{Delivered: true, Done: true, Err: err}
	}()
	w.Quiesce()
	select {
	case r = <-ch:
	default:
	}
	return r
}

// CreateRemoteMailbox makes the connector announce a mailbox (as a sync would).
func (w *World) CreateRemoteMailbox(u *User, name ...string) (imap.MailboxID, error) {
	id := u.Conn.NewMailboxID()
	u.Conn.MboxNames[id] = name
	r := w.Submit(u, imap.NewMailboxCreated(u.Conn.MailboxTemplate(id, name)))
	if !r.Done {
		return id, fmt.Errorf("MailboxCreated(%v) was not acknowledged", name)
	}
	return id, r.Err
}

// CloseServerOnly calls Server.Close (closing the listener first) without touching the
// client connections: sessions are torn down by the server itself.
func (w *World) CloseServerOnly() error {
	w.Sim.OpenGates(true)
	w.L.Close()
	err := w.Srv.Close(w.ctx)
	w.cancel()
	w.closed = true
	return err
}
