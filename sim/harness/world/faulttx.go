package world

import (
	"context"

	"github.com/ProtonMail/gluon/db"
	"github.com/ProtonMail/gluon/imap"
)

// faultTx wraps a db.Transaction: the embedded interface forwards every method; the
// statements overridden here report a step boundary "db.stmt.<Method>" to the hook
// first, which may fail them (statement-level database faults inside a transaction).
type faultTx struct {
	db.Transaction
	b *FaultDB
}

func (t *faultTx) GetMessageIDFromRemoteID(ctx context.Context, id imap.MessageID) (imap.InternalMessageID, error) {
	if err := t.b.hook("db.stmt.GetMessageIDFromRemoteID"); err != nil {
		return imap.InternalMessageID{}, err
	}
	return t.Transaction.GetMessageIDFromRemoteID(ctx, id)
}

func (t *faultTx) GetMessageMailboxIDs(ctx context.Context, id imap.InternalMessageID) ([]imap.InternalMailboxID, error) {
	if err := t.b.hook("db.stmt.GetMessageMailboxIDs"); err != nil {
		return nil, err
	}
	return t.Transaction.GetMessageMailboxIDs(ctx, id)
}

func (t *faultTx) MailboxFilterContains(ctx context.Context, mboxID imap.InternalMailboxID, ids []db.MessageIDPair) ([]imap.InternalMessageID, error) {
	if err := t.b.hook("db.stmt.MailboxFilterContains"); err != nil {
		return nil, err
	}
	return t.Transaction.MailboxFilterContains(ctx, mboxID, ids)
}

func (t *faultTx) GetMailboxMessageCountAndUID(ctx context.Context, mboxID imap.InternalMailboxID) (int, imap.UID, error) {
	if err := t.b.hook("db.stmt.GetMailboxMessageCountAndUID"); err != nil {
		return 0, 0, err
	}
	return t.Transaction.GetMailboxMessageCountAndUID(ctx, mboxID)
}

func (t *faultTx) MailboxTranslateRemoteIDs(ctx context.Context, ids []imap.MailboxID) ([]imap.InternalMailboxID, error) {
	if err := t.b.hook("db.stmt.MailboxTranslateRemoteIDs"); err != nil {
		return nil, err
	}
	return t.Transaction.MailboxTranslateRemoteIDs(ctx, ids)
}

func (t *faultTx) GetMessagesFlags(ctx context.Context, ids []imap.InternalMessageID) ([]db.MessageFlagSet, error) {
	if err := t.b.hook("db.stmt.GetMessagesFlags"); err != nil {
		return nil, err
	}
	return t.Transaction.GetMessagesFlags(ctx, ids)
}

func (t *faultTx) AddMessagesToMailbox(ctx context.Context, mboxID imap.InternalMailboxID, ids []db.MessageIDPair) ([]db.UIDWithFlags, error) {
	if err := t.b.hook("db.stmt.AddMessagesToMailbox"); err != nil {
		return nil, err
	}
	return t.Transaction.AddMessagesToMailbox(ctx, mboxID, ids)
}

func (t *faultTx) RemoveMessagesFromMailbox(ctx context.Context, mboxID imap.InternalMailboxID, ids []imap.InternalMessageID) error {
	if err := t.b.hook("db.stmt.RemoveMessagesFromMailbox"); err != nil {
		return err
	}
	return t.Transaction.RemoveMessagesFromMailbox(ctx, mboxID, ids)
}

func (t *faultTx) CreateMessages(ctx context.Context, reqs ...*db.CreateMessageReq) error {
	if err := t.b.hook("db.stmt.CreateMessages"); err != nil {
		return err
	}
	return t.Transaction.CreateMessages(ctx, reqs...)
}

func (t *faultTx) MarkMessageAsDeletedWithRemoteID(ctx context.Context, id imap.MessageID) error {
	if err := t.b.hook("db.stmt.MarkMessageAsDeletedWithRemoteID"); err != nil {
		return err
	}
	return t.Transaction.MarkMessageAsDeletedWithRemoteID(ctx, id)
}

func (t *faultTx) DeleteMessages(ctx context.Context, ids []imap.InternalMessageID) error {
	if err := t.b.hook("db.stmt.DeleteMessages"); err != nil {
		return err
	}
	return t.Transaction.DeleteMessages(ctx, ids)
}
