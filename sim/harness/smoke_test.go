package harness

import (
	"os"
	"strings"
	"testing"
	"testing/synctest"

	"verifharness/wire"
	"verifharness/world"
)

func TestSmoke(t *testing.T) {
	dir, _ := os.MkdirTemp("", "smoke")
	synctest.Test(t, func(t *testing.T) {
		w, err := world.New(world.Config{Dir: dir, Gate: true, Trace: true, Users: []world.UserCfg{{Names: []string{"user"}, Password: "pass"}}})
		if err != nil {
			t.Fatal(err)
		}
		defer w.Destroy()
		w.Sim.Debug = func(s string) { t.Log(s) }
		a, err := w.Connect()
		if err != nil {
			t.Fatal(err)
		}
		b, _ := w.Connect()
		for _, s := range []*world.Sess{a, b} {
			if r := s.Cmd("LOGIN user pass"); !r.OK() {
				t.Fatalf("login: %+v", r)
			}
			s.M.Reset("INBOX", false)
			if r := s.Cmd("SELECT INBOX"); !r.OK() {
				t.Fatalf("select: %+v", r)
			}
		}
		msg := []byte("Date: Mon, 1 Jan 2024 00:00:00 +0000\r\nFrom: a@b.c\r\nSubject: hi\r\n\r\nbody\r\n")
		r := b.Do(wire.WithLiteral("APPEND INBOX (\\Seen) ", msg, ""))
		if !r.OK() {
			t.Fatalf("append: %+v", r)
		}
		if !a.HasPendingUpdate() {
			for _, p := range w.Sim.ParkedList() { t.Logf("parked %+v", *p) }
			t.Fatalf("gate: no update parked for a; stats %+v", w.Sim.Stats)
		}
		r = a.Cmd("NOOP")
		if a.M.Count() != 0 {
			t.Fatalf("a saw the message before the update was released")
		}
		a.ReleaseUpdates(-1)
		r = a.Cmd("NOOP")
		if a.M.Count() != 1 {
			t.Fatalf("a did not see the message: %v", a.M.String())
		}
		r = a.Cmd("FETCH 1:* (UID FLAGS)")
		if !r.OK() {
			t.Fatalf("fetch: %+v", r)
		}
		t.Log(strings.Join(w.Log, "\n"))
		t.Log(a.M.String(), a.Viol, w.Panics)
	})
}
