// Package simconn is the simulated remote mail service (connector.Connector): it
// hands out deterministic IDs, answers synchronous calls or fails them on a schedule
// set by the harness, keeps the literals for re-download, records every call, and
// delivers connector updates only when the harness says so.
package simconn

import (
	"bytes"
	"context"
	"errors"
	"fmt"
	"sync"
	"time"

	"github.com/ProtonMail/gluon/connector"
	"github.com/ProtonMail/gluon/imap"
)

// Call kinds (fault sites).
const (
	KCreateMailbox = "create_mailbox"
	KRenameMailbox = "rename_mailbox"
	KDeleteMailbox = "delete_mailbox"
	KCreateMessage = "create_message"
	KAddLabel      = "add_label"
	KRemoveLabel   = "remove_label"
	KMove          = "move"
	KSeen          = "mark_seen"
	KFlagged       = "mark_flagged"
	KForwarded     = "mark_forwarded"
	KGetLiteral    = "get_literal"
)

var AllKinds = []string{KCreateMailbox, KRenameMailbox, KDeleteMailbox, KCreateMessage, KAddLabel, KRemoveLabel, KMove, KSeen, KFlagged, KForwarded, KGetLiteral}

var ErrInjected = errors.New("simconn: injected remote failure")

// Call is one recorded synchronous call.
type Call struct {
	Kind    string
	Mailbox imap.MailboxID
	To      imap.MailboxID
	Msgs    []imap.MessageID
	Name    []string
	Bool    bool
	Err     error
	NewID   string
}

type RMessage struct {
	ID      imap.MessageID
	Literal []byte
	Flags   imap.FlagSet
	Date    time.Time
}

type Conn struct {
	mu sync.Mutex

	Usernames  []string
	Password   []byte
	Prefix     string // prefix for deterministic IDs (per user)
	NumericIDs bool   // message IDs that read as numbers

	// Personality.
	MoveRemovesSource bool // value returned by MoveMessages
	Dedupe            bool // identical literals get the same message ID
	SizeLimit         int  // literals larger than this are refused with ErrMessageSizeExceedsLimits (0 = none)
	// DedupeTo, when set, makes the next successful CreateMessage answer with this existing
	// message (the remote recognised a duplicate); one-shot.
	DedupeTo imap.MessageID

	Flags, PermFlags, Attrs imap.FlagSet

	nextMsg, nextMbox int
	Msgs              map[imap.MessageID]*RMessage
	byContent         map[string]imap.MessageID
	MboxNames         map[imap.MailboxID][]string

	// plan[kind] is consumed one entry per call; nil entry or exhausted plan = success.
	plan map[string][]error

	Calls     []Call
	FaultsHit map[string]int

	updCh   chan imap.Update
	closed  bool
	InitErr error
	Hidden  map[imap.MailboxID]imap.MailboxVisibility
}

func New(prefix string, usernames []string, password string) *Conn {
	fl := imap.NewFlagSet(imap.FlagSeen, imap.FlagFlagged, imap.FlagDeleted, imap.FlagAnswered, imap.FlagDraft)
	return &Conn{
		Usernames:         usernames,
		Password:          []byte(password),
		Prefix:            prefix,
		MoveRemovesSource: true,
		Flags:             fl,
		PermFlags:         fl,
		Attrs:             imap.NewFlagSet(),
		Msgs:              map[imap.MessageID]*RMessage{},
		byContent:         map[string]imap.MessageID{},
		MboxNames:         map[imap.MailboxID][]string{},
		plan:              map[string][]error{},
		FaultsHit:         map[string]int{},
		updCh:             make(chan imap.Update),
		Hidden:            map[imap.MailboxID]imap.MailboxVisibility{},
	}
}

// Arm schedules the outcomes of the next calls of a kind (nil = succeed).
func (c *Conn) Arm(kind string, outcomes ...error) {
	c.mu.Lock()
	c.plan[kind] = append(c.plan[kind], outcomes...)
	c.mu.Unlock()
}

// Disarm clears all scheduled outcomes.
func (c *Conn) Disarm() {
	c.mu.Lock()
	c.plan = map[string][]error{}
	c.mu.Unlock()
}

func (c *Conn) outcome(kind string) error {
	p := c.plan[kind]
	if len(p) == 0 {
		return nil
	}
	err := p[0]
	c.plan[kind] = p[1:]
	if err != nil {
		c.FaultsHit[kind]++
	}
	return err
}

// TakeCalls returns and clears the call log.
func (c *Conn) TakeCalls() []Call {
	c.mu.Lock()
	defer c.mu.Unlock()
	out := c.Calls
	c.Calls = nil
	return out
}

// NewMessageID allocates an ID as the remote would (used for harness-made updates).
func (c *Conn) NewMessageID() imap.MessageID {
	c.mu.Lock()
	defer c.mu.Unlock()
	c.nextMsg++
	if c.NumericIDs {
		// a remote whose message IDs read as numbers (with leading zeros): they are strings
		return imap.MessageID(fmt.Sprintf("%06d", c.nextMsg))
	}
	return imap.MessageID(fmt.Sprintf("%sm%d", c.Prefix, c.nextMsg))
}

func (c *Conn) NewMailboxID() imap.MailboxID {
	c.mu.Lock()
	defer c.mu.Unlock()
	c.nextMbox++
	return imap.MailboxID(fmt.Sprintf("%sb%d", c.Prefix, c.nextMbox))
}

// RememberLiteral makes a literal available to GetMessageLiteral.
func (c *Conn) RememberLiteral(id imap.MessageID, lit []byte, flags imap.FlagSet, date time.Time) {
	c.mu.Lock()
	c.Msgs[id] = &RMessage{ID: id, Literal: append([]byte(nil), lit...), Flags: flags, Date: date}
	c.mu.Unlock()
}

func (c *Conn) ForgetMessage(id imap.MessageID) {
	c.mu.Lock()
	delete(c.Msgs, id)
	c.mu.Unlock()
}

// Submit hands an update to the server's update stream.  It reports false when
// nobody is receiving (user removed or server closed).
func (c *Conn) Submit(u imap.Update) bool {
	// the non-blocking send happens under the lock, so that Close cannot close the
	// channel between the test and the send
	c.mu.Lock()
	defer c.mu.Unlock()
	if c.closed {
		return false
	}
	select {
	case c.updCh <- u:
		return true
	default:
		return false
	}
}

// ---- connector.Connector ----

func (c *Conn) Init(ctx context.Context, cache connector.IMAPState) error { return c.InitErr }

func (c *Conn) Authorize(ctx context.Context, username string, password []byte) bool {
	if !bytes.Equal(password, c.Password) {
		return false
	}
	for _, u := range c.Usernames {
		if u == username {
			return true
		}
	}
	return false
}

func (c *Conn) MailboxTemplate(id imap.MailboxID, name []string) imap.Mailbox {
	return imap.Mailbox{ID: id, Name: name, Flags: c.Flags, PermanentFlags: c.PermFlags, Attributes: c.Attrs}
}

func (c *Conn) CreateMailbox(ctx context.Context, _ connector.IMAPStateWrite, name []string) (imap.Mailbox, error) {
	c.mu.Lock()
	defer c.mu.Unlock()
	call := Call{Kind: KCreateMailbox, Name: append([]string(nil), name...)}
	if err := c.outcome(KCreateMailbox); err != nil {
		call.Err = err
		c.Calls = append(c.Calls, call)
		return imap.Mailbox{}, err
	}
	c.nextMbox++
	id := imap.MailboxID(fmt.Sprintf("%sb%d", c.Prefix, c.nextMbox))
	c.MboxNames[id] = call.Name
	call.NewID = string(id)
	c.Calls = append(c.Calls, call)
	return c.MailboxTemplate(id, call.Name), nil
}

func (c *Conn) GetMessageLiteral(ctx context.Context, id imap.MessageID) ([]byte, error) {
	c.mu.Lock()
	defer c.mu.Unlock()
	call := Call{Kind: KGetLiteral, Msgs: []imap.MessageID{id}}
	if err := c.outcome(KGetLiteral); err != nil {
		call.Err = err
		c.Calls = append(c.Calls, call)
		return nil, err
	}
	m, ok := c.Msgs[id]
	if !ok {
		call.Err = errors.New("no such message")
		c.Calls = append(c.Calls, call)
		return nil, call.Err
	}
	c.Calls = append(c.Calls, call)
	return append([]byte(nil), m.Literal...), nil
}

func (c *Conn) GetMailboxVisibility(ctx context.Context, id imap.MailboxID) imap.MailboxVisibility {
	c.mu.Lock()
	defer c.mu.Unlock()
	if v, ok := c.Hidden[id]; ok {
		return v
	}
	return imap.Visible
}

func (c *Conn) UpdateMailboxName(ctx context.Context, _ connector.IMAPStateWrite, id imap.MailboxID, newName []string) error {
	c.mu.Lock()
	defer c.mu.Unlock()
	call := Call{Kind: KRenameMailbox, Mailbox: id, Name: append([]string(nil), newName...)}
	call.Err = c.outcome(KRenameMailbox)
	if call.Err == nil {
		c.MboxNames[id] = call.Name
	}
	c.Calls = append(c.Calls, call)
	return call.Err
}

func (c *Conn) DeleteMailbox(ctx context.Context, _ connector.IMAPStateWrite, id imap.MailboxID) error {
	c.mu.Lock()
	defer c.mu.Unlock()
	call := Call{Kind: KDeleteMailbox, Mailbox: id}
	call.Err = c.outcome(KDeleteMailbox)
	if call.Err == nil {
		delete(c.MboxNames, id)
	}
	c.Calls = append(c.Calls, call)
	return call.Err
}

func (c *Conn) CreateMessage(ctx context.Context, _ connector.IMAPStateWrite, mboxID imap.MailboxID, literal []byte, flags imap.FlagSet, date time.Time) (imap.Message, []byte, error) {
	c.mu.Lock()
	defer c.mu.Unlock()
	call := Call{Kind: KCreateMessage, Mailbox: mboxID}
	if err := c.outcome(KCreateMessage); err != nil {
		call.Err = err
		c.Calls = append(c.Calls, call)
		return imap.Message{}, nil, err
	}
	if c.SizeLimit > 0 && len(literal) > c.SizeLimit {
		call.Err = connector.ErrMessageSizeExceedsLimits
		c.Calls = append(c.Calls, call)
		return imap.Message{}, nil, call.Err
	}
	if id := c.DedupeTo; id != "" {
		c.DedupeTo = ""
		if m, ok := c.Msgs[id]; ok {
			call.NewID = string(id)
			call.Bool = true
			c.Calls = append(c.Calls, call)
			return imap.Message{ID: id, Flags: m.Flags, Date: m.Date}, append([]byte(nil), literal...), nil
		}
	}
	if c.Dedupe {
		if id, ok := c.byContent[string(literal)]; ok {
			m := c.Msgs[id]
			call.NewID = string(id)
			call.Bool = true
			c.Calls = append(c.Calls, call)
			return imap.Message{ID: id, Flags: m.Flags, Date: m.Date}, append([]byte(nil), literal...), nil
		}
	}
	c.nextMsg++
	id := imap.MessageID(fmt.Sprintf("%sm%d", c.Prefix, c.nextMsg))
	c.Msgs[id] = &RMessage{ID: id, Literal: append([]byte(nil), literal...), Flags: flags, Date: date}
	if c.Dedupe {
		c.byContent[string(literal)] = id
	}
	call.NewID = string(id)
	call.Msgs = []imap.MessageID{id}
	c.Calls = append(c.Calls, call)
	return imap.Message{ID: id, Flags: flags, Date: date}, append([]byte(nil), literal...), nil
}

func (c *Conn) simple(kind string, ids []imap.MessageID, mbox, to imap.MailboxID, b bool) error {
	c.mu.Lock()
	defer c.mu.Unlock()
	call := Call{Kind: kind, Mailbox: mbox, To: to, Msgs: append([]imap.MessageID(nil), ids...), Bool: b}
	call.Err = c.outcome(kind)
	c.Calls = append(c.Calls, call)
	return call.Err
}

func (c *Conn) AddMessagesToMailbox(ctx context.Context, _ connector.IMAPStateWrite, ids []imap.MessageID, mbox imap.MailboxID) error {
	return c.simple(KAddLabel, ids, mbox, "", false)
}

func (c *Conn) RemoveMessagesFromMailbox(ctx context.Context, _ connector.IMAPStateWrite, ids []imap.MessageID, mbox imap.MailboxID) error {
	return c.simple(KRemoveLabel, ids, mbox, "", false)
}

func (c *Conn) MoveMessages(ctx context.Context, _ connector.IMAPStateWrite, ids []imap.MessageID, from, to imap.MailboxID) (bool, error) {
	if err := c.simple(KMove, ids, from, to, c.MoveRemovesSource); err != nil {
		return false, err
	}
	return c.MoveRemovesSource, nil
}

func (c *Conn) MarkMessagesSeen(ctx context.Context, _ connector.IMAPStateWrite, ids []imap.MessageID, seen bool) error {
	return c.simple(KSeen, ids, "", "", seen)
}

func (c *Conn) MarkMessagesFlagged(ctx context.Context, _ connector.IMAPStateWrite, ids []imap.MessageID, flagged bool) error {
	return c.simple(KFlagged, ids, "", "", flagged)
}

func (c *Conn) MarkMessagesForwarded(ctx context.Context, _ connector.IMAPStateWrite, ids []imap.MessageID, fw bool) error {
	return c.simple(KForwarded, ids, "", "", fw)
}

func (c *Conn) GetUpdates() <-chan imap.Update { return c.updCh }

func (c *Conn) Close(ctx context.Context) error {
	c.mu.Lock()
	defer c.mu.Unlock()
	if !c.closed {
		c.closed = true
		close(c.updCh)
	}
	return nil
}

var _ connector.Connector = (*Conn)(nil)

// AdoptRemote copies the remote-side data (literals, ID counters, names) of a previous
// connector instance: the remote service survives a restart of the mail client.
func (c *Conn) AdoptRemote(old *Conn) {
	old.mu.Lock()
	defer old.mu.Unlock()
	c.nextMsg, c.nextMbox = old.nextMsg, old.nextMbox
	c.Msgs, c.byContent, c.MboxNames = old.Msgs, old.byContent, old.MboxNames
	c.MoveRemovesSource, c.Dedupe, c.SizeLimit = old.MoveRemovesSource, old.Dedupe, old.SizeLimit
	c.Flags, c.PermFlags, c.Attrs = old.Flags, old.PermFlags, old.Attrs
	c.Hidden = old.Hidden
}

// SubmitBlocking sends an update, waiting for the server to take it (or ctx / close).
func (c *Conn) SubmitBlocking(ctx context.Context, u imap.Update) bool {
	for {
		c.mu.Lock()
		if c.closed {
			c.mu.Unlock()
			return false
		}
		// non-blocking attempt under the lock, so that Close cannot close the channel
		// in the middle of a send
		select {
		case c.updCh <- u:
			c.mu.Unlock()
			return true
		default:
		}
		c.mu.Unlock()
		select {
		case <-ctx.Done():
			return false
		case <-time.After(time.Millisecond):
		}
	}
}
