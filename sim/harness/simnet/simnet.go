// Package simnet is the simulated transport: an in-memory net.Listener and net.Conn
// whose server-side reads are cut into fragments chosen by the harness and whose
// blocking is durable for testing/synctest (sync.Cond / channels made in the bubble).
package simnet

import (
	"errors"
	"io"
	"net"
	"sync"
	"time"
)

type addr string

func (a addr) Network() string { return "sim" }
func (a addr) String() string  { return string(a) }

// Listener is an in-memory net.Listener.
type Listener struct {
	ch     chan net.Conn
	closed chan struct{}
	once   sync.Once
}

func NewListener() *Listener {
	return &Listener{ch: make(chan net.Conn), closed: make(chan struct{})}
}

func (l *Listener) Accept() (net.Conn, error) {
	select {
	case c := <-l.ch:
		return c, nil
	case <-l.closed:
		return nil, net.ErrClosed
	}
}

func (l *Listener) Close() error {
	l.once.Do(func() { close(l.closed) })
	return nil
}

func (l *Listener) Addr() net.Addr { return addr("sim-listener") }

// Dial creates a connection and hands its server end to Accept.  It blocks until
// the server accepts (or the listener is closed).
func (l *Listener) Dial(name string) (*Conn, error) {
	c := NewConn(name)
	select {
	case l.ch <- c:
		return c, nil
	case <-l.closed:
		return nil, net.ErrClosed
	}
}

// Conn is the server-side end (net.Conn); the client side is driven through the
// exported Client* methods by the simulator goroutine.
type Conn struct {
	name string
	mu   sync.Mutex
	cond *sync.Cond

	in        []byte // client -> server, not yet read
	inEOF     bool   // client closed its write side
	out       []byte // server -> client, not yet taken
	srvClosed bool   // server called Close
	reset     bool   // client aborted: reads and writes fail

	// Frag chooses how many of the avail (>0) bytes one Read returns (1..avail).
	Frag func(avail int) int
	// WriteStall makes server writes block until cleared (client not reading).
	writeStall bool
	// WriteErr makes server writes fail.
	writeErr error

	BytesIn, BytesOut int64
	Reads, Writes     int64
}

func NewConn(name string) *Conn {
	c := &Conn{name: name}
	c.cond = sync.NewCond(&c.mu)
	return c
}

var errReset = errors.New("simnet: connection reset by peer")

func (c *Conn) Read(p []byte) (int, error) {
	c.mu.Lock()
	defer c.mu.Unlock()
	for len(c.in) == 0 && !c.inEOF && !c.srvClosed && !c.reset {
		c.cond.Wait()
	}
	if c.srvClosed {
		return 0, net.ErrClosed
	}
	if c.reset {
		return 0, errReset
	}
	if len(c.in) == 0 {
		return 0, io.EOF
	}
	if len(p) == 0 {
		return 0, nil
	}
	n := len(c.in)
	if n > len(p) {
		n = len(p)
	}
	if c.Frag != nil {
		k := c.Frag(n)
		if k >= 1 && k <= n {
			n = k
		}
	}
	copy(p, c.in[:n])
	c.in = c.in[n:]
	c.Reads++
	return n, nil
}

func (c *Conn) Write(p []byte) (int, error) {
	c.mu.Lock()
	defer c.mu.Unlock()
	for c.writeStall && !c.srvClosed && !c.reset && c.writeErr == nil {
		c.cond.Wait()
	}
	if c.srvClosed {
		return 0, net.ErrClosed
	}
	if c.reset {
		return 0, errReset
	}
	if c.writeErr != nil {
		return 0, c.writeErr
	}
	c.out = append(c.out, p...)
	c.BytesOut += int64(len(p))
	c.Writes++
	return len(p), nil
}

func (c *Conn) Close() error {
	c.mu.Lock()
	c.srvClosed = true
	c.cond.Broadcast()
	c.mu.Unlock()
	return nil
}

func (c *Conn) LocalAddr() net.Addr                { return addr("server") }
func (c *Conn) RemoteAddr() net.Addr               { return addr(c.name) }
func (c *Conn) SetDeadline(t time.Time) error      { return nil }
func (c *Conn) SetReadDeadline(t time.Time) error  { return nil }
func (c *Conn) SetWriteDeadline(t time.Time) error { return nil }

// ---- client side (simulator goroutine) ----

// ClientSend queues bytes for the server to read.
func (c *Conn) ClientSend(b []byte) {
	c.mu.Lock()
	c.in = append(c.in, b...)
	c.BytesIn += int64(len(b))
	c.cond.Broadcast()
	c.mu.Unlock()
}

// ClientTake returns and clears everything the server has written so far.
func (c *Conn) ClientTake() []byte {
	c.mu.Lock()
	defer c.mu.Unlock()
	b := c.out
	c.out = nil
	return b
}

// ClientCloseWrite signals EOF to the server after the queued bytes.
func (c *Conn) ClientCloseWrite() {
	c.mu.Lock()
	c.inEOF = true
	c.cond.Broadcast()
	c.mu.Unlock()
}

// ClientReset aborts the connection: pending input is dropped, server I/O fails.
func (c *Conn) ClientReset() {
	c.mu.Lock()
	c.reset = true
	c.in = nil
	c.cond.Broadcast()
	c.mu.Unlock()
}

// SetWriteStall makes server writes block (true) or resume (false).
func (c *Conn) SetWriteStall(on bool) {
	c.mu.Lock()
	c.writeStall = on
	c.cond.Broadcast()
	c.mu.Unlock()
}

// ServerClosed reports whether the server closed its end.
func (c *Conn) ServerClosed() bool {
	c.mu.Lock()
	defer c.mu.Unlock()
	return c.srvClosed
}

// PendingIn reports how many client bytes the server has not read yet.
func (c *Conn) PendingIn() int {
	c.mu.Lock()
	defer c.mu.Unlock()
	return len(c.in)
}
