package harness

// The worker: one OS process that executes run indices [from, from+count) of one
// property's seeded search (or replays one scenario file), writing one JSON record
// per run.  It is a test binary only because testing/synctest needs a *testing.T.

import (
	"bufio"
	"encoding/json"
	"fmt"
	"os"
	"path/filepath"
	"runtime"
	"runtime/debug"
	"strconv"
	"strings"
	"sync"
	"testing"
	"time"

	"verifharness/core"
	"verifharness/props"
)

func envInt(k string, def int) int {
	if v := os.Getenv(k); v != "" {
		if n, err := strconv.Atoi(v); err == nil {
			return n
		}
	}
	return def
}

func envU64(k string, def uint64) uint64 {
	if v := os.Getenv(k); v != "" {
		if n, err := strconv.ParseUint(v, 10, 64); err == nil {
			return n
		}
	}
	return def
}

func TestWorker(t *testing.T) {
	propID := os.Getenv("VERIF_PROP")
	if propID == "" {
		t.Skip("VERIF_PROP not set")
	}
	p, ok := props.Registry[propID]
	if !ok {
		fmt.Fprintf(os.Stderr, "worker: unknown property %q\n", propID)
		os.Exit(2)
	}
	props.T = t
	if d := os.Getenv("VERIF_SCRATCH"); d != "" {
		props.ScratchBase = d
	}
	out := os.Stdout
	if f := os.Getenv("VERIF_OUT"); f != "" {
		fh, err := os.Create(f)
		if err != nil {
			fmt.Fprintln(os.Stderr, "worker:", err)
			os.Exit(2)
		}
		defer fh.Close()
		out = fh
	}
	bw := bufio.NewWriter(out)
	defer bw.Flush()
	var emitMu sync.Mutex
	emit := func(rec *core.RunRecord) {
		emitMu.Lock()
		defer emitMu.Unlock()
		b, _ := json.Marshal(rec)
		bw.Write(b)
		bw.WriteByte('\n')
		bw.Flush()
	}

	// real-time watchdog: a run that does not come back (a spin, or a deadlock on locks
	// that testing/synctest cannot see as durably blocked) is reported as a hang with
	// the goroutine dump; the process cannot continue after that.
	runTimeout := time.Duration(envInt("VERIF_RUN_TIMEOUT_S", 120)) * time.Second
	var wdMu sync.Mutex
	var wdCur *core.Scenario
	var wdIdx int
	var wdStart time.Time
	guard := func(sc *core.Scenario, idx int) func() {
		wdMu.Lock()
		wdCur, wdIdx, wdStart = sc, idx, time.Now()
		wdMu.Unlock()
		return func() {
			wdMu.Lock()
			wdCur = nil
			wdMu.Unlock()
		}
	}
	go func() {
		for {
			time.Sleep(2 * time.Second)
			wdMu.Lock()
			sc, idx, st := wdCur, wdIdx, wdStart
			wdMu.Unlock()
			if sc == nil || time.Since(st) < runTimeout {
				continue
			}
			buf := make([]byte, 4<<20)
			n := runtime.Stack(buf, true)
			var gl, durable []string
			for _, g := range strings.Split(string(buf[:n]), "\n\n") {
				if strings.Contains(g, "github.com/ProtonMail/gluon/") && !strings.Contains(g, "TestWorker") {
					// goroutines that are NOT durably blocked (lock waits, running) come first:
					// they are what keeps the simulation from reaching quiescence
					if strings.Contains(strings.SplitN(g, "\n", 2)[0], "(durable)") {
						durable = append(durable, g)
					} else {
						gl = append(gl, g)
					}
				}
			}
			gl = append(gl, durable...)
			if len(gl) > 12 {
				gl = gl[:12]
			}
			v := &core.Violation{Property: propID, Oracle: "hang", Detail: fmt.Sprintf("the run did not finish within %v of real time (spin or deadlock); goroutines in gluon code:\n%s", runTimeout, strings.Join(gl, "\n\n")), Sig: "hang: run did not finish", Step: -1}
			rec := &core.RunRecord{Idx: idx, Seed: sc.Seed, Violation: v, WallMs: time.Since(st).Milliseconds()}
			if dir := os.Getenv("VERIF_REPLAY_DIR"); dir != "" && idx != -1 {
				path := filepath.Join(dir, fmt.Sprintf("%s-%d.json", propID, sc.Seed))
				if core.WriteReplay(path, sc, v, nil) == nil {
					rec.Replay = path
				}
			}
			emit(rec)
			os.Exit(3)
		}
	}()

	if rp := os.Getenv("VERIF_REPLAY"); rp != "" {
		sc, err := core.ReadReplay(rp)
		if err != nil {
			fmt.Fprintln(os.Stderr, "worker:", err)
			os.Exit(2)
		}
		st := time.Now()
		unguard := guard(sc, -1)
		res := p.Execute(sc, true)
		// scenarios whose outcome depends on something they do not decide (props.json
		// exec_repeat): up to k executions in this process, the first violation counts
		for i := 1; i < envInt("VERIF_EXEC_REPEAT", 1) && res.V == nil && res.Infra == nil; i++ {
			res = p.Execute(sc, true)
		}
		unguard()
		rec := &core.RunRecord{Idx: -1, Seed: sc.Seed, Stats: res.Stats, Violation: res.V, Sample: res.Log, WallMs: time.Since(st).Milliseconds()}
		if res.Infra != nil {
			rec.Infra = res.Infra.Error()
		}
		emit(rec)
		return
	}

	seed := envU64("VERIF_SEED", 1)
	from := envInt("VERIF_FROM", 0)
	stride := envInt("VERIF_STRIDE", 1)
	count := envInt("VERIF_COUNT", 1<<30)
	tier := os.Getenv("VERIF_TIER")
	if tier == "" {
		tier = "quick"
	}
	budget := time.Duration(envInt("VERIF_BUDGET_S", 30)) * time.Second
	replayDir := os.Getenv("VERIF_REPLAY_DIR")
	maxViol := envInt("VERIF_MAX_VIOL", 3)
	shrinkBudget := envInt("VERIF_SHRINK_RUNS", 150)
	sampleEvery := envInt("VERIF_SAMPLE_EVERY", 200)
	start := time.Now()
	seenSig := map[string]bool{}
	known := core.LoadKnown(os.Getenv("VERIF_KNOWN"))
	repeat := envInt("VERIF_EXEC_REPEAT", 1)
	// again: re-execution of a scenario that has shown a violation (shrinking, confirmation)
	again := func(c *core.Scenario, keep bool) *core.Result {
		r := p.Execute(c, keep)
		for i := 1; i < repeat && r.V == nil && r.Infra == nil; i++ {
			r = p.Execute(c, keep)
		}
		return r
	}
	viol := 0
	for k := 0; k < count; k++ {
		if time.Since(start) > budget {
			break
		}
		idx := from + k*stride
		rseed := core.Mix(seed, uint64(idx))
		sc := p.Generate(core.NewRand(rseed), tier, idx)
		sc.Seed = rseed
		sc.Tier = tier
		st := time.Now()
		keep := k%sampleEvery == 0
		unguard := guard(sc, idx)
		res := safeExecute(p, sc, keep, replayDir)
		unguard()
		rec := &core.RunRecord{Idx: idx, Seed: rseed, Stats: res.Stats, WallMs: time.Since(st).Milliseconds()}
		if keep {
			rec.Sample = abridgeLog(res.Log, 40)
		}
		if res.Infra != nil {
			rec.Infra = res.Infra.Error()
			emit(rec)
			continue
		}
		if res.V != nil {
			rec.Violation = res.V
			if k := core.MatchKnown(known, sc, res.V); k != nil {
				rec.Known = k.ID
				emit(rec)
				continue
			}
			if !seenSig[res.V.Sig] && replayDir != "" {
				seenSig[res.V.Sig] = true
				small, sres, runs := core.Shrink(sc, res.V.Sig, shrinkBudget, func(c *core.Scenario) *core.Result {
					un := guard(c, -2) // a hang while shrinking is reported for the candidate
					defer un()
					r := again(c, false)
					if r.V != nil && core.MatchKnown(known, c, r.V) != nil {
						// a smaller scenario that shows a recorded finding instead is not a
						// smaller form of this violation
						r.V = nil
					}
					return r
				})
				rec.Shrunk = fmt.Sprintf("%d->%d actions in %d runs", len(sc.Actions), len(small.Actions), runs)
				un := guard(small, -2)
				final := again(small, true)
				un()
				v := final.V
				if v == nil || v.Sig != res.V.Sig {
					// shrinking result does not reproduce: keep the original
					small = sc
					final = again(sc, true)
					v = final.V
					_ = sres
				}
				if v != nil {
					path := filepath.Join(replayDir, fmt.Sprintf("%s-%d.json", propID, rseed))
					if err := core.WriteReplay(path, small, v, final.Log); err == nil {
						rec.Replay = path
					}
					rec.Violation = v
				} else {
					// observed once, not again: keep what was observed with the unshrunk
					// scenario; the driver decides what to make of it
					rec.Unstable = true
					rec.Violation = res.V
					path := filepath.Join(replayDir, fmt.Sprintf("%s-%d.json", propID, rseed))
					if err := core.WriteReplay(path, sc, res.V, res.Log); err == nil {
						rec.Replay = path
					}
				}
			}
			viol++
		}
		emit(rec)
		if viol >= maxViol {
			break
		}
	}
}

func abridgeLog(log []string, n int) []string {
	if len(log) <= n {
		return log
	}
	out := append([]string(nil), log[:n]...)
	return append(out, fmt.Sprintf("... (%d more lines)", len(log)-n))
}

// safeExecute turns a panic of the harness itself (on the goroutine that executes the
// scenario) into an infrastructure error of that run, with the stack and the scenario saved
// for diagnosis, instead of losing the whole worker.
func safeExecute(p core.Property, sc *core.Scenario, keep bool, replayDir string) (res *core.Result) {
	defer func() {
		if r := recover(); r != nil {
			where := ""
			if replayDir != "" {
				if b, err := json.MarshalIndent(sc, "", " "); err == nil {
					where = filepath.Join(replayDir, fmt.Sprintf("%s-%d-harness-panic.json", sc.Property, sc.Seed))
					_ = os.WriteFile(where, b, 0o644)
				}
			}
			res = &core.Result{Stats: core.NewStats(), Infra: fmt.Errorf("harness panic: %v (scenario saved as %s)\n%s", r, where, debug.Stack())}
		}
	}()
	return p.Execute(sc, keep)
}
