package harness

// The worker: one OS process that executes run indices [from, from+count) of one
// property's seeded search (or replays one scenario file), writing one JSON record
// per run.  It is a test binary only because testing/synctest needs a *testing.T.

import (
	"bufio"
	"encoding/json"
	"fmt"
	"os"
	"path/filepath"
	"strconv"
	"testing"
	"time"

	"verifharness/core"
	"verifharness/props"
)

func envInt(k string, def int) int {
	if v := os.Getenv(k); v != "" {
		if n, err := strconv.Atoi(v); err == nil {
			return n
		}
	}
	return def
}

func envU64(k string, def uint64) uint64 {
	if v := os.Getenv(k); v != "" {
		if n, err := strconv.ParseUint(v, 10, 64); err == nil {
			return n
		}
	}
	return def
}

func TestWorker(t *testing.T) {
	propID := os.Getenv("VERIF_PROP")
	if propID == "" {
		t.Skip("VERIF_PROP not set")
	}
	p, ok := props.Registry[propID]
	if !ok {
		fmt.Fprintf(os.Stderr, "worker: unknown property %q\n", propID)
		os.Exit(2)
	}
	props.T = t
	if d := os.Getenv("VERIF_SCRATCH"); d != "" {
		props.ScratchBase = d
	}
	out := os.Stdout
	if f := os.Getenv("VERIF_OUT"); f != "" {
		fh, err := os.Create(f)
		if err != nil {
			fmt.Fprintln(os.Stderr, "worker:", err)
			os.Exit(2)
		}
		defer fh.Close()
		out = fh
	}
	bw := bufio.NewWriter(out)
	defer bw.Flush()
	emit := func(rec *core.RunRecord) {
		b, _ := json.Marshal(rec)
		bw.Write(b)
		bw.WriteByte('\n')
		bw.Flush()
	}

	if rp := os.Getenv("VERIF_REPLAY"); rp != "" {
		sc, err := core.ReadReplay(rp)
		if err != nil {
			fmt.Fprintln(os.Stderr, "worker:", err)
			os.Exit(2)
		}
		st := time.Now()
		res := p.Execute(sc, true)
		rec := &core.RunRecord{Idx: -1, Seed: sc.Seed, Stats: res.Stats, Violation: res.V, Sample: res.Log, WallMs: time.Since(st).Milliseconds()}
		if res.Infra != nil {
			rec.Infra = res.Infra.Error()
		}
		emit(rec)
		return
	}

	seed := envU64("VERIF_SEED", 1)
	from := envInt("VERIF_FROM", 0)
	stride := envInt("VERIF_STRIDE", 1)
	count := envInt("VERIF_COUNT", 1<<30)
	tier := os.Getenv("VERIF_TIER")
	if tier == "" {
		tier = "quick"
	}
	budget := time.Duration(envInt("VERIF_BUDGET_S", 30)) * time.Second
	replayDir := os.Getenv("VERIF_REPLAY_DIR")
	maxViol := envInt("VERIF_MAX_VIOL", 3)
	shrinkBudget := envInt("VERIF_SHRINK_RUNS", 150)
	sampleEvery := envInt("VERIF_SAMPLE_EVERY", 200)
	start := time.Now()
	seenSig := map[string]bool{}
	known := core.LoadKnown(os.Getenv("VERIF_KNOWN"))
	viol := 0
	for k := 0; k < count; k++ {
		if time.Since(start) > budget {
			break
		}
		idx := from + k*stride
		rseed := core.Mix(seed, uint64(idx))
		sc := p.Generate(core.NewRand(rseed), tier, idx)
		sc.Seed = rseed
		sc.Tier = tier
		st := time.Now()
		keep := k%sampleEvery == 0
		res := p.Execute(sc, keep)
		rec := &core.RunRecord{Idx: idx, Seed: rseed, Stats: res.Stats, WallMs: time.Since(st).Milliseconds()}
		if keep {
			rec.Sample = abridgeLog(res.Log, 40)
		}
		if res.Infra != nil {
			rec.Infra = res.Infra.Error()
			emit(rec)
			continue
		}
		if res.V != nil {
			rec.Violation = res.V
			if k := core.MatchKnown(known, sc, res.V); k != nil {
				rec.Known = k.ID
				emit(rec)
				continue
			}
			if !seenSig[res.V.Sig] && replayDir != "" {
				seenSig[res.V.Sig] = true
				small, sres, runs := core.Shrink(sc, res.V.Sig, shrinkBudget, func(c *core.Scenario) *core.Result { return p.Execute(c, false) })
				rec.Shrunk = fmt.Sprintf("%d->%d actions in %d runs", len(sc.Actions), len(small.Actions), runs)
				final := p.Execute(small, true)
				v := final.V
				if v == nil || v.Sig != res.V.Sig {
					// shrinking result does not reproduce: keep the original
					small = sc
					final = p.Execute(sc, true)
					v = final.V
					_ = sres
				}
				if v != nil {
					path := filepath.Join(replayDir, fmt.Sprintf("%s-%d.json", propID, rseed))
					if err := core.WriteReplay(path, small, v, final.Log); err == nil {
						rec.Replay = path
					}
					rec.Violation = v
				} else {
					rec.Infra = "violation did not reproduce in-process: " + res.V.Error()
					rec.Violation = nil
				}
			}
			viol++
		}
		emit(rec)
		if viol >= maxViol {
			break
		}
	}
}

func abridgeLog(log []string, n int) []string {
	if len(log) <= n {
		return log
	}
	out := append([]string(nil), log[:n]...)
	return append(out, fmt.Sprintf("... (%d more lines)", len(log)-n))
}
