module verifharness

go 1.26

require (
	github.com/ProtonMail/gluon v0.0.0
	github.com/anishathalye/porcupine v1.3.0
	github.com/google/uuid v1.3.0
	github.com/sirupsen/logrus v1.9.2
)

replace github.com/ProtonMail/gluon => ../gluon
