package gen

// Message shapes for C13 (FETCH is byte-exact): richer header forms, line endings,
// 8-bit and binary data, MIME trees with embedded messages, sizes that cross the
// store's block boundaries.  Like Build it records the byte range of every entity so
// that the expected answer of every FETCH section comes from construction.

import (
	"fmt"
	"strings"

	"verifharness/core"
)

// Opts13 selects the shape classes of one message.
type Opts13 struct {
	MaxDepth       int  // MIME nesting (0 = no multipart, no embedded message)
	LF             bool // bare LF line endings throughout
	Odd            bool // unusual but legal header forms (no space after the colon, duplicates in other case, long lines, 8-bit)
	EmptyField     bool // with Odd: a header field with an empty value ("X-Empty:" CRLF)
	Big            int  // if > 0 one leaf carries about this many bytes of poorly compressible data
	Binary         bool // one leaf may carry arbitrary bytes (no NUL)
	NoBody         bool // the top-level message may end right after its header (no blank line)
	PrefixBoundary bool // a nested multipart may use a boundary that extends its parent's boundary
	EmptyPart      bool // a multipart may contain a completely empty body part (no header, no body)
}

type b13 struct {
	builder
	o       Opts13
	nl      string
	bigUsed bool
	bounds  []string
}

func (b *b13) w(s string) { b.buf.WriteString(s) }

// fld writes one header field (value may contain folds written with "\n" placeholders
// which are converted to the message's line ending).
func (b *b13) fld(p *Part, name, sep, value string) {
	st := b.buf.Len()
	value = strings.ReplaceAll(value, "\n", b.nl)
	b.w(name + ":" + sep + value + b.nl)
	p.HeaderFields = append(p.HeaderFields, [2]int{st, b.buf.Len()})
}

func (b *b13) word() string { return words[b.r.Intn(len(words))] }

// Build13 makes a message for C13.
func Build13(marker int, r *core.Rand, o Opts13) *Message {
	b := &b13{o: o, nl: "\r\n"}
	b.r = r
	if o.LF {
		b.nl = "\n"
	}
	m := &Message{Marker: marker}
	root := &Part{}
	m.Root = root
	day := 1 + r.Intn(28)
	mon := []string{"Jan", "Feb", "Mar", "Apr", "May", "Jun", "Jul", "Aug", "Sep", "Oct", "Nov", "Dec"}[r.Intn(12)]
	m.Date = fmt.Sprintf("%d %s %d %02d:%02d:%02d +0000", day, mon, 2001+r.Intn(20), r.Intn(24), r.Intn(60), r.Intn(60))
	m.From = fmt.Sprintf("%s%d@example.com", b.word(), r.Intn(50))
	m.To = fmt.Sprintf("%s%d@example.org", b.word(), r.Intn(50))
	m.Subject = fmt.Sprintf("%s %s <%d>", b.word(), b.word(), marker)

	// the header fields, in a random order (Date and From are required by APPEND)
	type hf struct{ name, sep, val string }
	fields := []hf{
		{"Date", " ", m.Date},
		{"From", " ", m.From},
		{"Subject", " ", m.Subject},
		{"X-Sim-Marker", " ", fmt.Sprintf("<%d>", marker)},
	}
	if r.P(4, 5) {
		fields = append(fields, hf{"To", " ", m.To})
	}
	if r.P(1, 2) {
		fields = append(fields, hf{"Message-Id", " ", fmt.Sprintf("<sim-%d-%d@example.com>", marker, r.Intn(1000))})
	}
	if r.P(1, 3) {
		fields = append(fields, hf{"X-Folded", " ", "first line\n\tsecond line " + b.word() + "\n  third"})
	}
	for i, n := 0, r.Intn(4); i < n && r.P(1, 2); i++ {
		fields = append(fields, hf{"Received", " ", fmt.Sprintf("from host%d.example.net (%s)\n\tby mx%d.example.org with ESMTP id %d;\n\tMon, 1 Jan 2018 0%d:00:00 +0000", i, b.word(), i, r.Intn(100000), i)})
	}
	if o.Odd {
		if r.P(1, 2) && o.EmptyField {
			fields = append(fields, hf{"X-Empty", "", ""})
		}
		if r.P(1, 2) {
			fields = append(fields, hf{"X-NoSpace", "", "value-" + b.word()})
		}
		if r.P(1, 2) {
			fields = append(fields, hf{"X-Dup", " ", "one"}, hf{"x-dup", " ", "two"}, hf{"X-DUP", " ", "three"})
		}
		if r.P(1, 3) {
			fields = append(fields, hf{"X-Long", " ", strings.Repeat(b.word()+" ", 150+r.Intn(100))})
		}
		if r.P(1, 3) {
			fields = append(fields, hf{"X-Utf", " ", "caf\xc3\xa9 \xe2\x82\xac " + b.word()})
		}
		if r.P(1, 3) {
			fields = append(fields, hf{"X-Tab", "\t", "tab separated " + b.word()})
		}
		if r.P(1, 4) {
			fields = append(fields, hf{"X-Trail", " ", "trailing blanks   "})
		}
		if r.P(1, 4) {
			fields = append(fields, hf{"X-Odd_Name.1", " ", b.word()})
		}
		if r.P(1, 4) {
			fields = append(fields, hf{"SUBJECT", " ", "second subject in capitals"})
		}
		if r.P(1, 5) {
			for i := 0; i < 60; i++ {
				fields = append(fields, hf{fmt.Sprintf("X-Many-%d", i%7), " ", fmt.Sprintf("%d %s", i, b.word())})
			}
		}
	}
	// shuffle (Fisher-Yates on the generator stream)
	for i := len(fields) - 1; i > 0; i-- {
		j := r.Intn(i + 1)
		fields[i], fields[j] = fields[j], fields[i]
	}
	for _, f := range fields {
		b.fld(root, f.name, f.sep, f.val)
	}
	b.entity(root, o.MaxDepth, true)
	m.Bytes = b.buf.Bytes()
	m.Size = len(m.Bytes)
	return m
}

// leafBody writes the content of a leaf.  inMultipart: the content is followed by a
// line break that belongs to the next delimiter, so it must not end in a lone CR.
func (b *b13) leafBody(inMultipart bool) {
	r := b.r
	if b.o.Big > 0 && !b.bigUsed && r.P(1, 2) {
		b.bigUsed = true
		b.bigData(b.o.Big)
		return
	}
	switch r.Weighted([]int{8, 1, 2, 2, 1}) {
	case 0: // text lines
		n := r.Intn(7)
		for i := 0; i < n; i++ {
			line := fmt.Sprintf("line %d %s %s", i, b.word(), b.word())
			if r.P(1, 6) {
				line += " caf\xc3\xa9 \xe2\x82\xac"
			}
			if r.P(1, 10) {
				line = "--" + line
			}
			if r.P(1, 12) {
				line = ""
			}
			b.w(line + b.nl)
		}
		if r.P(1, 5) {
			b.w("no trailing newline")
		}
	case 1: // empty
	case 2: // a line that looks like a delimiter of some other multipart
		b.w("--not-a-boundary" + b.nl + "text" + b.nl + "--not-a-boundary--" + b.nl)
	case 3: // looks like a header
		b.w("Subject: not a header" + b.nl + IDHeader + ": 11111111-2222-3333-4444-555555555555" + b.nl + b.nl + "after" + b.nl)
	case 4:
		if b.o.Binary {
			n := 1 + r.Intn(300)
			for i := 0; i < n; i++ {
				c := byte(1 + r.Intn(255))
				if c == '-' {
					c = '+'
				}
				b.buf.WriteByte(c)
			}
			if inMultipart {
				b.buf.WriteByte('.')
			}
		} else {
			b.w("single line" + b.nl)
		}
	}
}

const b64 = "ABCDEFGHIJKLMNOPQRSTUVWXYZabcdefghijklmnopqrstuvwxyz0123456789+/"

// bigData writes about n bytes of base64-looking random lines (compresses to ~3/4).
func (b *b13) bigData(n int) {
	line := make([]byte, 76)
	for b2 := 0; b2 < n; b2 += 76 + len(b.nl) {
		for i := 0; i < 76; i += 8 {
			v := b.r.U64()
			for k := 0; k < 8 && i+k < 76; k++ {
				line[i+k] = b64[v&63]
				v >>= 6
			}
		}
		b.buf.Write(line)
		b.w(b.nl)
	}
}

// entity writes Content-* fields, the blank line and the body of entity p whose other
// header fields have been written already.
func (b *b13) entity(p *Part, depth int, top bool) {
	r := b.r
	kind := 0
	if depth > 0 {
		kind = r.Weighted([]int{3, 5, 2})
		if top && kind == 2 {
			kind = 1
		}
	}
	switch kind {
	case 0:
		p.Type = "text/plain"
		if r.P(2, 3) {
			sub := []string{"plain", "html", "x-sim"}[r.Intn(3)]
			p.Type = "text/" + sub
			name := []string{"Content-Type", "Content-type", "CONTENT-TYPE"}[r.Weighted([]int{6, 1, 1})]
			b.fld(p, name, " ", p.Type+"; charset=utf-8")
		}
		if r.P(1, 4) {
			b.fld(p, "Content-Transfer-Encoding", " ", "8bit")
		}
		if top && b.o.NoBody && r.P(1, 2) {
			// header only, no blank line
			p.HeaderEnd = b.buf.Len()
			p.End = b.buf.Len()
			return
		}
		// (a part without any header field starts with the blank line)
		b.w(b.nl)
		p.HeaderEnd = b.buf.Len()
		b.leafBody(!top)
		p.End = b.buf.Len()
	case 1:
		boundary := fmt.Sprintf("b%d-%s", r.Intn(10000), b.word())
		switch r.Weighted([]int{6, 1, 1, 1}) {
		case 1: // what common mail programs write
			boundary = fmt.Sprintf("----=_NextPart_%03d_%04X_01D%d.%s", r.Intn(1000), r.Intn(65536), r.Intn(10), b.word())
		case 2: // every character class RFC 2046 allows (needs the quoted form)
			boundary = fmt.Sprintf("=_(%d)+%s,/:=?' %s", r.Intn(1000), b.word(), b.word())
		case 3:
			boundary = fmt.Sprintf("%d", r.Intn(100000))
		}
		if b.o.PrefixBoundary && len(b.bounds) > 0 && r.P(1, 2) {
			boundary = b.bounds[len(b.bounds)-1] + "x"
		}
		b.bounds = append(b.bounds, boundary)
		sub := []string{"mixed", "alternative", "related"}[r.Intn(3)]
		p.Type = "multipart/" + sub
		form := r.Weighted([]int{5, 2, 2, 1})
		if strings.ContainsAny(boundary, " ()/:=?',") && form == 1 {
			form = 0
		}
		switch form {
		case 0:
			b.fld(p, "Content-Type", " ", fmt.Sprintf("%s; boundary=\"%s\"", p.Type, boundary))
		case 1:
			b.fld(p, "Content-Type", " ", fmt.Sprintf("%s; boundary=%s", p.Type, boundary))
		case 2:
			b.fld(p, "Content-type", " ", fmt.Sprintf("Multipart/%s;\n\tboundary=\"%s\"", strings.ToUpper(sub[:1])+sub[1:], boundary))
		case 3:
			b.fld(p, "Content-Type", " ", fmt.Sprintf("%s; charset=us-ascii; Boundary=\"%s\"; x-extra=1", p.Type, boundary))
		}
		if r.P(1, 4) {
			b.fld(p, "MIME-Version", " ", "1.0")
		}
		b.w(b.nl)
		p.HeaderEnd = b.buf.Len()
		if r.P(1, 2) {
			b.w("preamble text" + b.nl)
		}
		n := 1 + r.Intn(3)
		for i := 0; i < n; i++ {
			b.w("--" + boundary + b.nl)
			c := &Part{Start: b.buf.Len()}
			if b.o.EmptyPart && r.P(1, 3) {
				// delimiter, CRLF, delimiter: a body part of zero bytes (RFC 2046 allows it);
				// it still counts in the numbering of its siblings
				c.Type = "text/plain"
				c.HeaderEnd, c.End = b.buf.Len(), b.buf.Len()
				p.Children = append(p.Children, c)
				b.w(b.nl)
				continue
			}
			if r.P(1, 3) {
				b.fld(c, "Content-Description", " ", b.word())
			}
			if r.P(1, 6) {
				b.fld(c, "Content-Disposition", " ", "attachment;\n filename=\""+b.word()+".txt\"")
			}
			b.entity(c, depth-1, false)
			p.Children = append(p.Children, c)
			b.w(b.nl)
		}
		b.w("--" + boundary + "--")
		b.bounds = b.bounds[:len(b.bounds)-1]
		// the closing delimiter may be the very end of the entity
		if !(top && r.P(1, 4)) {
			b.w(b.nl)
			if r.P(1, 3) {
				b.w("epilogue" + b.nl)
			}
		}
		p.End = b.buf.Len()
	case 2:
		p.Type = "message/rfc822"
		name := []string{"Content-Type", "content-type"}[r.Weighted([]int{5, 1})]
		val := []string{"message/rfc822", "Message/RFC822", "message/rfc822; name=\"fwd.eml\""}[r.Weighted([]int{4, 1, 1})]
		b.fld(p, name, " ", val)
		if r.P(1, 4) {
			b.fld(p, "Content-Disposition", " ", "inline")
		}
		b.w(b.nl)
		p.HeaderEnd = b.buf.Len()
		e := &Part{Start: b.buf.Len()}
		if r.P(1, 5) {
			b.fld(e, IDHeader, " ", "99999999-8888-7777-6666-555555555555")
		}
		b.fld(e, "Date", " ", "1 Jan 2020 00:00:00 +0000")
		b.fld(e, "From", " ", "inner@example.com")
		b.fld(e, "Subject", " ", "inner "+b.word())
		if r.P(1, 3) {
			b.fld(e, "X-Folded", " ", "inner fold\n\tcontinued")
		}
		b.entity(e, depth-1, false)
		p.Embedded = e
		p.End = b.buf.Len()
	}
}

// FieldName returns the name of the header field at range f of the message bytes.
func FieldName(b []byte, f [2]int) string {
	s := b[f[0]:f[1]]
	for i, c := range s {
		if c == ':' {
			return string(s[:i])
		}
	}
	return ""
}
