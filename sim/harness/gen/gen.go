// Package gen builds RFC 5322 messages with a stable identity (the marker) and
// records the byte ranges of their parts so that expected FETCH results come from
// construction, not from parsing.
package gen

import (
	"bytes"
	"fmt"
	"regexp"
	"strconv"
	"strings"

	"verifharness/core"
)

// Part describes one MIME entity inside a message.
type Part struct {
	Path      []int  // IMAP part path (1-based); empty = the message itself
	Start     int    // offset of the entity's first header byte
	HeaderEnd int    // offset just after the blank line ending the header
	End       int    // offset after the entity's last body byte
	Type      string // lower-case content type, e.g. text/plain, multipart/mixed, message/rfc822
	Children  []*Part
	Embedded  *Part // for message/rfc822: the embedded message (as an entity)
	HeaderFields [][2]int // [start,end) of each header field (incl. folded lines and CRLF)
}

type Message struct {
	Marker  int
	Bytes   []byte
	Root    *Part
	Subject string
	From    string
	To      string
	Date    string
	Size    int
}

const IDHeader = "X-Pm-Gluon-Id"

var markerRe = regexp.MustCompile(`(?i)X-Sim-Marker: <(\d+)>`)

// MarkerOf extracts the marker from fetched bytes (-1 if absent).
func MarkerOf(b []byte) int {
	m := markerRe.FindSubmatch(b)
	if m == nil {
		return -1
	}
	v, _ := strconv.Atoi(string(m[1]))
	return v
}

// StripID removes the server's ID header line (which must be the first header line
// if present at all) and reports whether exactly one such line was found there.
func StripID(b []byte) (rest []byte, uuid string, ok bool) {
	prefix := []byte(IDHeader + ": ")
	if !bytes.HasPrefix(b, prefix) {
		return b, "", false
	}
	i := bytes.Index(b, []byte("\r\n"))
	if i < 0 {
		return b, "", false
	}
	rest = b[i+2:]
	uuid = string(b[len(prefix):i])
	if bytes.Contains(bytes.ToLower(rest[:headerEnd(rest)]), bytes.ToLower([]byte("\n"+IDHeader+":"))) {
		return rest, uuid, false
	}
	return rest, uuid, true
}

func headerEnd(b []byte) int {
	if i := bytes.Index(b, []byte("\r\n\r\n")); i >= 0 {
		return i + 4
	}
	return len(b)
}

var words = []string{"alpha", "bravo", "charlie", "delta", "echo", "foxtrot", "golf", "hotel", "india", "juliet", "kilo", "lima"}

type builder struct {
	buf bytes.Buffer
	r   *core.Rand
}

func (b *builder) field(p *Part, name, value string) {
	st := b.buf.Len()
	b.buf.WriteString(name + ": " + value + "\r\n")
	p.HeaderFields = append(p.HeaderFields, [2]int{st, b.buf.Len()})
}

// Simple builds a small single-part message.  variant picks body shape.
func Simple(marker int, r *core.Rand) *Message {
	return Build(marker, r, Opts{MaxDepth: 0})
}

type Opts struct {
	MaxDepth int // 0 = single part
	BigBody  int // if >0, one leaf gets about this many bytes
	NoCRLFInBody bool
	// EmbedIDHeader puts a line that looks like the server's ID header into a body (as a
	// forwarded message that once passed through gluon would carry).
	EmbedIDHeader bool
	// BadEncoding declares base64 for a text leaf whose body is not base64 (illegal
	// characters, missing padding): accepted by the server, but its content cannot be decoded.
	BadEncoding bool
}

// Build makes a message with a random MIME tree of at most MaxDepth levels.
func Build(marker int, r *core.Rand, o Opts) *Message {
	b := &builder{r: r}
	m := &Message{Marker: marker}
	root := &Part{}
	m.Root = root
	root.Start = 0
	day := 1 + r.Intn(28)
	mon := []string{"Jan", "Feb", "Mar", "Apr", "May", "Jun", "Jul", "Aug", "Sep", "Oct", "Nov", "Dec"}[r.Intn(12)]
	year := 2001 + r.Intn(20)
	m.Date = fmt.Sprintf("%d %s %d %02d:%02d:%02d +0000", day, mon, year, r.Intn(24), r.Intn(60), r.Intn(60))
	m.From = fmt.Sprintf("%s%d@example.com", words[r.Intn(len(words))], r.Intn(50))
	m.To = fmt.Sprintf("%s%d@example.org", words[r.Intn(len(words))], r.Intn(50))
	m.Subject = fmt.Sprintf("%s %s <%d>", words[r.Intn(len(words))], words[r.Intn(len(words))], marker)
	b.field(root, "Date", m.Date)
	b.field(root, "From", m.From)
	if r.P(4, 5) {
		b.field(root, "To", m.To)
	}
	if r.P(1, 3) {
		// folded header
		b.field(root, "X-Folded", "first line\r\n\tsecond line "+words[r.Intn(len(words))]+"\r\n  third")
	}
	b.field(root, "Subject", m.Subject)
	b.field(root, "X-Sim-Marker", fmt.Sprintf("<%d>", marker))
	if r.P(1, 2) {
		b.field(root, "Message-Id", fmt.Sprintf("<sim-%d-%d@example.com>", marker, r.Intn(1000)))
	}
	b.entityBody(root, nil, o.MaxDepth, o, true)
	m.Bytes = b.buf.Bytes()
	m.Size = len(m.Bytes)
	return m
}

// entityBody writes Content-* headers, the blank line and the body of entity p, whose
// other header fields have already been written.
func (b *builder) entityBody(p *Part, path []int, depth int, o Opts, top bool) {
	p.Path = append([]int(nil), path...)
	kind := 0 // leaf
	if depth > 0 {
		kind = b.r.Weighted([]int{3, 4, 2}) // leaf, multipart, message/rfc822
		if top && kind == 2 {
			kind = 1
		}
	}
	switch kind {
	case 0:
		sub := []string{"plain", "html", "x-sim"}[b.r.Intn(3)]
		p.Type = "text/" + sub
		if !top || b.r.P(2, 3) {
			b.field(p, "Content-Type", p.Type+"; charset=utf-8")
		} else {
			p.Type = "text/plain"
		}
		bad := o.BadEncoding && (top || b.r.P(1, 2))
		if bad {
			b.field(p, "Content-Transfer-Encoding", "base64")
		} else if b.r.P(1, 4) {
			b.field(p, "Content-Transfer-Encoding", "8bit")
		}
		b.buf.WriteString("\r\n")
		p.HeaderEnd = b.buf.Len()
		if bad {
			b.buf.WriteString([]string{"QUJD*REVG\r\n", "QUJDR\r\n", "not base64 at all!\r\n"}[b.r.Intn(3)])
		}
		n := b.r.Intn(6)
		if o.BigBody > 0 && b.r.P(1, 2) {
			n = o.BigBody / 40
		}
		if o.EmbedIDHeader {
			b.buf.WriteString(IDHeader + ": 11111111-2222-3333-4444-555555555555\r\n")
		}
		for i := 0; i < n; i++ {
			line := fmt.Sprintf("line %d %s %s", i, words[b.r.Intn(len(words))], words[b.r.Intn(len(words))])
			if b.r.P(1, 8) {
				line += " caf\xc3\xa9 \xe2\x82\xac"
			}
			b.buf.WriteString(line + "\r\n")
		}
		if b.r.P(1, 5) {
			b.buf.WriteString("no trailing newline")
		}
		p.End = b.buf.Len()
	case 1:
		boundary := fmt.Sprintf("b%d-%s", b.r.Intn(10000), words[b.r.Intn(len(words))])
		sub := []string{"mixed", "alternative", "related"}[b.r.Intn(3)]
		p.Type = "multipart/" + sub
		b.field(p, "Content-Type", fmt.Sprintf("%s; boundary=\"%s\"", p.Type, boundary))
		b.buf.WriteString("\r\n")
		p.HeaderEnd = b.buf.Len()
		if b.r.P(1, 2) {
			b.buf.WriteString("preamble text\r\n")
		}
		n := 1 + b.r.Intn(3)
		for i := 0; i < n; i++ {
			b.buf.WriteString("--" + boundary + "\r\n")
			c := &Part{Start: b.buf.Len()}
			if b.r.P(1, 3) {
				b.field(c, "Content-Description", words[b.r.Intn(len(words))])
			}
			b.entityBody(c, append(append([]int(nil), path...), i+1), depth-1, o, false)
			p.Children = append(p.Children, c)
			b.buf.WriteString("\r\n")
		}
		b.buf.WriteString("--" + boundary + "--\r\n")
		if b.r.P(1, 3) {
			b.buf.WriteString("epilogue\r\n")
		}
		p.End = b.buf.Len()
	case 2:
		p.Type = "message/rfc822"
		b.field(p, "Content-Type", "message/rfc822")
		b.buf.WriteString("\r\n")
		p.HeaderEnd = b.buf.Len()
		e := &Part{Start: b.buf.Len()}
		b.field(e, "Date", "1 Jan 2020 00:00:00 +0000")
		b.field(e, "From", "inner@example.com")
		b.field(e, "Subject", "inner "+words[b.r.Intn(len(words))])
		b.entityBody(e, path, depth-1, o, false)
		p.Embedded = e
		p.End = b.buf.Len()
	}
}

// Describe is a one-line summary for logs.
func (m *Message) Describe() string {
	return fmt.Sprintf("msg<%d> %dB %s", m.Marker, len(m.Bytes), describePart(m.Root))
}

func describePart(p *Part) string {
	if p == nil {
		return ""
	}
	s := p.Type
	if len(p.Children) > 0 {
		cs := make([]string, len(p.Children))
		for i, c := range p.Children {
			cs[i] = describePart(c)
		}
		s += "[" + strings.Join(cs, ",") + "]"
	}
	if p.Embedded != nil {
		s += "{" + describePart(p.Embedded) + "}"
	}
	return s
}
