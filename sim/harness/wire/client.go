package wire

import (
	"fmt"
	"sort"
	"strconv"
	"strings"

	"verifharness/simnet"
)

// Cmd is a command split at literal boundaries: Parts[0] ends with "{n}\r\n" when a
// literal follows, and so on; the last part ends with CRLF.
type Cmd struct {
	Parts [][]byte
	Text  string // for logs (no literals)
}

// Simple builds a one-part command from text without the tag and CRLF.
func Simple(text string) Cmd {
	return Cmd{Parts: [][]byte{[]byte(text + "\r\n")}, Text: text}
}

// WithLiteral builds "<before>{n}\r\n" + lit + "<after>\r\n".
func WithLiteral(before string, lit []byte, after string) Cmd {
	p0 := []byte(fmt.Sprintf("%s{%d}\r\n", before, len(lit)))
	p1 := append(append([]byte(nil), lit...), []byte(after+"\r\n")...)
	return Cmd{Parts: [][]byte{p0, p1}, Text: fmt.Sprintf("%s{%d}...%s", before, len(lit), after)}
}

// Result is everything the server sent in answer to one command.
type Result struct {
	Tag      string
	Lines    []*Line // untagged lines in arrival order
	Status   string  // OK NO BAD, "" if none arrived
	Code     string
	Text     string
	Bye      bool
	Closed   bool // server closed the connection
	ConCount int  // continuation requests seen
	Err      error
}

func (r *Result) OK() bool { return r.Status == "OK" }

// Client is one simulated IMAP client.
type Client struct {
	Name    string
	Conn    *simnet.Conn
	Quiesce func() // runs the system until nothing can move
	Trace   func(format string, args ...any)

	p    Parser
	tagN int
	// Unsolicited lines that arrived outside a command (greeting, IDLE pushes).
	Dead bool
}

func NewClient(name string, conn *simnet.Conn, quiesce func(), trace func(string, ...any)) *Client {
	return &Client{Name: name, Conn: conn, Quiesce: quiesce, Trace: trace}
}

// Drain parses whatever the server has sent so far.
func (c *Client) Drain() ([]*Line, error) {
	c.p.Feed(c.Conn.ClientTake())
	var out []*Line
	for {
		l, err := c.p.Next()
		if err != nil {
			return out, err
		}
		if l == nil {
			return out, nil
		}
		out = append(out, l)
	}
}

func (c *Client) NextTag() string {
	c.tagN++
	return fmt.Sprintf("%s%d", c.Name, c.tagN)
}

// Do sends a command and collects its answer.  The literal handshake is honoured: a
// part is only sent after the server asked for it with a continuation request.
func (c *Client) Do(cmd Cmd) *Result {
	tag := c.NextTag()
	return c.DoTagged(tag, cmd)
}

func (c *Client) DoTagged(tag string, cmd Cmd) *Result {
	res := &Result{Tag: tag}
	if c.Trace != nil {
		c.Trace("C %s: %s %s", c.Name, tag, cmd.Text)
	}
	part := 0
	first := append([]byte(tag+" "), cmd.Parts[0]...)
	c.Conn.ClientSend(first)
	for {
		c.Quiesce()
		lines, err := c.Drain()
		progressed := false
		for _, l := range lines {
			if c.Trace != nil {
				c.Trace("S %s: %s", c.Name, Abridge(l.Raw))
			}
			switch {
			case l.Tag == "+":
				res.ConCount++
				if part+1 < len(cmd.Parts) {
					part++
					c.Conn.ClientSend(cmd.Parts[part])
					progressed = true
				}
			case l.Tag == tag:
				res.Status, res.Code, res.Text = l.Status, l.Code, l.Text
			case l.Tag == "*":
				if l.Status == "BYE" {
					res.Bye = true
				}
				if l.Status == "BAD" && res.Status == "" && part+1 < len(cmd.Parts) {
					// untagged BAD while a literal was announced: the command was rejected
					res.Status, res.Code, res.Text = "BAD", l.Code, l.Text
				}
				res.Lines = append(res.Lines, l)
			default:
				res.Lines = append(res.Lines, l)
				if res.Err == nil {
					res.Err = fmt.Errorf("completion with foreign tag %q (expected %q)", l.Tag, tag)
				}
			}
		}
		if err != nil {
			res.Err = err
			return res
		}
		if c.Conn.ServerClosed() {
			res.Closed = true
			c.Dead = true
			return res
		}
		if res.Status != "" {
			return res
		}
		if !progressed {
			// quiescent, nothing more to send, no completion
			if res.Err == nil {
				res.Err = fmt.Errorf("no completion for %s %s at quiescence", tag, cmd.Text)
			}
			return res
		}
	}
}

// Abridge shortens a raw line for logs.
func Abridge(raw []byte) string {
	s := strings.TrimRight(string(raw), "\r\n")
	if len(s) > 200 {
		return fmt.Sprintf("%s...(%d bytes)", s[:200], len(s))
	}
	return s
}

// ---- helpers to read typed data out of lines ----

// FetchData is the decoded content of one "* n FETCH (...)" line.
type FetchData struct {
	Seq      uint32
	UID      uint32
	HasUID   bool
	Flags    []string // sorted, lower-cased, without \recent
	Recent   bool
	HasFlags bool
	Items    map[string]Node // upper-cased item name -> value
	Order    []string
	Dups     int
}

func ParseFetch(l *Line) (*FetchData, error) {
	n, kw, ok := l.Num()
	if !ok || kw != "FETCH" {
		return nil, fmt.Errorf("not a FETCH line")
	}
	if len(l.Nodes) != 3 || l.Nodes[2].Kind != List {
		return nil, fmt.Errorf("FETCH line without item list: %s", Abridge(l.Raw))
	}
	fd := &FetchData{Seq: n, Items: map[string]Node{}}
	items := l.Nodes[2].List
	if len(items)%2 != 0 {
		return nil, fmt.Errorf("odd number of FETCH item tokens: %s", Abridge(l.Raw))
	}
	for i := 0; i+1 < len(items); i += 2 {
		if items[i].Kind != Atom {
			return nil, fmt.Errorf("FETCH item name is not an atom: %s", Abridge(l.Raw))
		}
		name := strings.ToUpper(items[i].Str)
		if _, dup := fd.Items[name]; dup {
			// gluon repeats FLAGS inside one FETCH response when the fetch itself set
			// \Seen; RFC 3501 does not forbid it.  The last value wins for FLAGS, any
			// other repeated item must repeat the same value.
			fd.Dups++
			if name != "FLAGS" && fd.Items[name].String() != items[i+1].String() {
				return nil, fmt.Errorf("FETCH item %s given twice with different values", name)
			}
		} else {
			fd.Order = append(fd.Order, name)
		}
		fd.Items[name] = items[i+1]
		switch name {
		case "UID":
			v, err := strconv.ParseUint(items[i+1].Str, 10, 32)
			if err != nil || items[i+1].Kind != Atom {
				return nil, fmt.Errorf("bad UID in FETCH")
			}
			fd.UID, fd.HasUID = uint32(v), true
		case "FLAGS":
			if items[i+1].Kind != List {
				return nil, fmt.Errorf("FLAGS is not a list")
			}
			fd.HasFlags = true
			fd.Flags, fd.Recent = NormFlags(items[i+1].List)
		}
	}
	return fd, nil
}

// NormFlags lower-cases, sorts and de-duplicates flags, splitting off \Recent.
func NormFlags(nodes []Node) ([]string, bool) {
	seen := map[string]bool{}
	recent := false
	var out []string
	for _, n := range nodes {
		f := strings.ToLower(n.Str)
		if f == `\recent` {
			recent = true
			continue
		}
		if !seen[f] {
			seen[f] = true
			out = append(out, f)
		}
	}
	sort.Strings(out)
	return out, recent
}

// SearchIDs returns the numbers of all "* SEARCH" lines.
func SearchIDs(lines []*Line) ([]uint32, int, error) {
	var out []uint32
	count := 0
	for _, l := range lines {
		if l.Keyword() != "SEARCH" {
			continue
		}
		count++
		for _, n := range l.Nodes[1:] {
			v, err := strconv.ParseUint(n.Str, 10, 32)
			if err != nil {
				return nil, count, fmt.Errorf("bad number in SEARCH: %q", n.Str)
			}
			out = append(out, uint32(v))
		}
	}
	return out, count, nil
}
