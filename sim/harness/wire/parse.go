// Package wire is the simulated IMAP client: an independent tokenizer for the server's
// byte stream, the command/continuation exchange, and the mirror a real client keeps.
package wire

import (
	"bytes"
	"fmt"
	"strconv"
	"strings"
)

type Kind int

const (
	Atom Kind = iota
	Quoted
	Literal
	List
	Nil
)

// Node is one token of a response line.
type Node struct {
	Kind Kind
	Str  string
	List []Node
}

func (n Node) String() string {
	switch n.Kind {
	case List:
		parts := make([]string, len(n.List))
		for i, c := range n.List {
			parts[i] = c.String()
		}
		return "(" + strings.Join(parts, " ") + ")"
	case Quoted:
		return strconv.Quote(n.Str)
	case Literal:
		return fmt.Sprintf("{%d}", len(n.Str))
	}
	return n.Str
}

// IsStr reports whether the node carries string data (atom, quoted or literal).
func (n Node) IsStr() bool { return n.Kind == Atom || n.Kind == Quoted || n.Kind == Literal }

// Line is one complete server response (including its literals).
type Line struct {
	Raw    []byte
	Tag    string // "*", "+" or the command tag
	Status string // OK NO BAD BYE PREAUTH for status responses, else ""
	Code   string // text inside [...] of a status response
	Text   string // human text of a status response / continuation
	Nodes  []Node // tokens after the tag for data responses
}

// Num returns (n, keyword) for "* n KEYWORD ..." lines.
func (l *Line) Num() (uint32, string, bool) {
	if l.Tag != "*" || l.Status != "" || len(l.Nodes) < 2 || l.Nodes[0].Kind != Atom || l.Nodes[1].Kind != Atom {
		return 0, "", false
	}
	v, err := strconv.ParseUint(l.Nodes[0].Str, 10, 32)
	if err != nil {
		return 0, "", false
	}
	return uint32(v), strings.ToUpper(l.Nodes[1].Str), true
}

// Keyword returns the upper-cased first atom of a data response ("" otherwise).
func (l *Line) Keyword() string {
	if l.Tag != "*" || l.Status != "" || len(l.Nodes) == 0 || l.Nodes[0].Kind != Atom {
		return ""
	}
	return strings.ToUpper(l.Nodes[0].Str)
}

// Parser splits the server byte stream into Lines.
type Parser struct {
	buf []byte
}

func (p *Parser) Feed(b []byte) { p.buf = append(p.buf, b...) }

// Pending returns the unparsed bytes.
func (p *Parser) Pending() []byte { return p.buf }

type ParseError struct {
	Msg string
	At  []byte
}

func (e *ParseError) Error() string {
	at := e.At
	if len(at) > 120 {
		at = at[:120]
	}
	return fmt.Sprintf("wire: %s at %q", e.Msg, at)
}

// Next returns the next complete line, or (nil, nil) if more bytes are needed.
func (p *Parser) Next() (*Line, error) {
	// find the end of the logical line: CRLF not preceded by a literal header.
	pos := 0
	for {
		i := bytes.Index(p.buf[pos:], []byte("\r\n"))
		if i < 0 {
			return nil, nil
		}
		end := pos + i // index of CR
		// literal header at the end of this physical line?  Status responses do not
		// carry literals, but their text may end in "}" only by accident; gluon never
		// sends literals in status lines, and its data lines never end in "{n}" unless
		// a literal follows.
		if n, ok := literalSuffix(p.buf[pos:end]); ok && !isStatusLine(p.buf[:end]) {
			need := end + 2 + n
			if len(p.buf) < need {
				return nil, nil
			}
			pos = need
			continue
		}
		raw := p.buf[:end+2]
		line, err := parseLine(raw)
		if err != nil {
			return nil, err
		}
		p.buf = p.buf[end+2:]
		return line, nil
	}
}

func literalSuffix(b []byte) (int, bool) {
	if len(b) < 3 || b[len(b)-1] != '}' {
		return 0, false
	}
	j := bytes.LastIndexByte(b, '{')
	if j < 0 {
		return 0, false
	}
	d := b[j+1 : len(b)-1]
	if len(d) == 0 || len(d) > 10 {
		return 0, false
	}
	for _, c := range d {
		if c < '0' || c > '9' {
			return 0, false
		}
	}
	n, _ := strconv.Atoi(string(d))
	return n, true
}

func isStatusLine(b []byte) bool {
	f := bytes.SplitN(b, []byte(" "), 3)
	if len(f) < 2 {
		return false
	}
	if bytes.Equal(f[0], []byte("+")) {
		return true
	}
	switch strings.ToUpper(string(f[1])) {
	case "OK", "NO", "BAD", "BYE", "PREAUTH":
		return true
	}
	return false
}

func parseLine(raw []byte) (*Line, error) {
	l := &Line{Raw: append([]byte(nil), raw...)}
	body := raw[:len(raw)-2]
	sp := bytes.IndexByte(body, ' ')
	if sp < 0 {
		if string(body) == "+" {
			l.Tag = "+"
			return l, nil
		}
		return nil, &ParseError{"response without space after tag", raw}
	}
	l.Tag = string(body[:sp])
	if l.Tag == "" {
		return nil, &ParseError{"empty tag", raw}
	}
	rest := body[sp+1:]
	if l.Tag == "+" {
		l.Text = string(rest)
		return l, nil
	}
	// status response?
	w := rest
	if i := bytes.IndexByte(rest, ' '); i >= 0 {
		w = rest[:i]
	}
	switch strings.ToUpper(string(w)) {
	case "OK", "NO", "BAD", "BYE", "PREAUTH":
		l.Status = strings.ToUpper(string(w))
		t := bytes.TrimPrefix(rest[len(w):], []byte(" "))
		if len(t) > 0 && t[0] == '[' {
			j := bytes.IndexByte(t, ']')
			if j < 0 {
				return nil, &ParseError{"unterminated response code", raw}
			}
			l.Code = string(t[1:j])
			t = bytes.TrimPrefix(t[j+1:], []byte(" "))
		}
		l.Text = string(t)
		return l, nil
	}
	if l.Tag != "*" {
		return nil, &ParseError{"tagged response that is not a status response", raw}
	}
	s := &scan{b: rest}
	for !s.eof() {
		n, err := s.node()
		if err != nil {
			return nil, &ParseError{err.Error(), raw}
		}
		l.Nodes = append(l.Nodes, n)
		if !s.eof() {
			if s.b[s.i] != ' ' {
				return nil, &ParseError{fmt.Sprintf("expected space at offset %d", s.i), raw}
			}
			s.i++
			if s.eof() {
				return nil, &ParseError{"trailing space", raw}
			}
		}
	}
	return l, nil
}

type scan struct {
	b []byte
	i int
}

func (s *scan) eof() bool { return s.i >= len(s.b) }

func (s *scan) node() (Node, error) {
	if s.eof() {
		return Node{}, fmt.Errorf("unexpected end")
	}
	switch c := s.b[s.i]; {
	case c == '(':
		s.i++
		n := Node{Kind: List}
		for {
			if s.eof() {
				return n, fmt.Errorf("unterminated list")
			}
			if s.b[s.i] == ')' {
				s.i++
				return n, nil
			}
			if len(n.List) > 0 {
				if s.b[s.i] != ' ' {
					return n, fmt.Errorf("expected space in list at offset %d", s.i)
				}
				s.i++
			}
			c, err := s.node()
			if err != nil {
				return n, err
			}
			n.List = append(n.List, c)
		}
	case c == '"':
		s.i++
		var sb []byte
		for {
			if s.eof() {
				return Node{}, fmt.Errorf("unterminated quoted string")
			}
			ch := s.b[s.i]
			if ch == '"' {
				s.i++
				return Node{Kind: Quoted, Str: string(sb)}, nil
			}
			if ch == '\\' {
				s.i++
				if s.eof() {
					return Node{}, fmt.Errorf("dangling escape")
				}
				ch = s.b[s.i]
			}
			if ch == '\r' || ch == '\n' {
				return Node{}, fmt.Errorf("line break in quoted string")
			}
			sb = append(sb, ch)
			s.i++
		}
	case c == '{':
		j := bytes.IndexByte(s.b[s.i:], '}')
		if j < 0 {
			return Node{}, fmt.Errorf("unterminated literal header")
		}
		n, err := strconv.Atoi(string(s.b[s.i+1 : s.i+j]))
		if err != nil || n < 0 {
			return Node{}, fmt.Errorf("bad literal length")
		}
		st := s.i + j + 1
		if st+2+n > len(s.b) || s.b[st] != '\r' || s.b[st+1] != '\n' {
			return Node{}, fmt.Errorf("literal of %d bytes overruns the response", n)
		}
		s.i = st + 2 + n
		return Node{Kind: Literal, Str: string(s.b[st+2 : st+2+n])}, nil
	case c == ' ' || c == ')':
		return Node{}, fmt.Errorf("unexpected %q at offset %d", c, s.i)
	default:
		st := s.i
		depth := 0
		for !s.eof() {
			ch := s.b[s.i]
			if ch == '[' {
				depth++
			} else if ch == ']' && depth > 0 {
				depth--
			} else if depth == 0 && (ch == ' ' || ch == ')' || ch == '(') {
				break
			} else if ch == '\r' || ch == '\n' {
				return Node{}, fmt.Errorf("line break in atom")
			}
			s.i++
		}
		if depth != 0 {
			return Node{}, fmt.Errorf("unbalanced [ in atom")
		}
		str := string(s.b[st:s.i])
		if str == "NIL" {
			return Node{Kind: Nil, Str: str}, nil
		}
		return Node{Kind: Atom, Str: str}, nil
	}
}
