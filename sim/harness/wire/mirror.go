package wire

import (
	"fmt"
	"strings"
)

// Entry is what the client knows about one sequence number.
type Entry struct {
	UID        uint32 // 0 = not learned yet
	Flags      []string
	FlagsKnown bool
	Marker     string // harness-level identity, learned by marker fetches ("" unknown)
}

// Mirror is the mailbox a client reconstructs purely from untagged responses.
type Mirror struct {
	Selected bool
	Mailbox  string
	ReadOnly bool
	Msgs     []Entry
	// counters for evidence
	Exists, Expunges, Fetches int
}

func (m *Mirror) Reset(mailbox string, readOnly bool) {
	*m = Mirror{Selected: true, Mailbox: mailbox, ReadOnly: readOnly}
}

func (m *Mirror) Unselect() { *m = Mirror{} }

func (m *Mirror) Count() int { return len(m.Msgs) }

// Apply folds one untagged line into the mirror and checks the structural invariants a
// client relies on.  A non-nil error is a protocol violation by the server.
func (m *Mirror) Apply(l *Line) error {
	n, kw, ok := l.Num()
	if !ok {
		return nil
	}
	if !m.Selected {
		if kw == "EXISTS" || kw == "EXPUNGE" || kw == "FETCH" || kw == "RECENT" {
			return fmt.Errorf("%s response without a selected mailbox: %s", kw, Abridge(l.Raw))
		}
		return nil
	}
	switch kw {
	case "EXISTS":
		m.Exists++
		if int(n) < len(m.Msgs) {
			return fmt.Errorf("EXISTS %d lowers the message count %d without EXPUNGE", n, len(m.Msgs))
		}
		for len(m.Msgs) < int(n) {
			m.Msgs = append(m.Msgs, Entry{})
		}
	case "EXPUNGE":
		m.Expunges++
		if n < 1 || int(n) > len(m.Msgs) {
			return fmt.Errorf("EXPUNGE %d outside 1..%d", n, len(m.Msgs))
		}
		m.Msgs = append(m.Msgs[:n-1], m.Msgs[n:]...)
	case "FETCH":
		m.Fetches++
		fd, err := ParseFetch(l)
		if err != nil {
			return err
		}
		if n < 1 || int(n) > len(m.Msgs) {
			return fmt.Errorf("FETCH %d outside 1..%d", n, len(m.Msgs))
		}
		e := &m.Msgs[n-1]
		if fd.HasUID {
			if fd.UID == 0 {
				return fmt.Errorf("FETCH %d reports UID 0", n)
			}
			if e.UID != 0 && e.UID != fd.UID {
				why := ""
				if fd.UID < e.UID {
					why = " (a message with a lower UID was inserted before announced messages)"
				}
				return fmt.Errorf("sequence number %d changed UID from %d to %d without EXPUNGE%s", n, e.UID, fd.UID, why)
			}
			e.UID = fd.UID
			if err := m.checkAscending(int(n) - 1); err != nil {
				return err
			}
		}
		if fd.HasFlags {
			e.Flags, e.FlagsKnown = fd.Flags, true
		}
	}
	return nil
}

func (m *Mirror) checkAscending(i int) error {
	u := m.Msgs[i].UID
	for j := i - 1; j >= 0; j-- {
		if p := m.Msgs[j].UID; p != 0 {
			if p == u {
				return fmt.Errorf("UID %d now answered for sequence number %d was announced for sequence number %d (a message with a lower UID was inserted before announced messages)", u, i+1, j+1)
			}
			if p > u {
				return fmt.Errorf("UIDs not strictly ascending: seq %d has UID %d, seq %d has UID %d", j+1, p, i+1, u)
			}
			break
		}
	}
	for j := i + 1; j < len(m.Msgs); j++ {
		if p := m.Msgs[j].UID; p != 0 {
			if p == u {
				return fmt.Errorf("UID %d now answered for sequence number %d was announced for sequence number %d (a message with a lower UID was inserted before announced messages)", u, i+1, j+1)
			}
			if p < u {
				return fmt.Errorf("UIDs not strictly ascending: seq %d has UID %d, seq %d has UID %d", i+1, u, j+1, p)
			}
			break
		}
	}
	return nil
}

// SetFlagsSilently records the effect of the client's own .SILENT store.
func (m *Mirror) SetFlagsSilently(seq int, f func(old []string) []string) {
	if seq < 1 || seq > len(m.Msgs) {
		return
	}
	e := &m.Msgs[seq-1]
	if e.FlagsKnown {
		e.Flags = f(e.Flags)
	}
}

// ForgetFlags marks the flags of a message as not known to the client.
func (m *Mirror) ForgetFlags(seq int) {
	if seq >= 1 && seq <= len(m.Msgs) {
		m.Msgs[seq-1].FlagsKnown = false
		m.Msgs[seq-1].Flags = nil
	}
}

func (m *Mirror) String() string {
	var sb strings.Builder
	fmt.Fprintf(&sb, "%s[", m.Mailbox)
	for i, e := range m.Msgs {
		if i > 0 {
			sb.WriteByte(' ')
		}
		fmt.Fprintf(&sb, "%d:%d", i+1, e.UID)
		if e.FlagsKnown {
			fmt.Fprintf(&sb, "(%s)", strings.Join(e.Flags, ","))
		}
	}
	sb.WriteByte(']')
	return sb.String()
}

func FlagsEqual(a, b []string) bool {
	if len(a) != len(b) {
		return false
	}
	for i := range a {
		if a[i] != b[i] {
			return false
		}
	}
	return true
}
