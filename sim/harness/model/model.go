// Package model is R: a plain reference model of one user's mail store, written from
// RFC 3501 / 4315 / 6851 and the semantics named in the property statements (shared
// flags per message, \Deleted per mailbox membership, flags case-insensitive, COPY of
// an already-present message re-adds it under a new UID).
package model

import (
	"fmt"
	"sort"
	"strings"
)

type Obj struct {
	Marker int
	Bytes  []byte
	Flags  map[string]bool // lower-cased, never \deleted or \recent
	Remote string          // remote message ID when known
}

type Member struct {
	UID     uint32
	Obj     *Obj
	Deleted bool
}

type Mailbox struct {
	Name        string
	Remote      string
	UIDValidity uint32 // 0 until learned
	UIDNext     uint32
	Members     []Member
	Subscribed  bool
}

type User struct {
	Boxes map[string]*Mailbox
}

func NewUser() *User { return &User{Boxes: map[string]*Mailbox{}} }

func (u *User) Create(name, remote string) *Mailbox {
	b := &Mailbox{Name: name, Remote: remote, UIDNext: 1, Subscribed: true}
	u.Boxes[name] = b
	return b
}

func (u *User) Names() []string {
	out := make([]string, 0, len(u.Boxes))
	for n := range u.Boxes {
		out = append(out, n)
	}
	sort.Strings(out)
	return out
}

func (u *User) ByRemote(remote string) *Mailbox {
	for _, b := range u.Boxes {
		if b.Remote == remote {
			return b
		}
	}
	return nil
}

func NormFlag(f string) string { return strings.ToLower(f) }

// NewObj makes a message object with the given (any-case) flags.
func NewObj(marker int, bytes []byte, flags []string) (*Obj, bool) {
	o := &Obj{Marker: marker, Bytes: bytes, Flags: map[string]bool{}}
	deleted := false
	for _, f := range flags {
		lf := NormFlag(f)
		switch lf {
		case `\recent`:
		case `\deleted`:
			deleted = true
		default:
			o.Flags[lf] = true
		}
	}
	return o, deleted
}

func (b *Mailbox) Index(o *Obj) int {
	for i, m := range b.Members {
		if m.Obj == o {
			return i
		}
	}
	return -1
}

func (b *Mailbox) ByUID(uid uint32) int {
	for i, m := range b.Members {
		if m.UID == uid {
			return i
		}
	}
	return -1
}

// Add appends o with the next UID; if it is already a member the old membership is
// removed first.  Returns the UID.
func (b *Mailbox) Add(o *Obj, deleted bool) uint32 {
	if i := b.Index(o); i >= 0 {
		b.Members = append(b.Members[:i], b.Members[i+1:]...)
	}
	uid := b.UIDNext
	b.UIDNext++
	b.Members = append(b.Members, Member{UID: uid, Obj: o, Deleted: deleted})
	return uid
}

func (b *Mailbox) Remove(o *Obj) bool {
	if i := b.Index(o); i >= 0 {
		b.Members = append(b.Members[:i], b.Members[i+1:]...)
		return true
	}
	return false
}

// Expunge removes the \Deleted members (optionally only those in uids) and returns them.
func (b *Mailbox) Expunge(only map[uint32]bool) []Member {
	var kept, gone []Member
	for _, m := range b.Members {
		if m.Deleted && (only == nil || only[m.UID]) {
			gone = append(gone, m)
		} else {
			kept = append(kept, m)
		}
	}
	b.Members = kept
	return gone
}

// Store applies a STORE to member i.  op: +1 add, -1 remove, 0 set.
func (b *Mailbox) Store(i int, op int, flags []string) {
	m := &b.Members[i]
	set := map[string]bool{}
	for _, f := range flags {
		set[NormFlag(f)] = true
	}
	switch op {
	case 1:
		for f := range set {
			if f == `\deleted` {
				m.Deleted = true
			} else {
				m.Obj.Flags[f] = true
			}
		}
	case -1:
		for f := range set {
			if f == `\deleted` {
				m.Deleted = false
			} else {
				delete(m.Obj.Flags, f)
			}
		}
	case 0:
		m.Deleted = set[`\deleted`]
		m.Obj.Flags = map[string]bool{}
		for f := range set {
			if f != `\deleted` {
				m.Obj.Flags[f] = true
			}
		}
	}
}

// FlagList returns the member's visible flags (sorted, lower-case, with \deleted).
func (m Member) FlagList() []string {
	var out []string
	for f := range m.Obj.Flags {
		out = append(out, f)
	}
	if m.Deleted {
		out = append(out, `\deleted`)
	}
	sort.Strings(out)
	return out
}

// Row is one line of an authoritative read.
type Row struct {
	UID    uint32
	Flags  []string
	Marker int
	Bytes  []byte // nil when not fetched
}

func (b *Mailbox) Rows() []Row {
	out := make([]Row, len(b.Members))
	for i, m := range b.Members {
		out[i] = Row{UID: m.UID, Flags: m.FlagList(), Marker: m.Obj.Marker, Bytes: m.Obj.Bytes}
	}
	return out
}

// Diff compares an authoritative read with the model; "" when equal.
func Diff(name string, want, got []Row, checkUID bool) string {
	if len(want) != len(got) {
		return fmt.Sprintf("mailbox %q: model has %d messages %s, server has %d %s", name, len(want), brief(want), len(got), brief(got))
	}
	for i := range want {
		w, g := want[i], got[i]
		if w.Marker != g.Marker {
			return fmt.Sprintf("mailbox %q position %d: model has message <%d>, server has <%d>; model %s server %s", name, i+1, w.Marker, g.Marker, brief(want), brief(got))
		}
		if checkUID && w.UID != g.UID {
			return fmt.Sprintf("mailbox %q position %d message <%d>: model UID %d, server UID %d", name, i+1, w.Marker, w.UID, g.UID)
		}
		if strings.Join(w.Flags, " ") != strings.Join(g.Flags, " ") {
			return fmt.Sprintf("mailbox %q position %d message <%d>: model flags (%s), server flags (%s)", name, i+1, w.Marker, strings.Join(w.Flags, " "), strings.Join(g.Flags, " "))
		}
		if g.Bytes != nil && w.Bytes != nil && string(w.Bytes) != string(g.Bytes) {
			return fmt.Sprintf("mailbox %q position %d message <%d>: bytes differ (model %d bytes, server %d bytes)", name, i+1, w.Marker, len(w.Bytes), len(g.Bytes))
		}
	}
	return ""
}

func brief(rows []Row) string {
	parts := make([]string, 0, len(rows))
	for i, r := range rows {
		if i >= 12 {
			parts = append(parts, "...")
			break
		}
		parts = append(parts, fmt.Sprintf("%d:<%d>", r.UID, r.Marker))
	}
	return "[" + strings.Join(parts, " ") + "]"
}

// Clone deep-copies the user (objects are shared by identity within the copy).
func (u *User) Clone() *User {
	c := NewUser()
	objs := map[*Obj]*Obj{}
	for name, b := range u.Boxes {
		nb := &Mailbox{Name: b.Name, Remote: b.Remote, UIDValidity: b.UIDValidity, UIDNext: b.UIDNext, Subscribed: b.Subscribed}
		for _, m := range b.Members {
			o, ok := objs[m.Obj]
			if !ok {
				o = &Obj{Marker: m.Obj.Marker, Bytes: m.Obj.Bytes, Remote: m.Obj.Remote, Flags: map[string]bool{}}
				for f := range m.Obj.Flags {
					o.Flags[f] = true
				}
				objs[m.Obj] = o
			}
			nb.Members = append(nb.Members, Member{UID: m.UID, Obj: o, Deleted: m.Deleted})
		}
		c.Boxes[name] = nb
	}
	return c
}
