// Package core holds what every property check shares: the seeded generator stream,
// scenarios (the replayable description of one simulated run), results, the
// action-level shrinker and the evidence record a worker emits per run.
package core

import (
	"encoding/json"
	"fmt"
	"hash/fnv"
	"os"
	"regexp"
	"sort"
	"strings"
)

// Rand is the single source of choices (splitmix64).  One seed = one run.
type Rand struct{ s uint64 }

func NewRand(seed uint64) *Rand { return &Rand{s: seed} }

func Mix(a, b uint64) uint64 {
	x := a*0x9E3779B97F4A7C15 + b + 0x632BE59BD9B4E019
	x ^= x >> 30
	x *= 0xBF58476D1CE4E5B9
	x ^= x >> 27
	x *= 0x94D049BB133111EB
	x ^= x >> 31
	return x
}

func (r *Rand) U64() uint64 {
	r.s += 0x9E3779B97F4A7C15
	z := r.s
	z = (z ^ (z >> 30)) * 0xBF58476D1CE4E5B9
	z = (z ^ (z >> 27)) * 0x94D049BB133111EB
	return z ^ (z >> 31)
}

func (r *Rand) Intn(n int) int {
	if n <= 1 {
		return 0
	}
	return int(r.U64() % uint64(n))
}

// Range returns a value in [lo, hi].
func (r *Rand) Range(lo, hi int) int { return lo + r.Intn(hi-lo+1) }

// P returns true with probability num/den.
func (r *Rand) P(num, den int) bool { return r.Intn(den) < num }

// Weighted picks an index with the given weights.
func (r *Rand) Weighted(w []int) int {
	t := 0
	for _, x := range w {
		t += x
	}
	k := r.Intn(t)
	for i, x := range w {
		if k < x {
			return i
		}
		k -= x
	}
	return len(w) - 1
}

// Action is one abstract step of a scenario.  Integer parameters are interpreted
// modulo the state at execution time, so any sub-sequence of a scenario is again a
// valid scenario (this is what makes action-level shrinking possible).
type Action struct {
	K string `json:"k"`
	S int    `json:"s,omitempty"`
	A []int  `json:"a,omitempty"`
	X string `json:"x,omitempty"`
}

func (a Action) String() string {
	s := a.K
	if a.S != 0 || strings.HasPrefix(a.K, "c.") {
		s += fmt.Sprintf("@%d", a.S)
	}
	if len(a.A) > 0 {
		s += fmt.Sprint(a.A)
	}
	if a.X != "" {
		s += "{" + a.X + "}"
	}
	return s
}

// Arg returns A[i] or 0.
func (a Action) Arg(i int) int {
	if i < len(a.A) {
		return a.A[i]
	}
	return 0
}

// Scenario is the replay file: everything a run depends on besides the code.
type Scenario struct {
	Property string         `json:"property"`
	Seed     uint64         `json:"seed"`
	Tier     string         `json:"tier,omitempty"`
	Cfg      map[string]int `json:"cfg,omitempty"`
	Actions  []Action       `json:"actions"`
	Sched    []int          `json:"sched,omitempty"` // mode S: recorded scheduler choices
	// Filled in when written as a replay file:
	Violation *Violation `json:"violation,omitempty"`
	Log       []string   `json:"log,omitempty"`
}

func (s *Scenario) C(key string) int { return s.Cfg[key] }

func (s *Scenario) Clone() *Scenario {
	c := *s
	c.Cfg = map[string]int{}
	for k, v := range s.Cfg {
		c.Cfg[k] = v
	}
	c.Actions = make([]Action, len(s.Actions))
	for i, a := range s.Actions {
		c.Actions[i] = a
		c.Actions[i].A = append([]int(nil), a.A...)
	}
	c.Sched = append([]int(nil), s.Sched...)
	c.Violation, c.Log = nil, nil
	return &c
}

// Violation is a property violation found in a run.
type Violation struct {
	Property string `json:"property"`
	Oracle   string `json:"oracle"`
	Detail   string `json:"detail"`
	// Sig identifies the violation class for shrinking and known findings: oracle plus
	// a normalised detail (numbers and ids stripped by the property).
	Sig  string `json:"sig"`
	Step int    `json:"step"`
	// Attrs are facts about the history of the run recorded by the harness (used to
	// identify known findings by the history that triggers them).
	Attrs []string `json:"attrs,omitempty"`
}

func (v *Violation) Error() string {
	return fmt.Sprintf("%s/%s at step %d: %s", v.Property, v.Oracle, v.Step, v.Detail)
}

// Stats is what one run reports for the evidence file.
type Stats struct {
	Actions    int            `json:"actions"`
	SimTimeMs  int64          `json:"sim_ms"`
	Faults     map[string]int `json:"faults,omitempty"`
	Probes     map[string]int `json:"probes,omitempty"`
	TraceHash  uint64         `json:"trace"`
	Nontrivial bool           `json:"nontrivial"`
	Checks     int            `json:"checks"` // oracle evaluations
}

func NewStats() Stats { return Stats{Faults: map[string]int{}, Probes: map[string]int{}} }

// Result of executing one scenario.
type Result struct {
	V     *Violation
	Stats Stats
	Log   []string
	// Infra is set when the harness itself failed (build/boot trouble, internal
	// inconsistency): never a violation, the worker exits 2.
	Infra error
}

// Tracer accumulates the trace hash and the event log of a run.
type Tracer struct {
	Log  []string
	h    uint64
	Keep bool
}

func (t *Tracer) Event(kind string, args ...any) {
	s := kind
	if len(args) > 0 {
		s += " " + fmt.Sprint(args...)
	}
	hh := fnv.New64a()
	hh.Write([]byte(s))
	t.h = Mix(t.h, hh.Sum64())
	if t.Keep {
		t.Log = append(t.Log, s)
	}
}

func (t *Tracer) Hash() uint64 { return t.h }

// Property is one check.
type Property interface {
	ID() string
	// Generate builds run number idx of the seeded search.
	Generate(r *Rand, tier string, idx int) *Scenario
	// Execute runs the scenario in a fresh simulation and judges it.
	Execute(sc *Scenario, keepLog bool) *Result
}

// RunRecord is one line of a worker's output.
type RunRecord struct {
	Idx       int        `json:"idx"`
	Seed      uint64     `json:"seed"`
	Stats     Stats      `json:"stats"`
	Violation *Violation `json:"violation,omitempty"`
	Replay    string     `json:"replay,omitempty"`
	Sample    []string   `json:"sample,omitempty"`
	Infra     string     `json:"infra,omitempty"`
	WallMs    int64      `json:"wall_ms"`
	Shrunk    string     `json:"shrunk,omitempty"`
	Known     string     `json:"known,omitempty"`
	// Unstable: the violation was observed in this run but did not show again when the
	// same scenario was executed again in the same process (its occurrence depends on
	// something the scenario does not decide); Replay then holds the unshrunk scenario.
	Unstable bool `json:"unstable,omitempty"`
}

// WriteReplay stores a scenario with its violation and log.
func WriteReplay(path string, sc *Scenario, v *Violation, log []string) error {
	c := sc.Clone()
	c.Violation = v
	c.Log = log
	b, err := json.MarshalIndent(c, "", " ")
	if err != nil {
		return err
	}
	return os.WriteFile(path, b, 0o644)
}

func ReadReplay(path string) (*Scenario, error) {
	b, err := os.ReadFile(path)
	if err != nil {
		return nil, err
	}
	var sc Scenario
	if err := json.Unmarshal(b, &sc); err != nil {
		return nil, err
	}
	return &sc, nil
}

// Shrink minimises the action list (and the schedule tape) while the same violation
// signature persists.  exec must run a scenario from scratch.  budget bounds the
// number of executions.
func Shrink(sc *Scenario, sig string, budget int, exec func(*Scenario) *Result) (*Scenario, *Result, int) {
	best := sc.Clone()
	var bestRes *Result
	runs := 0
	try := func(c *Scenario) bool {
		if runs >= budget {
			return false
		}
		runs++
		r := exec(c)
		if r.V != nil && r.V.Sig == sig {
			best, bestRes = c, r
			return true
		}
		return false
	}
	// 1. truncate after the violating step
	// 2. ddmin over actions
	n := 2
	for len(best.Actions) >= 1 && runs < budget {
		chunk := (len(best.Actions) + n - 1) / n
		reduced := false
		for start := 0; start < len(best.Actions) && runs < budget; start += chunk {
			end := start + chunk
			if end > len(best.Actions) {
				end = len(best.Actions)
			}
			c := best.Clone()
			c.Actions = append(append([]Action(nil), best.Actions[:start]...), best.Actions[end:]...)
			if try(c) {
				reduced = true
				if n > 2 {
					n--
				}
				break
			}
		}
		if !reduced {
			if chunk <= 1 {
				break
			}
			n *= 2
			if n > len(best.Actions) {
				n = len(best.Actions)
			}
		}
	}
	// 3. simplify integer parameters towards zero
	for i := 0; i < len(best.Actions) && runs < budget; i++ {
		for j := 0; j < len(best.Actions[i].A) && runs < budget; j++ {
			if best.Actions[i].A[j] == 0 {
				continue
			}
			c := best.Clone()
			c.Actions[i].A[j] = 0
			if !try(c) {
				c = best.Clone()
				c.Actions[i].A[j] /= 2
				if c.Actions[i].A[j] != best.Actions[i].A[j] {
					try(c)
				}
			}
		}
	}
	// 4. schedule tape: zero entries (prefer "keep running the same task")
	for i := 0; i < len(best.Sched) && runs < budget; i++ {
		if best.Sched[i] == 0 {
			continue
		}
		c := best.Clone()
		c.Sched[i] = 0
		try(c)
	}
	return best, bestRes, runs
}

// NormSig builds a signature from an oracle name and detail with digits removed.
func NormSig(oracle, detail string) string {
	detail = parenRe.ReplaceAllString(detail, "(..)")
	detail = quoteRe.ReplaceAllString(detail, `"."`)
	var sb strings.Builder
	prevHash := false
	for _, r := range detail {
		if r >= '0' && r <= '9' {
			if !prevHash {
				sb.WriteByte('#')
				prevHash = true
			}
			continue
		}
		prevHash = false
		sb.WriteRune(r)
	}
	s := sb.String()
	if len(s) > 160 {
		s = s[:160]
	}
	return oracle + ": " + s
}

var parenRe = regexp.MustCompile(`\([^()]*\)`)
var quoteRe = regexp.MustCompile(`"[^"]*"`)

// SortedKeys returns the keys of a map in order.
func SortedKeys[V any](m map[string]V) []string {
	ks := make([]string, 0, len(m))
	for k := range m {
		ks = append(ks, k)
	}
	sort.Strings(ks)
	return ks
}
