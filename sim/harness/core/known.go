package core

import (
	"encoding/json"
	"os"
	"regexp"
	"strings"
)

// Known is one entry of /verif/known_findings.json.
type Known struct {
	ID       string `json:"id"`
	Property string `json:"property"`
	Status   string `json:"status"` // "open" (suppressing, printed as KNOWN-FINDING) or "fixed" (suppresses nothing)
	What     string `json:"what"`
	Match    struct {
		Oracle     string `json:"oracle"`
		DetailRe   string `json:"detail_re"`
		ScenarioRe string `json:"scenario_re"`
		Attr       string `json:"attr"`
	} `json:"match"`
	Commit string `json:"commit,omitempty"`
	detail, scen, oracle *regexp.Regexp
}

type KnownFile struct {
	Findings []*Known `json:"findings"`
}

func LoadKnown(path string) []*Known {
	b, err := os.ReadFile(path)
	if err != nil {
		return nil
	}
	var f KnownFile
	if json.Unmarshal(b, &f) != nil {
		return nil
	}
	for _, k := range f.Findings {
		if k.Match.Oracle != "" {
			k.oracle = regexp.MustCompile("^(?:" + k.Match.Oracle + ")$")
		}
		if k.Match.DetailRe != "" {
			k.detail = regexp.MustCompile("(?s)" + k.Match.DetailRe)
		}
		if k.Match.ScenarioRe != "" {
			k.scen = regexp.MustCompile("(?s)" + k.Match.ScenarioRe)
		}
	}
	return f.Findings
}

// MatchKnown returns the open finding that explains v in scenario sc, if any.
func MatchKnown(known []*Known, sc *Scenario, v *Violation) *Known {
	var text []byte
	for _, k := range known {
		if k.Status != "open" || k.Property != v.Property {
			continue
		}
		if k.oracle != nil && !k.oracle.MatchString(v.Oracle) {
			continue
		}
		if k.detail != nil && !k.detail.MatchString(v.Detail) {
			continue
		}
		if k.Match.Attr != "" {
			// "a+b": every attribute named is required
			all := true
			for _, want := range strings.Split(k.Match.Attr, "+") {
				has := false
				for _, a := range v.Attrs {
					if a == want {
						has = true
					}
				}
				all = all && has
			}
			if !all {
				continue
			}
		}
		if k.scen != nil {
			if text == nil {
				text, _ = json.Marshal(sc)
			}
			if !k.scen.Match(text) {
				continue
			}
		}
		return k
	}
	return nil
}
