package props

import (
	"fmt"
	"sort"
	"strings"

	"github.com/ProtonMail/gluon/imap"

	"verifharness/core"
	"verifharness/gen"
	"verifharness/simconn"
	"verifharness/wire"
	"verifharness/world"
)

// C14 — mailbox namespace and LIST/LSUB follow the reference hierarchy model.
type C14 struct{}

func (C14) ID() string { return "C14" }

var c14Delims = []string{"/", ".", `\`, "|", "^"}

var c14Kinds = []string{"create", "delete", "rename", "sub", "unsub", "list", "lsub", "ccreate", "crename", "cdelete", "restart", "recfill", "recempty"}

// Knobs (sc.Cfg), each enabling an input class that is off in default runs because a
// recorded finding would otherwise dominate:
//
//	bsdelim   the hierarchy delimiter may be "\" (delim index 2); with bsnopct=1 the patterns avoid '%'
//	badren    RENAME targets may have an empty level (leading/doubled/trailing delimiter, "")
//	recchild  RENAME targets may lie below the recovery mailbox
//	inboxmid  "inbox" in any letter case may appear below the first level
//	utf7ref   the LIST/LSUB reference may need modified UTF-7 (non-ASCII or '&')
//	resub     a name whose subscription outlived its mailbox may be created again
//	chain     RENAME may move a mailbox onto the place of another moving mailbox (RENAME a/b a with a/b/b present)
//	rec       the recovery mailbox may be filled/emptied
func (C14) Generate(r *core.Rand, tier string, idx int) *core.Scenario {
	sc := &core.Scenario{Property: "C14", Cfg: map[string]int{}}
	sc.Cfg["nsess"] = r.Range(1, 3)
	d := r.Intn(len(c14Delims))
	if d == 2 {
		// "\" only in runs marked bsdelim
		if r.P(1, 3) {
			sc.Cfg["bsdelim"] = 1
			if r.P(1, 2) {
				sc.Cfg["bsnopct"] = 1 // no '%' in patterns: lets the rest of the run be judged
			}
		} else {
			d = []int{0, 1, 3, 4}[r.Intn(4)]
		}
	}
	sc.Cfg["delim"] = d
	// input classes whose defects were repaired (see known_findings.json): in half of the runs
	for _, k := range []string{"badren", "recchild", "chain", "resub", "inboxmid", "utf7ref"} {
		if r.P(1, 2) {
			sc.Cfg[k] = 1
		}
	}
	if r.P(1, 6) {
		sc.Cfg["rec"] = 1
	}
	//                create delete rename sub unsub list lsub ccreate crename cdelete restart recfill recempty
	weights := []int{14, 6, 10, 4, 5, 10, 9, 3, 3, 2, 0, 0, 0}
	if r.P(1, 8) {
		weights[10] = 1
	}
	if sc.Cfg["rec"] == 1 {
		weights[11], weights[12] = 2, 1
	}
	n := r.Range(15, 50)
	for i := 0; i < n; i++ {
		a := core.Action{K: c14Kinds[r.Weighted(weights)], S: r.Intn(sc.Cfg["nsess"])}
		for j := 0; j < 22; j++ {
			a.A = append(a.A, r.Intn(1000))
		}
		sc.Actions = append(sc.Actions, a)
	}
	return sc
}

// ---- names ----

var c14InboxForms = []string{"INBOX", "inbox", "Inbox", "iNbOx"}
var c14RecForms = []string{c14Recovery, "recovered messages", "RECOVERED MESSAGES"}

type c14Run struct {
	e             *Env
	sc            *core.Scenario
	m             *c14NS
	d             string
	tab           []string
	sess          []*world.Sess
	muts          int
	nonEmptyLists int
}

func c14Table(d string) []string {
	plain := []string{"a", "b", "ab", "c"}
	other := []string{
		"A", "c d", "a+b", "(x)", "[z]", "x?", "$y", "a{1}", "q^", "p.q", "p|q", "p/q", `p\q`,
		"50%", "st*r", "%", "*x", "é", "日本語", "ü&ö", "a&b", `q"t`, "~t", "#n", "a b c",
	}
	var tab []string
	for i := 0; i < 5; i++ {
		tab = append(tab, plain...)
	}
	for _, s := range other {
		if !strings.Contains(s, d) {
			tab = append(tab, s)
		}
	}
	return tab
}

func c14IsInboxForm(s string) bool { return strings.EqualFold(s, "INBOX") }

func (c *c14Run) seg(x int, first bool) string {
	x = abs(x)
	if first {
		switch x % 12 {
		case 10:
			return c14InboxForms[(x/12)%4]
		case 11:
			if (x/12)%3 == 0 {
				return c14RecForms[(x/36)%3]
			}
		}
	} else if c.sc.C("inboxmid") == 1 && x%12 == 10 {
		return c14InboxForms[(x/12)%4]
	}
	return c.tab[x%len(c.tab)]
}

var c14Depth = []int{1, 1, 1, 2, 2, 2, 3, 3, 4, 5}

// name builds a mailbox name from a[off:off+9].  base (if not "") is the name the
// "child of" mode hangs the new name under.  emptyOK allows empty levels of hierarchy,
// trailOK a trailing delimiter.
func (c *c14Run) name(a core.Action, off int, base string, emptyOK, trailOK bool) string {
	known := c.m.Known()
	pick := func(k int) string { return known[abs(k)%len(known)] }
	mode, k := abs(a.Arg(off))%8, a.Arg(off+1)
	var n string
	switch mode {
	case 0, 1:
		n = pick(k)
	case 2:
		p := base
		if p == "" {
			p = pick(k)
		}
		n = p + c.d + c.seg(a.Arg(off+3), false)
	case 3:
		n = pick(k)
		if i := strings.LastIndex(n, c.d); i > 0 {
			n = n[:i]
		}
	case 6:
		n = pick(k)
		segs := strings.Split(n, c.d)
		if c14IsInboxForm(segs[0]) {
			segs[0] = c14InboxForms[abs(a.Arg(off+3))%4]
		} else if strings.EqualFold(segs[0], c14Recovery) {
			segs[0] = c14RecForms[abs(a.Arg(off+3))%3]
		}
		n = strings.Join(segs, c.d)
	case 7:
		n = pick(k)
		if i := strings.LastIndex(n, c.d); i > 0 {
			n = n[:i] + c.d + c.seg(a.Arg(off+3), false)
		} else {
			n = c.seg(a.Arg(off+3), true)
		}
	default:
		depth := c14Depth[abs(a.Arg(off+2))%len(c14Depth)]
		segs := make([]string, depth)
		for i := range segs {
			segs[i] = c.seg(a.Arg(off+3+i), i == 0)
		}
		n = strings.Join(segs, c.d)
	}
	switch fl := abs(a.Arg(off+8)) % 16; {
	case fl == 1 && trailOK:
		n += c.d
	case fl == 2 && emptyOK:
		n = c.d + n
	case fl == 3 && emptyOK:
		if i := strings.Index(n, c.d); i >= 0 {
			n = n[:i] + c.d + n[i:]
		} else {
			n += c.d + c.d
		}
	case fl == 4 && emptyOK:
		n = ""
	}
	return n
}

// ---- wire forms ----

type c14Cmd struct {
	parts [][]byte
	cur   []byte
	text  strings.Builder
}

func (b *c14Cmd) raw(s string) { b.cur = append(b.cur, s...); b.text.WriteString(s) }

func c14AtomSafe(s string) bool {
	if s == "" {
		return false
	}
	for i := 0; i < len(s); i++ {
		ch := s[i]
		if !(ch >= 'a' && ch <= 'z' || ch >= 'A' && ch <= 'Z' || ch >= '0' && ch <= '9' || ch == '/' || ch == '.' || ch == '|' || ch == '^' || ch == '$' || ch == '+' || ch == '?' || ch == '#' || ch == '~') {
			return false
		}
	}
	return true
}

// str appends a mailbox name argument: form 0 quoted, 1 literal, 2 atom where the
// grammar allows it.  listWild: the argument is a list-mailbox ('%' and '*' may appear
// unquoted; it is never sent as a literal).
func (b *c14Cmd) str(name string, form int, listWild bool) {
	enc := c14EncodeUTF7(name)
	form = abs(form) % 3
	if listWild && form == 1 {
		form = 0
	}
	switch {
	case form == 1 && enc != "":
		b.cur = append(b.cur, fmt.Sprintf("{%d}\r\n", len(enc))...)
		b.parts = append(b.parts, b.cur)
		b.cur = append([]byte(nil), enc...)
		fmt.Fprintf(&b.text, "{%d}%s", len(enc), enc)
	case form == 2 && (c14AtomSafe(enc) || listWild && c14AtomSafe(strings.NewReplacer("%", "x", "*", "x").Replace(enc))):
		b.raw(enc)
	default:
		b.raw(Quote(enc))
	}
}

func (b *c14Cmd) cmd() wire.Cmd {
	b.cur = append(b.cur, '\r', '\n')
	parts := append(b.parts, b.cur)
	return wire.Cmd{Parts: parts, Text: b.text.String()}
}

// ---- execution ----

func (C14) Execute(sc *core.Scenario, keepLog bool) *core.Result {
	d := c14Delims[abs(sc.C("delim"))%len(c14Delims)]
	cfg := world.Config{
		Users:     []world.UserCfg{{Names: []string{"user"}, Password: "pass"}},
		Delimiter: d,
	}
	return RunInBubble("C14", sc, keepLog, cfg, func(e *Env) {
		c := &c14Run{e: e, sc: sc, m: newC14NS(d), d: d, tab: c14Table(d)}
		u := e.W.Users[0]
		for id, nm := range u.Conn.MboxNames {
			if len(nm) == 1 && nm[0] == "INBOX" {
				c.m.Boxes["INBOX"] = string(id)
			}
		}
		u.Conn.TakeCalls()
		if !c.login(max(1, min(3, sc.C("nsess")))) {
			return
		}
		e.Tr.Event("delim", d)
		for i, a := range sc.Actions {
			e.Step = i + 1
			c.exec(a)
			if e.Failed() {
				return
			}
			c.checkPanics()
			if e.Failed() {
				return
			}
		}
		e.Step = len(sc.Actions)
		c.fullCheck(c.sess[0], "final")
		c.examineAll(c.sess[0])
		e.St.Nontrivial = c.muts >= 3 && c.nonEmptyLists >= 1
	})
}

// checkPanics reports a panic recorded by the server's panic handler.  The stack is
// reduced to function names: goroutine numbers and addresses differ between processes
// and would leak into the trace hash.
func (c *c14Run) checkPanics() {
	e := c.e
	if len(e.W.Panics) == 0 || e.V != nil {
		return
	}
	lines := strings.Split(e.W.Panics[0], "\n")
	var fns []string
	for _, l := range lines[1:] {
		if l == "" || strings.HasPrefix(l, "\t") || strings.HasPrefix(l, "goroutine ") || strings.HasPrefix(l, "panic(") {
			continue
		}
		if i := strings.LastIndexByte(l, '('); i > 0 {
			l = l[:i]
		}
		if strings.Contains(l, "gluon/internal/") || strings.HasPrefix(l, "regexp.") {
			fns = append(fns, l)
		}
		if len(fns) >= 8 {
			break
		}
	}
	e.FailSig("panic", lines[0], "server goroutine panicked: %s [%s]", lines[0], strings.Join(fns, " < "))
}

func (c *c14Run) login(n int) bool {
	u := c.e.W.Users[0]
	c.sess = c.sess[:0]
	for i := 0; i < n; i++ {
		s, err := c.e.W.Connect()
		if err != nil {
			c.e.Infra = err
			return false
		}
		if r := s.Cmd("LOGIN %s %s", u.Cfg.Names[0], u.Cfg.Password); !r.OK() {
			c.e.Infra = fmt.Errorf("LOGIN failed: %s %s", r.Status, r.Text)
			return false
		}
		s.User = 0
		c.sess = append(c.sess, s)
	}
	return true
}

// createdIDs reads the remote ids of mailboxes created through the connector interface
// during the last command.
func (c *c14Run) createdIDs() map[string]string {
	ids := map[string]string{}
	for _, call := range c.e.W.Users[0].Conn.TakeCalls() {
		if call.Kind == simconn.KCreateMailbox && call.Err == nil {
			ids[strings.Join(call.Name, c.d)] = call.NewID
		}
	}
	return ids
}

func (c *c14Run) judge(what string, r *wire.Result, exp int) bool {
	e := c.e
	e.St.Checks++
	if r.Err != nil || r.Closed {
		e.FailSig("protocol", what[:strings.IndexByte(what+" ", ' ')], "%s: connection trouble: err=%v closed=%v status=%q", what, r.Err, r.Closed, r.Status)
		return false
	}
	verb := what[:strings.IndexByte(what+" ", ' ')]
	switch r.Status {
	case "OK":
		if exp&c14OK == 0 {
			e.FailSig("tagged-result", verb+" OK, model NO", "%s answered OK %q, the model says %s", what, r.Text, c14ExpString(exp))
			return false
		}
	case "NO":
		if exp&c14NO == 0 {
			e.FailSig("tagged-result", verb+" NO, model OK", "%s answered NO %q, the model says %s", what, r.Text, c14ExpString(exp))
			return false
		}
	default:
		e.FailSig("tagged-result", verb+" "+r.Status, "%s answered %s %q, the model says %s", what, r.Status, r.Text, c14ExpString(exp))
		return false
	}
	if exp == c14Either {
		e.St.Probes["result_left_open_by_rfc"]++
	}
	return true
}

// Scripted actions (hand-written reproducers): K "cmd", X = verb and arguments separated
// by tabs, names in UTF-8 as the model sees them, e.g. "RENAME\ta/b\ta".  They bypass the
// knobs.
func (c *c14Run) exec(a core.Action) {
	e := c.e
	si := abs(a.S) % len(c.sess)
	s := c.sess[si]
	var xs []string
	scripted := a.K == "cmd"
	if scripted {
		xs = strings.Split(a.X, "\t")
		for len(xs) < 3 {
			xs = append(xs, "")
		}
		switch strings.ToUpper(xs[0]) {
		case "CREATE":
			a.K = "create"
		case "DELETE":
			a.K = "delete"
		case "RENAME":
			a.K = "rename"
		case "SUBSCRIBE":
			a.K = "sub"
		case "UNSUBSCRIBE":
			a.K = "unsub"
		case "LIST":
			a.K = "list"
		case "LSUB":
			a.K = "lsub"
		default:
			return
		}
	}
	switch a.K {
	case "create":
		name := c.name(a, 0, "", true, true)
		if scripted {
			name = xs[1]
		}
		if !scripted && c.sc.C("resub") == 0 && c.revives(name, true) {
			e.St.Probes["skipped_resub"]++
			return
		}
		exp, apply := c.m.Create(name)
		var b c14Cmd
		b.raw("CREATE ")
		b.str(name, a.Arg(10), false)
		r := s.Do(b.cmd())
		what := fmt.Sprintf("CREATE %q", name)
		e.Tr.Event("create", si, name, r.Status)
		ids := c.createdIDs()
		if !c.judge(what, r, exp) {
			return
		}
		if r.OK() {
			apply(ids)
			c.muts++
			if strings.HasSuffix(name, c.d) {
				e.St.Probes["create_trailing_delimiter"]++
			}
			if strings.Contains(name, c.d) {
				e.St.Probes["create_nested"]++
			}
		}
		c.noteName(name)
		c.fullCheck(s, what)
	case "delete":
		name := c.name(a, 0, "", true, true)
		if scripted {
			name = xs[1]
		}
		exp, apply := c.m.Delete(name)
		hadInf := len(c.m.inferiors(c.m.norm(name))) > 0
		var b c14Cmd
		b.raw("DELETE ")
		b.str(name, a.Arg(10), false)
		r := s.Do(b.cmd())
		what := fmt.Sprintf("DELETE %q", name)
		e.Tr.Event("delete", si, name, r.Status)
		c.createdIDs()
		if !c.judge(what, r, exp) {
			return
		}
		if r.OK() {
			apply()
			c.muts++
			if hadInf {
				e.St.Probes["delete_with_inferiors"]++
			}
			if c.m.Subs[c.m.norm(name)] {
				e.St.Probes["delete_subscribed"]++
			}
		}
		c.noteName(name)
		c.fullCheck(s, what)
	case "rename":
		old := c.name(a, 0, "", false, false)
		bad := c.sc.C("badren") == 1
		nw := c.name(a, 11, old, bad, bad)
		if !bad && nw == "" {
			nw = "a"
		}
		if scripted {
			old, nw = xs[1], xs[2]
		}
		if !scripted && c.sc.C("recchild") == 0 && c.m.underRecovery(c.m.norm(nw)) && !c.m.isRecoveryName(c.m.norm(nw)) {
			nw = "a" + c.d + "rc"
		}
		if !scripted && c.sc.C("resub") == 0 && c.revives(nw, false) {
			e.St.Probes["skipped_resub"]++
			return
		}
		if !scripted && c.sc.C("chain") == 0 && c.chainRename(old, nw) {
			e.St.Probes["skipped_chain"]++
			return
		}
		exp, apply := c.m.Rename(old, nw)
		o := c.m.norm(old)
		hadInf := len(c.m.inferiors(o)) > 0
		var b c14Cmd
		b.raw("RENAME ")
		b.str(old, a.Arg(10), false)
		b.raw(" ")
		b.str(nw, a.Arg(20), false)
		r := s.Do(b.cmd())
		what := fmt.Sprintf("RENAME %q %q", old, nw)
		e.Tr.Event("rename", si, old, nw, r.Status)
		ids := c.createdIDs()
		if !c.judge(what, r, exp) {
			return
		}
		if r.OK() {
			apply(ids)
			c.muts++
			if hadInf && o != "INBOX" {
				e.St.Probes["rename_with_inferiors"]++
			}
			if o == "INBOX" {
				e.St.Probes["rename_inbox"]++
			}
		} else if c.m.exists(o) && strings.HasPrefix(c.m.norm(nw), o+c.d) {
			e.St.Probes["rename_onto_own_inferior_refused"]++
		}
		c.noteName(old)
		c.noteName(nw)
		c.fullCheck(s, what)
	case "sub", "unsub":
		name := c.name(a, 0, "", true, true)
		if scripted {
			name = xs[1]
		}
		verb := "SUBSCRIBE"
		var exp int
		var apply func()
		if a.K == "sub" {
			exp, apply = c.m.Subscribe(name)
		} else {
			verb = "UNSUBSCRIBE"
			exp, apply = c.m.Unsubscribe(name)
		}
		var b c14Cmd
		b.raw(verb + " ")
		b.str(name, a.Arg(10), false)
		r := s.Do(b.cmd())
		what := fmt.Sprintf("%s %q", verb, name)
		e.Tr.Event(a.K, si, name, r.Status)
		if !c.judge(what, r, exp) {
			return
		}
		if r.OK() {
			apply()
			c.muts++
			if a.K == "unsub" && !c.m.exists(c.m.norm(name)) {
				e.St.Probes["unsubscribe_deleted_name"]++
			}
		}
		c.noteName(name)
		c.fullCheck(s, what)
	case "list", "lsub":
		ref, pat := c.pattern(a)
		if scripted {
			ref, pat = xs[1], xs[2]
		}
		c.listCheck(s, a.K == "lsub", ref, pat, a.Arg(19), a.Arg(20), "")
	case "ccreate", "crename", "cdelete":
		c.connector(a)
	case "restart":
		if err := e.W.Restart(); err != nil {
			e.Fail("restart", "clean restart failed: %v", err)
			return
		}
		e.St.Faults["restart_clean"]++
		e.Tr.Event("restart")
		if !c.login(len(c.sess)) {
			return
		}
		c.fullCheck(c.sess[0], "restart")
	case "recfill":
		// a refused APPEND puts the message into the recovery mailbox, which is listed from then on
		u := e.W.Users[0]
		u.Conn.Arm(simconn.KCreateMessage, simconn.ErrInjected)
		msg := e.NewMessage(a.Arg(0), gen.Opts{})
		r := s.Do(wire.WithLiteral("APPEND INBOX ", msg.Bytes, ""))
		u.Conn.Disarm()
		e.Tr.Event("recfill", si, r.Status)
		if r.Status != "NO" {
			e.Fail("recovery", "APPEND with a failing remote answered %s %q", r.Status, r.Text)
			return
		}
		e.St.Faults["connector_call_fail:create_message"]++
		c.m.RecVisible = true
		e.St.Probes["recovery_mailbox_visible"]++
		c.fullCheck(s, "recfill")
	case "recempty":
		if !c.m.RecVisible {
			return
		}
		ok := true
		for _, cmd := range []string{"SELECT " + Quote(c14Recovery), `STORE 1:* +FLAGS.SILENT (\Deleted)`, "CLOSE"} {
			if r := s.Cmd("%s", cmd); !r.OK() {
				e.Fail("recovery", "%s answered %s %q", cmd, r.Status, r.Text)
				ok = false
				break
			}
		}
		s.M.Unselect()
		e.Tr.Event("recempty", si, ok)
		if !ok {
			return
		}
		c.m.RecVisible = false
		e.St.Probes["recovery_mailbox_emptied"]++
		c.fullCheck(s, "recempty")
	}
}

// revives: would creating this name (or a missing level above it) re-create a name that
// is still on the subscription list although its mailbox is gone?
func (c *c14Run) revives(written string, stripTrail bool) bool {
	n := c.m.norm(written)
	if stripTrail && strings.HasSuffix(n, c.d) {
		n = n[:len(n)-len(c.d)]
	}
	for _, s := range append(c.m.superiors(n), n) {
		if c.m.Subs[s] && !c.m.exists(s) {
			return true
		}
	}
	return false
}

// chainRename: the renamed mailbox has an inferior whose new name is the present name of
// another moving mailbox (RENAME a/b a with a/b/b present).
func (c *c14Run) chainRename(old, nw string) bool {
	o, n := c.m.norm(old), c.m.norm(nw)
	if !c.m.exists(o) {
		return false
	}
	for _, i := range c.m.inferiors(o) {
		t := n + i[len(o):]
		if t == o || strings.HasPrefix(t, o+c.d) {
			if c.m.exists(t) {
				return true
			}
		}
	}
	return false
}

func (c *c14Run) noteName(name string) {
	for i := 0; i < len(name); i++ {
		if name[i] >= 0x80 || name[i] == '&' {
			c.e.St.Probes["utf7_name"]++
			return
		}
	}
}

func (c *c14Run) connector(a core.Action) {
	e := c.e
	u := e.W.Users[0]
	cleanSegs := func(off int) []string {
		depth := c14Depth[abs(a.Arg(off))%len(c14Depth)]
		segs := make([]string, depth)
		for i := range segs {
			s := c.seg(a.Arg(off+1+i), false)
			if i == 0 && (strings.EqualFold(s, c14Recovery) || c14IsInboxForm(s)) {
				s = "r" // the remote service does not use reserved names
			}
			segs[i] = s
		}
		return segs
	}
	pickBox := func(k int) (string, string) {
		names := c.m.Addressable()
		if len(names) == 0 {
			return "", ""
		}
		n := names[abs(k)%len(names)]
		return n, c.m.Boxes[n]
	}
	switch a.K {
	case "ccreate":
		var segs []string
		if abs(a.Arg(8))%4 == 0 {
			// below or at an existing name
			known := c.m.Known()
			base := known[abs(a.Arg(9))%len(known)]
			if base == c14Recovery || base == "INBOX" {
				base = "a"
			}
			segs = append(strings.Split(base, c.d), c.seg(a.Arg(1), false))
		} else {
			segs = cleanSegs(0)
		}
		name := strings.Join(segs, c.d)
		if c.m.badName(name) {
			return
		}
		if c.sc.C("resub") == 0 && c.m.Subs[name] && !c.m.exists(name) {
			e.St.Probes["skipped_resub"]++
			return
		}
		id := u.Conn.NewMailboxID()
		u.Conn.MboxNames[id] = segs
		free := !c.m.exists(name)
		r := e.W.Submit(u, imap.NewMailboxCreated(u.Conn.MailboxTemplate(id, segs)))
		e.Tr.Event("ccreate", name, r.Done, r.Err != nil)
		e.St.Checks++
		if !r.Done {
			e.Fail("connector-update", "MailboxCreated(%q) was not acknowledged", name)
			return
		}
		if free != (r.Err == nil) {
			e.FailSig("connector-update", fmt.Sprintf("created free=%v err=%v", free, r.Err != nil), "MailboxCreated(%q): name free in the model=%v, update completed with err=%v", name, free, r.Err)
			return
		}
		c.m.ConnCreate(name, string(id))
		e.St.Probes["connector_mailbox_created"]++
		c.muts++
		c.fullCheck(c.sess[0], fmt.Sprintf("MailboxCreated(%q)", name))
	case "crename":
		cur, id := pickBox(a.Arg(10))
		if id == "" {
			return
		}
		var segs []string
		switch abs(a.Arg(8)) % 4 {
		case 0:
			// keep the parent, new last level
			segs = strings.Split(cur, c.d)
			segs[len(segs)-1] = c.seg(a.Arg(1), false)
		case 1:
			known := c.m.Known()
			segs = strings.Split(known[abs(a.Arg(9))%len(known)], c.d)
		default:
			segs = cleanSegs(0)
		}
		name := strings.Join(segs, c.d)
		if c.m.badName(name) || c.m.underRecovery(name) || c14IsInboxForm(segs[0]) {
			return
		}
		if c.sc.C("resub") == 0 && c.m.Subs[name] && !c.m.exists(name) {
			e.St.Probes["skipped_resub"]++
			return
		}
		free := !c.m.exists(name) || name == cur
		r := e.W.Submit(u, imap.NewMailboxUpdated(imap.MailboxID(id), segs))
		e.Tr.Event("crename", cur, name, r.Done, r.Err != nil)
		e.St.Checks++
		if !r.Done {
			e.Fail("connector-update", "MailboxUpdated(%q -> %q) was not acknowledged", cur, name)
			return
		}
		if free != (r.Err == nil) {
			e.FailSig("connector-update", fmt.Sprintf("renamed free=%v err=%v", free, r.Err != nil), "MailboxUpdated(%q -> %q): name free in the model=%v, update completed with err=%v", cur, name, free, r.Err)
			return
		}
		if free {
			u.Conn.MboxNames[imap.MailboxID(id)] = segs
			c.m.ConnRename(id, name)
			e.St.Probes["connector_mailbox_renamed"]++
			c.muts++
		}
		c.fullCheck(c.sess[0], fmt.Sprintf("MailboxUpdated(%q -> %q)", cur, name))
	case "cdelete":
		cur, id := pickBox(a.Arg(10))
		if id == "" {
			return
		}
		r := e.W.Submit(u, imap.NewMailboxDeleted(imap.MailboxID(id)))
		e.Tr.Event("cdelete", cur, r.Done, r.Err != nil)
		e.St.Checks++
		if !r.Done || r.Err != nil {
			e.Fail("connector-update", "MailboxDeleted(%q): done=%v err=%v", cur, r.Done, r.Err)
			return
		}
		delete(u.Conn.MboxNames, imap.MailboxID(id))
		c.m.ConnDelete(id)
		e.St.Probes["connector_mailbox_deleted"]++
		c.muts++
		c.fullCheck(c.sess[0], fmt.Sprintf("MailboxDeleted(%q)", cur))
	}
}

// ---- LIST / LSUB ----

func c14HasWild(s string) bool { return strings.ContainsAny(s, "%*") }

func c14NeedsUTF7(s string) bool {
	for i := 0; i < len(s); i++ {
		if s[i] >= 0x80 || s[i] == '&' {
			return true
		}
	}
	return false
}

// pattern builds (reference, mailbox pattern) from the action's integers.
func (c *c14Run) pattern(a core.Action) (string, string) {
	switch abs(a.Arg(9)) % 12 {
	case 0:
		return "", "*"
	case 1:
		if c.sc.C("bsnopct") == 1 {
			return "", "*"
		}
		return "", "%"
	case 2:
		ref := c.name(a, 0, "", true, true)
		if c.sc.C("utf7ref") == 0 && c14NeedsUTF7(ref) {
			ref = "a" + c.d + "b"
		}
		return ref, ""
	}
	n := c.name(a, 0, "", true, true)
	segs := strings.Split(n, c.d)
	for i := range segs {
		if i >= 5 {
			break
		}
		s := segs[i]
		op := abs(a.Arg(10+i)) % 14
		special := c14IsInboxForm(s) || strings.EqualFold(s, c14Recovery)
		rs := []rune(s)
		if special && op >= 7 {
			op = 0
		}
		switch op {
		case 5:
			s = "%"
		case 6:
			s = "*"
		case 7:
			if len(rs) > 0 {
				s = string(rs[:1]) + "%"
			}
		case 8:
			if len(rs) > 0 {
				s = "%" + string(rs[len(rs)-1:])
			}
		case 9:
			if len(rs) > 0 {
				s = string(rs[:1]) + "*"
			}
		case 10:
			s = []string{"%%", "**", "*%", "%*"}[abs(a.Arg(15))%4]
		case 11:
			if len(rs) >= 2 {
				s = string(rs[:1]) + "%" + string(rs[len(rs)-1:])
			} else {
				s = "*" + s
			}
		case 12:
			s = s + "%"
		case 13:
			s = "%" + s + "*"
		}
		segs[i] = s
	}
	p := strings.Join(segs, c.d)
	switch abs(a.Arg(16)) % 10 {
	case 4:
		p += c.d + "%"
	case 5:
		p += c.d + "*"
	case 6:
		j := 1 + abs(a.Arg(17))%len(segs)
		p = strings.Join(segs[:j], c.d) + c.d + "%"
	case 7:
		p += "%"
	case 8:
		p += "*"
	case 9:
		p = "%" + c.d + p
	}
	// split into reference and pattern; the reference carries no wildcard
	ref, pat := "", p
	rp := []rune(p)
	limit := len(rp)
	for i, r := range rp {
		if r == '%' || r == '*' {
			limit = i
			break
		}
	}
	cut := 0
	switch abs(a.Arg(18)) % 7 {
	case 3, 4:
		// at a delimiter: reference with the trailing delimiter (3) or without it (4)
		var at []int
		for i, r := range rp[:limit] {
			if string(r) == c.d {
				at = append(at, i)
			}
		}
		if len(at) > 0 {
			cut = at[abs(a.Arg(17))%len(at)]
			if abs(a.Arg(18))%7 == 3 {
				cut++
			}
		}
	case 5:
		if limit > 0 {
			cut = abs(a.Arg(17)) % (limit + 1)
		}
	}
	ref, pat = string(rp[:cut]), string(rp[cut:])
	if c.sc.C("utf7ref") == 0 && c14NeedsUTF7(ref) {
		ref, pat = "", p
	}
	if c.sc.C("bsnopct") == 1 {
		pat = strings.ReplaceAll(pat, "%", "*")
	}
	return ref, pat
}

// listCheck sends LIST or LSUB and compares the answer with the model.
func (c *c14Run) listCheck(s *world.Sess, lsub bool, ref, pat string, formRef, formPat int, after string) {
	e := c.e
	verb := "LIST"
	var exp c14Set
	if lsub {
		verb = "LSUB"
		exp = c.m.Lsub(ref, pat)
	} else {
		exp = c.m.List(ref, pat)
	}
	var b c14Cmd
	b.raw(verb + " ")
	if abs(formRef)%3 == 1 {
		formRef = 0 // the reference is kept literal-free (see the known LIST literal defect)
	}
	b.str(ref, formRef, false)
	b.raw(" ")
	b.str(pat, formPat, true)
	r := s.Do(b.cmd())
	what := fmt.Sprintf("%s %q %q", verb, ref, pat)
	if after != "" {
		what += " after " + after
	}
	e.St.Checks++
	got := c14Set{}
	nlines := 0
	for _, l := range r.Lines {
		if l.Keyword() != verb {
			continue
		}
		nlines++
		if len(l.Nodes) != 4 || l.Nodes[1].Kind != wire.List || !l.Nodes[3].IsStr() {
			e.FailSig("list-format", verb+" shape", "%s: malformed response %s", what, wire.Abridge(l.Raw))
			return
		}
		if l.Nodes[2].Kind != wire.Quoted || l.Nodes[2].Str != c.d {
			e.FailSig("list-format", verb+" delimiter", "%s: delimiter field is %s, the server's delimiter is %q", what, l.Nodes[2].String(), c.d)
			return
		}
		name, err := c14DecodeUTF7(l.Nodes[3].Str)
		if err != nil {
			e.FailSig("list-format", verb+" utf7", "%s: name %q is not modified UTF-7: %v", what, l.Nodes[3].Str, err)
			return
		}
		nosel := false
		for _, at := range l.Nodes[1].List {
			if strings.EqualFold(at.Str, `\Noselect`) {
				nosel = true
			}
		}
		if _, dup := got[name]; dup {
			e.FailSig("list-set", verb+" duplicate", "%s: name %q reported twice", what, name)
			return
		}
		got[name] = nosel
	}
	e.Tr.Event(strings.ToLower(verb), s.Idx, ref, pat, r.Status, len(got))
	if r.Err != nil || r.Closed || r.Status != "OK" {
		if len(e.W.Panics) > 0 {
			c.checkPanics()
			return
		}
		e.FailSig("tagged-result", verb+" "+r.Status, "%s answered %s %q (err=%v closed=%v)", what, r.Status, r.Text, r.Err, r.Closed)
		return
	}
	if pat == "" {
		// the delimiter/root request: one \Noselect answer whose name is "" or a leading
		// part of the reference ending in the delimiter (RFC 3501: the root MAY be empty).
		// LSUB: RFC 3501 does not define it; not judged.
		if lsub {
			return
		}
		e.St.Probes["list_empty_pattern"]++
		if nlines != 1 {
			e.FailSig("list-root", "count", "%s: %d responses to the delimiter request, want 1", what, nlines)
			return
		}
		for name, nosel := range got {
			okName := name == "" || ((strings.HasPrefix(c.m.norm(ref), name) || strings.HasPrefix(ref, name)) && strings.HasSuffix(name, c.d))
			if !nosel || !okName {
				e.FailSig("list-root", "content", "%s: delimiter request answered with name %q noselect=%v", what, name, nosel)
				return
			}
		}
		return
	}
	if len(exp) > 0 {
		c.nonEmptyLists++
		e.St.Probes[strings.ToLower(verb)+"_nonempty"]++
	}
	// compare
	var names []string
	for n := range exp {
		names = append(names, n)
	}
	for n := range got {
		if _, ok := exp[n]; !ok {
			names = append(names, n)
		}
	}
	sort.Strings(names)
	for _, n := range names {
		en, inExp := exp[n]
		gn, inGot := got[n]
		switch {
		case inExp && !inGot:
			e.FailSig("list-set", verb+" missing", "%s: %q missing; server %s, model %s (pattern %q)", what, n, got, exp, c.m.Pattern(ref, pat))
			return
		case !inExp && inGot:
			e.FailSig("list-set", verb+" extra", "%s: %q reported but not selected by the model; server %s, model %s (pattern %q)", what, n, got, exp, c.m.Pattern(ref, pat))
			return
		case en != gn:
			e.FailSig("list-set", fmt.Sprintf("%s noselect server=%v model=%v", verb, gn, en), "%s: %q \\Noselect=%v, model %v; server %s, model %s", what, n, gn, en, got, exp)
			return
		}
	}
	for _, ns := range exp {
		if ns {
			e.St.Probes[strings.ToLower(verb)+"_noselect_reported"]++
			break
		}
	}
	if lsub {
		for n := range exp {
			if !c.m.exists(n) && c.m.Subs[n] {
				e.St.Probes["lsub_name_outliving_mailbox"]++
				break
			}
		}
		for n, ns := range exp {
			if ns && !c.m.Subs[n] {
				e.St.Probes["lsub_unsubscribed_level_reported"]++
				break
			}
		}
	}
	if c14HasWild(pat) && pat != "*" && pat != "%" {
		e.St.Probes["pattern_with_inner_wildcards"]++
	}
	if ref != "" {
		e.St.Probes["nonempty_reference"]++
	}
}

// examineAll ties the listing to the namespace itself: at the end of a run every name
// the model lists without \\Noselect must open with EXAMINE, every \\Noselect level must not.
func (c *c14Run) examineAll(s *world.Sess) {
	e := c.e
	if e.Failed() {
		return
	}
	all := c.m.List("", "*")
	names := make([]string, 0, len(all))
	for n := range all {
		names = append(names, n)
	}
	sort.Strings(names)
	for i, n := range names {
		if i >= 12 {
			break
		}
		s.M.Reset(n, true)
		var b c14Cmd
		b.raw("EXAMINE ")
		b.str(n, i, false)
		r := s.Do(b.cmd())
		e.St.Checks++
		e.Tr.Event("examine", n, r.Status)
		if r.Err != nil || (r.Status != "OK" && r.Status != "NO") {
			e.FailSig("examine", "status", "EXAMINE %q answered %s %q err=%v", n, r.Status, r.Text, r.Err)
			return
		}
		if r.OK() == all[n] {
			e.FailSig("examine", fmt.Sprintf("noselect=%v status=%s", all[n], r.Status), "EXAMINE %q answered %s although the name is listed with \\Noselect=%v", n, r.Status, all[n])
			return
		}
		if r.OK() {
			if r2 := s.Cmd("UNSELECT"); !r2.OK() {
				e.FailSig("examine", "unselect", "UNSELECT after EXAMINE %q answered %s %q", n, r2.Status, r2.Text)
				return
			}
		}
		s.M.Unselect()
	}
}

// fullCheck compares the whole namespace and the whole subscription list.
func (c *c14Run) fullCheck(s *world.Sess, after string) {
	if c.e.Failed() {
		return
	}
	if s.C.Dead {
		s = c.sess[0]
	}
	c.listCheck(s, false, "", "*", 0, 2, after)
	if c.e.Failed() {
		return
	}
	c.listCheck(s, true, "", "*", 0, 2, after)
}
