package props

// C08 reference model: a plain in-memory relational model of what the db interface
// stores.  Nothing here knows about SQL, chunking or tables per mailbox.
//
// Values that change are replaced, never mutated in place (sets, row slices), so a
// clone of the model is cheap: it is taken at the start of every write transaction and
// thrown away when the transaction aborts.

import (
	"sort"
	"strings"
	"time"

	"github.com/ProtonMail/gluon/imap"
)

// c8Set is a case-insensitive flag set: lower-case key -> spelling first stored.
// Treated as immutable.
type c8Set map[string]string

func c8NewSet(flags ...string) c8Set {
	s := c8Set{}
	for _, f := range flags {
		k := strings.ToLower(f)
		if _, ok := s[k]; !ok {
			s[k] = f
		}
	}
	return s
}

func (s c8Set) with(flags ...string) c8Set {
	n := make(c8Set, len(s)+len(flags))
	for k, v := range s {
		n[k] = v
	}
	for _, f := range flags {
		k := strings.ToLower(f)
		if _, ok := n[k]; !ok {
			n[k] = f
		}
	}
	return n
}

func (s c8Set) without(flag string) c8Set {
	k := strings.ToLower(flag)
	if _, ok := s[k]; !ok {
		return s
	}
	n := make(c8Set, len(s))
	for kk, v := range s {
		if kk != k {
			n[kk] = v
		}
	}
	return n
}

func (s c8Set) has(flag string) bool { _, ok := s[strings.ToLower(flag)]; return ok }

// keys returns the lower-case keys, sorted.
func (s c8Set) keys() []string {
	ks := make([]string, 0, len(s))
	for k := range s {
		ks = append(ks, k)
	}
	sort.Strings(ks)
	return ks
}

func (s c8Set) String() string { return "{" + strings.Join(s.keys(), " ") + "}" }

// eqFlagSet compares with what the implementation returned.
func (s c8Set) eqFlagSet(fs imap.FlagSet) bool {
	if len(s) != fs.Len() {
		return false
	}
	for k := range s {
		if !fs.ContainsUnchecked(k) {
			return false
		}
	}
	return true
}

func c8FlagSetString(fs imap.FlagSet) string {
	ks := make([]string, 0, fs.Len())
	for _, v := range fs.ToSliceUnsorted() {
		ks = append(ks, strings.ToLower(v))
	}
	sort.Strings(ks)
	return "{" + strings.Join(ks, " ") + "}"
}

type c8ID = imap.InternalMessageID

type c8Row struct {
	UID     uint32
	Msg     c8ID
	Recent  bool
	Deleted bool
}

type c8Mbox struct {
	ID          uint64
	RemoteID    string
	Name        string
	UIDValidity uint32
	Subscribed  bool
	Flags       c8Set
	Perm        c8Set
	Attrs       c8Set
	UIDNext     uint32          // the UID the next added message gets; never goes back
	Rows        []c8Row         // ascending UID; slice is replaced, not mutated
	In          map[c8ID]uint32 // message -> UID; replaced, not mutated
}

func (b *c8Mbox) clone() *c8Mbox { c := *b; return &c }

func (b *c8Mbox) recentCount() int {
	n := 0
	for _, r := range b.Rows {
		if r.Recent {
			n++
		}
	}
	return n
}

type c8Msg struct {
	ID        c8ID
	RemoteID  string
	Date      time.Time
	Size      int
	Body      string
	Structure string
	Envelope  string
	Deleted   bool
	Flags     c8Set
}

type c8Model struct {
	NextMbox uint64
	Mboxes   map[uint64]*c8Mbox // entries are replaced (clone-on-write), never mutated in place
	ByRemote map[string]uint64
	ByName   map[string]uint64
	Msgs     map[c8ID]c8Msg
	MsgByRem map[string]c8ID
	DelSubs  map[string]string // name -> remote id
	Settings string
	HasSet   bool
}

func c8NewModel() *c8Model {
	return &c8Model{
		NextMbox: 1,
		Mboxes:   map[uint64]*c8Mbox{},
		ByRemote: map[string]uint64{},
		ByName:   map[string]uint64{},
		Msgs:     map[c8ID]c8Msg{},
		MsgByRem: map[string]c8ID{},
		DelSubs:  map[string]string{},
	}
}

func (m *c8Model) clone() *c8Model {
	c := &c8Model{
		NextMbox: m.NextMbox,
		Mboxes:   make(map[uint64]*c8Mbox, len(m.Mboxes)),
		ByRemote: make(map[string]uint64, len(m.ByRemote)),
		ByName:   make(map[string]uint64, len(m.ByName)),
		Msgs:     make(map[c8ID]c8Msg, len(m.Msgs)),
		MsgByRem: make(map[string]c8ID, len(m.MsgByRem)),
		DelSubs:  make(map[string]string, len(m.DelSubs)),
		Settings: m.Settings,
		HasSet:   m.HasSet,
	}
	for k, v := range m.Mboxes {
		c.Mboxes[k] = v // shared until written (see mut)
	}
	for k, v := range m.ByRemote {
		c.ByRemote[k] = v
	}
	for k, v := range m.ByName {
		c.ByName[k] = v
	}
	for k, v := range m.Msgs {
		c.Msgs[k] = v
	}
	for k, v := range m.MsgByRem {
		c.MsgByRem[k] = v
	}
	for k, v := range m.DelSubs {
		c.DelSubs[k] = v
	}
	return c
}

// mut returns a private copy of the mailbox that may be modified and stores it.
func (m *c8Model) mut(id uint64) *c8Mbox {
	b := m.Mboxes[id].clone()
	m.Mboxes[id] = b
	return b
}

func (m *c8Model) mboxIDs() []uint64 {
	ids := make([]uint64, 0, len(m.Mboxes))
	for id := range m.Mboxes {
		ids = append(ids, id)
	}
	sort.Slice(ids, func(i, j int) bool { return ids[i] < ids[j] })
	return ids
}

// ---- model operations (effects only; the callers decide about nonsense input) ----

func (m *c8Model) createMailbox(rid, name string, flags, perm, attrs c8Set, uidv uint32) *c8Mbox {
	b := &c8Mbox{ID: m.NextMbox, RemoteID: rid, Name: name, UIDValidity: uidv, Subscribed: true,
		Flags: flags, Perm: perm, Attrs: attrs, UIDNext: 1, In: map[c8ID]uint32{}}
	m.NextMbox++
	m.Mboxes[b.ID] = b
	m.ByRemote[rid] = b.ID
	m.ByName[name] = b.ID
	// a subscription that outlived an earlier mailbox of this name ends with the new mailbox
	// (contract since the repair of F-C14-resub)
	delete(m.DelSubs, name)
	return b
}

func (m *c8Model) deleteMailbox(id uint64) {
	b := m.Mboxes[id]
	delete(m.Mboxes, id)
	delete(m.ByRemote, b.RemoteID)
	delete(m.ByName, b.Name)
}

// addToMailbox appends the messages (all must exist and not be members) and returns the new rows.
func (m *c8Model) addToMailbox(id uint64, msgs []c8ID) []c8Row {
	b := m.mut(id)
	rows := make([]c8Row, len(b.Rows), len(b.Rows)+len(msgs))
	copy(rows, b.Rows)
	in := make(map[c8ID]uint32, len(b.In)+len(msgs))
	for k, v := range b.In {
		in[k] = v
	}
	added := make([]c8Row, 0, len(msgs))
	for _, id := range msgs {
		r := c8Row{UID: b.UIDNext, Msg: id, Recent: true}
		b.UIDNext++
		rows = append(rows, r)
		in[id] = r.UID
		added = append(added, r)
	}
	b.Rows, b.In = rows, in
	return added
}

func (m *c8Model) removeFromMailbox(id uint64, msgs []c8ID) int {
	b := m.Mboxes[id]
	drop := map[c8ID]bool{}
	for _, x := range msgs {
		if _, ok := b.In[x]; ok {
			drop[x] = true
		}
	}
	if len(drop) == 0 {
		return 0
	}
	b = m.mut(id)
	rows := make([]c8Row, 0, len(b.Rows))
	in := make(map[c8ID]uint32, len(b.In))
	for _, r := range b.Rows {
		if !drop[r.Msg] {
			rows = append(rows, r)
			in[r.Msg] = r.UID
		}
	}
	b.Rows, b.In = rows, in
	return len(drop)
}

// updRows applies f to a private copy of the rows of a mailbox.
func (m *c8Model) updRows(id uint64, f func(r *c8Row)) {
	b := m.mut(id)
	rows := make([]c8Row, len(b.Rows))
	copy(rows, b.Rows)
	for i := range rows {
		f(&rows[i])
	}
	b.Rows = rows
}

// mailboxesOf returns the mailboxes a message is a member of, ascending.
func (m *c8Model) mailboxesOf(id c8ID) []uint64 {
	var out []uint64
	for _, mb := range m.mboxIDs() {
		if _, ok := m.Mboxes[mb].In[id]; ok {
			out = append(out, mb)
		}
	}
	return out
}

func (m *c8Model) isMember(id c8ID) bool {
	for _, b := range m.Mboxes {
		if _, ok := b.In[id]; ok {
			return true
		}
	}
	return false
}

func (m *c8Model) createMessage(x c8Msg) {
	m.Msgs[x.ID] = x
	m.MsgByRem[x.RemoteID] = x.ID
}

func (m *c8Model) deleteMessage(id c8ID) {
	if x, ok := m.Msgs[id]; ok {
		delete(m.Msgs, id)
		delete(m.MsgByRem, x.RemoteID)
	}
}

func (m *c8Model) setRemote(id c8ID, rid string) {
	x := m.Msgs[id]
	delete(m.MsgByRem, x.RemoteID)
	x.RemoteID = rid
	m.Msgs[id] = x
	m.MsgByRem[rid] = id
}
