package props

import (
	"bytes"
	"fmt"
	"github.com/ProtonMail/gluon/imap"
	"sort"
	"strconv"
	"strings"
	"time"

	"verifharness/core"
	"verifharness/gen"
	"verifharness/wire"
	"verifharness/world"
)

// C15 — SEARCH returns exactly the messages of the session's own view that satisfy the
// key expression.
//
// Session 0 searches; session 1 changes the mailbox behind its back (scheduling mode M:
// the updates for session 0 wait at its gate until a "deliver" action lets some of them
// through, and removals that were let through stay in the view until a command that may
// announce them).  Before a search the searching session asks for everything a client
// can be told about its view (FETCH 1:* UID FLAGS INTERNALDATE RFC822.SIZE and the
// marker header); the key tree is then evaluated by a direct interpreter over exactly
// that, plus what the generator knows about each marker.
type C15 struct{}

func (C15) ID() string { return "C15" }

const c15Box = "box1"

var c15Kinds = []string{"search", "append", "store", "expunge", "ownstore", "deliver", "noop", "reselect", "cdelete"}

func (C15) Generate(r *core.Rand, tier string, idx int) *core.Scenario {
	sc := &core.Scenario{Property: "C15", Cfg: map[string]int{}}
	sc.Cfg["nopar"] = r.Intn(2)
	sc.Cfg["lit"] = r.Intn(2)
	if r.P(1, 6) {
		sc.Cfg["day1"] = 1 // dates with a one-digit day
	}
	if r.P(1, 6) {
		sc.Cfg["uidabove"] = 1 // UID n:* with n above the highest UID (sent, not judged)
	}
	// input classes whose defects were repaired (see known_findings.json): each in half of the runs
	for _, k := range []struct {
		name string
		den  int
	}{{"tz", 2}, {"duphdr", 2}, {"hdrempty", 2}, {"emptyuid", 2}, {"charsetx", 2}, {"baddate", 2}, {"overlap", 3}} {
		if r.P(1, k.den) {
			sc.Cfg[k.name] = 1
		}
	}
	ints := func(n int) []int {
		a := make([]int, n)
		for i := range a {
			a[i] = r.Intn(1000)
		}
		return a
	}
	n0 := r.Range(1, 9)
	if r.P(1, 12) {
		n0 = 0
	}
	if idx%16 == 5 {
		n0 = r.Range(25, 60) // a mailbox large enough for several parallel search workers
	}
	for i := 0; i < n0; i++ {
		sc.Actions = append(sc.Actions, core.Action{K: "append", A: ints(2)})
	}
	sc.Actions = append(sc.Actions, core.Action{K: "reselect", A: ints(2)})
	n := r.Range(15, 40)
	//                search app sto exp own del noop resel
	weights := []int{50, 6, 9, 6, 3, 9, 3, 1, 3}
	for i := 0; i < n; i++ {
		k := c15Kinds[r.Weighted(weights)]
		a := core.Action{K: k}
		if k == "search" {
			a.A = ints(44)
		} else {
			a.A = ints(8)
		}
		sc.Actions = append(sc.Actions, a)
	}
	return sc
}

type c15Run struct {
	e          *Env
	s0, s1     *world.Sess
	sel0, sel1 bool
	msgs       map[int]*c15Msg
	nextMark   int
	view       c15View
	dirty      bool
	judged     int
	maxView    int
	crossed    int
	kinds      map[string]int
}

func (C15) Execute(sc *core.Scenario, keepLog bool) *core.Result {
	cfg := world.Config{
		Users:              []world.UserCfg{{Names: []string{"user"}, Password: "pass"}},
		DisableParallelism: sc.C("nopar") == 1,
		Gate:               true,
	}
	return RunInBubble("C15", sc, keepLog, cfg, func(e *Env) {
		x := &c15Run{e: e, msgs: map[int]*c15Msg{}, dirty: true, kinds: map[string]int{}}
		u := e.W.Users[0]
		for i := 0; i < 2; i++ {
			s, err := e.W.Connect()
			if err != nil {
				e.Infra = err
				return
			}
			if r := s.Cmd("LOGIN %s %s", u.Cfg.Names[0], u.Cfg.Password); !r.OK() {
				e.Infra = fmt.Errorf("LOGIN failed: %s %s", r.Status, r.Text)
				return
			}
			s.User = 0
			if i == 0 {
				x.s0 = s
			} else {
				x.s1 = s
			}
		}
		if r := x.s1.Cmd("CREATE %s", c15Box); !r.OK() {
			e.Infra = fmt.Errorf("CREATE failed: %s %s", r.Status, r.Text)
			return
		}
		for i, a := range sc.Actions {
			e.Step = i + 1
			x.exec(a)
			x.checkPanics("")
			x.streamViol()
			if e.Failed() {
				break
			}
		}
		for _, k := range core.SortedKeys(x.kinds) {
			e.St.Probes["key_"+k] += x.kinds[k]
		}
		e.St.Nontrivial = x.judged >= 5 && x.maxView >= 2
	})
}

// checkPanics turns a panic recorded by the server's panic handler into the violation of
// the run.  The stack is reduced to the gluon frames without argument values, so that
// the same run gives the same text in every process.
func (x *c15Run) checkPanics(during string) {
	e := x.e
	if e.W == nil || len(e.W.Panics) == 0 || e.V != nil {
		return
	}
	p := e.W.Panics[0]
	var frames []string
	lines := strings.Split(p, "\n")
	for i, l := range lines {
		if strings.HasPrefix(l, "github.com/ProtonMail/gluon/") && !strings.Contains(l, "/async.HandlePanic") {
			fn := l
			if j := strings.LastIndexByte(fn, '('); j > 0 {
				fn = fn[:j]
			}
			fn = strings.TrimPrefix(fn, "github.com/ProtonMail/gluon/")
			if i+1 < len(lines) {
				loc := strings.TrimSpace(lines[i+1])
				if j := strings.Index(loc, "/gluon/"); j >= 0 {
					loc = loc[j+len("/gluon/"):]
				}
				if j := strings.IndexByte(loc, ' '); j >= 0 {
					loc = loc[:j]
				}
				fn += " (" + loc + ")"
			}
			frames = append(frames, fn)
			if len(frames) == 4 {
				break
			}
		}
	}
	what := ""
	if during != "" {
		what = " while answering " + during
	}
	e.FailSig("panic", firstLine(p), "server goroutine panicked%s: %s; at %s", what, firstLine(p), strings.Join(frames, " <- "))
}

func (x *c15Run) streamViol() {
	for _, s := range []*world.Sess{x.s0, x.s1} {
		for _, v := range s.Viol {
			x.e.Fail("stream", "%s: %s", s.Label, v)
		}
	}
}

func (x *c15Run) selectBox(s *world.Sess, examine bool) bool {
	verb := "SELECT"
	if examine {
		verb = "EXAMINE"
	}
	s.M.Reset(c15Box, examine)
	r := s.Cmd("%s %s", verb, c15Box)
	x.e.Tr.Event(verb, s.Idx, r.Status, s.M.Count())
	if !r.OK() {
		x.e.Fail("setup", "%s %s answered %s %s", verb, c15Box, r.Status, r.Text)
		return false
	}
	return true
}

func (x *c15Run) ensureSel0() bool {
	if x.sel0 {
		return true
	}
	// updates queued before SELECT would be applied to the later snapshot (finding F09)
	x.s0.ReleaseUpdates(-1)
	x.sel0 = x.selectBox(x.s0, false)
	x.dirty = true
	return x.sel0
}

// fresh1 brings the changing session up to date and makes sure it has the mailbox open.
func (x *c15Run) fresh1() bool {
	x.s1.ReleaseUpdates(-1)
	if !x.sel1 {
		x.sel1 = x.selectBox(x.s1, false)
		return x.sel1
	}
	r := x.s1.Cmd("NOOP")
	return r.OK()
}

func (x *c15Run) exec(a core.Action) {
	e := x.e
	switch a.K {
	case "cdelete":
		// the remote deletes a message: it is marked deleted in the index but stays in the
		// searching session's view until a command may announce the EXPUNGE
		u := e.W.Users[0]
		ids := make([]string, 0, len(u.Conn.Msgs))
		for id := range u.Conn.Msgs {
			ids = append(ids, string(id))
		}
		sort.Strings(ids)
		if len(ids) == 0 {
			return
		}
		id := imap.MessageID(ids[abs(a.Arg(0))%len(ids)])
		res := e.W.Submit(u, imap.NewMessagesDeleted(id))
		u.Conn.ForgetMessage(id)
		e.Tr.Event("cdelete", string(id), res.Done, res.Err != nil)
		e.St.Probes["remote_deleted"]++
		if x.sel0 {
			x.crossed++
		}
	case "append":
		x.nextMark++
		m := c15Build(x.nextMark, core.NewRand(core.Mix(e.Sc.Seed, uint64(a.Arg(0))*7919+uint64(x.nextMark))), e.Sc.C("tz") == 1, e.Sc.C("duphdr") == 1, e.Sc.C("day1") == 1, e.Sc.C("baddate") == 1, e.Sc.C("overlap") == 1)
		x.msgs[m.Marker] = m
		before := "APPEND " + c15Box + " "
		if len(m.Flags) > 0 {
			before += "(" + strings.Join(m.Flags, " ") + ") "
		}
		if m.DateTime != "" {
			before += `"` + m.DateTime + `" `
		}
		x.s1.ReleaseUpdates(-1) // the changing session never works on a stale view
		r := x.s1.Do(wire.WithLiteral(before, m.Bytes, ""))
		e.Tr.Event("append", m.Marker, len(m.Bytes), m.DateTime, strings.Join(m.Flags, ","), r.Status)
		if !r.OK() {
			e.Fail("setup", "APPEND of generator message <%d> (%q) answered %s %s", m.Marker, before, r.Status, r.Text)
			return
		}
		if x.sel0 {
			x.crossed++
		}
	case "store", "expunge":
		if !x.fresh1() {
			return
		}
		n := x.s1.M.Count()
		if n == 0 {
			return
		}
		set, _ := SeqSet(a.Arg(0), a.Arg(1), a.Arg(2), n)
		if a.K == "expunge" {
			if a.Arg(0)%6 == 2 && a.Arg(3)%4 != 0 {
				set = strconv.Itoa(1 + a.Arg(1)%n) // emptying the mailbox is the rare case
			}
			r := x.s1.Cmd("STORE %s +FLAGS.SILENT (\\Deleted)", set)
			r2 := x.s1.Cmd("EXPUNGE")
			e.Tr.Event("expunge", set, r.Status, r2.Status, x.s1.M.Count())
			if !r.OK() || !r2.OK() {
				e.Fail("setup", "STORE %s +FLAGS.SILENT (\\Deleted) / EXPUNGE answered %s / %s", set, r.Status, r2.Status)
			}
		} else {
			op := a.Arg(3) % 3
			flags := FlagsFromMask(a.Arg(4)&0x7f, 0)
			if len(flags) == 0 && op != 0 {
				flags = []string{`\Seen`}
			}
			item := []string{"FLAGS", "+FLAGS", "-FLAGS"}[op]
			r := x.s1.Cmd("STORE %s %s (%s)", set, item, strings.Join(flags, " "))
			e.Tr.Event("store", set, item, strings.Join(flags, " "), r.Status)
			if !r.OK() {
				e.Fail("setup", "STORE %s %s (%s) answered %s %s", set, item, strings.Join(flags, " "), r.Status, r.Text)
			}
		}
		if x.sel0 {
			x.crossed++
		}
	case "ownstore":
		if !x.ensureSel0() || x.s0.M.ReadOnly {
			return
		}
		// a session's own change overtaking updates queued for it is finding F07
		x.s0.ReleaseUpdates(-1)
		x.s0.Cmd("NOOP")
		x.dirty = true
		n := x.s0.M.Count()
		if n == 0 {
			return
		}
		set, _ := SeqSet(a.Arg(0), a.Arg(1), a.Arg(2), n)
		op := a.Arg(3) % 3
		flags := FlagsFromMask(a.Arg(4)&0x7f, 0)
		if len(flags) == 0 {
			flags = []string{`\Flagged`}
		}
		item := []string{"FLAGS", "+FLAGS", "-FLAGS"}[op]
		r := x.s0.Cmd("STORE %s %s (%s)", set, item, strings.Join(flags, " "))
		e.Tr.Event("ownstore", set, item, strings.Join(flags, " "), r.Status)
		x.dirty = true
	case "deliver":
		k := 1 + a.Arg(0)%3
		if a.Arg(0)%5 == 4 {
			k = -1
		}
		n := x.s0.ReleaseUpdates(k)
		e.Tr.Event("deliver", n)
		if n > 0 {
			e.St.Faults["update_delay"] += n
			x.dirty = true
		}
	case "noop":
		if !x.ensureSel0() {
			return
		}
		r := x.s0.Cmd("NOOP")
		e.Tr.Event("noop", r.Status, x.s0.M.Count())
		x.dirty = true
	case "reselect":
		x.s0.ReleaseUpdates(-1)
		x.sel0 = x.selectBox(x.s0, a.Arg(0)%4 == 3)
		x.dirty = true
	case "search":
		x.search(a)
	}
}

// ---- learning the view ----

var c15LookItems = "(UID FLAGS INTERNALDATE RFC822.SIZE BODY.PEEK[HEADER.FIELDS (X-Sim-Marker X-Pm-Gluon-Id)])"

// look asks for everything the client can be told about its view, until nothing
// unsolicited arrives any more (updates that were let through before are flushed by the
// first command).  FETCH never announces removals, so a message that was expunged
// elsewhere stays in the view — and in the mirror.
func (x *c15Run) look() bool {
	e := x.e
	s := x.s0
	for attempt := 0; attempt < 5; attempt++ {
		n := s.M.Count()
		if n == 0 {
			r := s.Cmd("CHECK") // flushes what was let through; nothing to fetch
			if !r.OK() {
				e.Fail("look", "CHECK answered %s %s", r.Status, r.Text)
				return false
			}
			if s.M.Count() == 0 {
				x.view = c15View{}
				x.dirty = false
				return true
			}
			continue
		}
		r := s.Cmd("FETCH 1:* %s", c15LookItems)
		if r.Err != nil || !r.OK() {
			e.Fail("look", "FETCH 1:* %s over a view of %d messages answered %s %s (%v)", c15LookItems, n, r.Status, r.Text, r.Err)
			return false
		}
		rows := make([]c15Row, n)
		unsolicited := false
		for _, l := range r.Lines {
			num, kw, ok := l.Num()
			if !ok {
				continue
			}
			if kw != "FETCH" {
				if kw == "EXISTS" || kw == "EXPUNGE" {
					unsolicited = true
				}
				continue
			}
			fd, err := wire.ParseFetch(l)
			if err != nil {
				e.Fail("look", "unparsable FETCH line: %v", err)
				return false
			}
			if int(num) < 1 || int(num) > n {
				unsolicited = true
				continue
			}
			row := &rows[num-1]
			if _, full := fd.Items["INTERNALDATE"]; !full {
				unsolicited = true
				continue
			}
			if row.complete {
				e.Fail("look", "two FETCH responses for sequence number %d in one FETCH 1:*", num)
				return false
			}
			row.Seq = int(num)
			row.UID = fd.UID
			row.Recent = fd.Recent
			row.Flags = map[string]bool{}
			for _, f := range fd.Flags {
				row.Flags[f] = true
			}
			t, err := time.Parse("02-Jan-2006 15:04:05 -0700", fd.Items["INTERNALDATE"].Str)
			if err != nil {
				e.Fail("look", "INTERNALDATE %q of sequence number %d does not parse", fd.Items["INTERNALDATE"].Str, num)
				return false
			}
			row.Instant = t
			row.Y, row.M, row.D = t.Year(), int(t.Month()), t.Day()
			row.Size, _ = strconv.Atoi(fd.Items["RFC822.SIZE"].Str)
			row.Marker = -1
			for name, nd := range fd.Items {
				if strings.HasPrefix(name, "BODY[") {
					row.Marker = gen.MarkerOf([]byte(nd.Str))
					for _, ln := range strings.SplitAfter(nd.Str, "\r\n") {
						if strings.HasPrefix(strings.ToLower(ln), strings.ToLower(gen.IDHeader)+":") {
							row.IDLine = ln
						}
					}
				}
			}
			row.Msg = x.msgs[row.Marker]
			row.complete = fd.HasUID && fd.HasFlags
		}
		if unsolicited || s.M.Count() != n {
			e.St.Probes["look_again"]++
			continue
		}
		for i := range rows {
			if !rows[i].complete {
				e.Fail("look", "FETCH 1:* over a view of %d messages gave no complete answer for sequence number %d", n, i+1)
				return false
			}
			rw := &rows[i]
			if i > 0 && rows[i-1].UID >= rw.UID {
				e.Fail("look", "UIDs not ascending in the view: seq %d UID %d, seq %d UID %d", i, rows[i-1].UID, i+1, rw.UID)
				return false
			}
			if rw.Msg != nil {
				// what the session is told must agree with what was stored (C13 judges FETCH in
				// general; here a disagreement would make the SEARCH oracle meaningless)
				if want := len(rw.Msg.Bytes) + len(rw.IDLine); rw.Size != want {
					e.Fail("told-size", "RFC822.SIZE of message <%d> is %d, the stored message (with the ID header line) has %d bytes", rw.Marker, rw.Size, want)
					return false
				}
				if rw.Msg.DateTime != "" && !rw.Instant.Equal(rw.Msg.Instant) {
					e.Fail("told-date", "INTERNALDATE of message <%d> is %s, it was appended with %q", rw.Marker, rw.Instant.Format(time.RFC3339), rw.Msg.DateTime)
					return false
				}
			}
			if rw.Recent {
				e.St.Probes["row_recent"]++
			} else {
				e.St.Probes["row_not_recent"]++
			}
		}
		x.view = c15View{Rows: rows}
		x.dirty = false
		if n > x.maxView {
			x.maxView = n
		}
		x.staleness()
		return true
	}
	e.Fail("look", "the view of the searching session did not settle after 5 FETCH 1:* commands")
	return false
}

// staleness records (for the evidence only) how the searching session's view differs
// from the mailbox as the changing session, brought up to date, sees it.
func (x *c15Run) staleness() {
	if !x.sel1 || len(x.view.Rows) == 0 {
		return
	}
	if !x.fresh1() || x.s1.M.Count() == 0 {
		if x.s1.M.Count() == 0 {
			x.e.St.Probes["view_holds_expunged"]++
		}
		return
	}
	r := x.s1.Cmd("FETCH 1:* (UID FLAGS)")
	live := map[uint32]string{}
	for _, l := range r.Lines {
		if _, kw, ok := l.Num(); ok && kw == "FETCH" {
			if fd, err := wire.ParseFetch(l); err == nil && fd.HasUID {
				live[fd.UID] = strings.Join(fd.Flags, " ")
			}
		}
	}
	expunged, flagdiff := false, false
	for _, rw := range x.view.Rows {
		fl, ok := live[rw.UID]
		if !ok {
			expunged = true
			continue
		}
		var mine []string
		for f := range rw.Flags {
			mine = append(mine, f)
		}
		sort.Strings(mine)
		if strings.Join(mine, " ") != fl {
			flagdiff = true
		}
	}
	if expunged {
		x.e.St.Probes["view_holds_expunged"]++
	}
	if flagdiff {
		x.e.St.Probes["view_has_stale_flags"]++
	}
	{
		for u := range live {
			found := false
			for _, rw := range x.view.Rows {
				if rw.UID == u {
					found = true
				}
			}
			if !found {
				x.e.St.Probes["view_lacks_new_message"]++
				break
			}
		}
	}
}

func (v *c15View) String() string {
	var sb strings.Builder
	sb.WriteByte('[')
	for i, r := range v.Rows {
		if i > 0 {
			sb.WriteByte(' ')
		}
		var fl []string
		for f := range r.Flags {
			fl = append(fl, f)
		}
		sort.Strings(fl)
		if r.Recent {
			fl = append(fl, `\recent`)
		}
		fmt.Fprintf(&sb, "%d:uid%d<%d>{%s}%dB@%04d-%02d-%02d", r.Seq, r.UID, r.Marker, strings.Join(fl, ","), r.Size, r.Y, r.M, r.D)
	}
	sb.WriteByte(']')
	return sb.String()
}

// ---- searching ----

type c15Answer struct {
	ok   bool
	seqs []uint32
}

func c15Cmd(prefix string, segs []c15Seg) wire.Cmd {
	var parts [][]byte
	cur := []byte(prefix)
	var txt strings.Builder
	txt.WriteString(prefix)
	for _, s := range segs {
		if s.IsLit {
			cur = append(cur, []byte(fmt.Sprintf("{%d}\r\n", len(s.Lit)))...)
			parts = append(parts, cur)
			cur = append([]byte(nil), s.Lit...)
			fmt.Fprintf(&txt, "{%d}%s", len(s.Lit), s.Lit)
		} else {
			cur = append(cur, s.Text...)
			txt.WriteString(s.Text)
		}
	}
	cur = append(cur, '\r', '\n')
	parts = append(parts, cur)
	return wire.Cmd{Parts: parts, Text: txt.String()}
}

func c15Charset(mode int, extra bool) string {
	switch mode % 8 {
	case 3:
		return "CHARSET UTF-8 "
	case 4:
		return "CHARSET US-ASCII "
	case 5:
		return "charset utf-8 "
	case 6:
		return "CHARSET \"ISO-8859-1\" "
	case 7:
		if extra {
			return "CHARSET ISO-2022-CN "
		}
	}
	return ""
}

// ask sends one SEARCH (sequence or UID form) and applies the checks that need no
// interpreter: completion, one SEARCH response, strictly ascending numbers that exist in
// the view.
func (x *c15Run) ask(uid bool, charset string, k *c15Key) ([]uint32, bool) {
	e := x.e
	prefix := "SEARCH " + charset
	if uid {
		prefix = "UID " + prefix
	}
	cmd := c15Cmd(prefix, k.Segs)
	r := x.s0.Do(cmd)
	ids, nresp, perr := wire.SearchIDs(r.Lines)
	e.Tr.Event("q", cmd.Text, r.Status, fmt.Sprint(ids))
	x.checkPanics(cmd.Text)
	if e.Failed() {
		return nil, false
	}
	if r.Err != nil {
		e.Fail("protocol", "%s: %v", cmd.Text, r.Err)
		return nil, false
	}
	if r.Status == "NO" && strings.Contains(charset, "ISO-2022-CN") && strings.Contains(r.Code, "BADCHARSET") {
		// a charset the server does not support must be refused with a tagged NO (RFC 3501 6.4.4)
		e.St.Probes["badcharset_refused"]++
		return nil, false
	}
	if !r.OK() {
		e.FailSig("search-status", strings.TrimPrefix(core.NormSig("", r.Status+" "+r.Text), ": "), "%s over a view of %d messages answered %s %s", cmd.Text, len(x.view.Rows), r.Status, r.Text)
		return nil, false
	}
	for _, l := range r.Lines {
		if _, kw, ok := l.Num(); ok && (kw == "EXISTS" || kw == "EXPUNGE" || kw == "FETCH") {
			// the view moved under the search: not judged (cannot happen after look)
			e.St.Probes["search_with_unsolicited"]++
			x.dirty = true
			return nil, false
		}
	}
	if perr != nil || nresp > 1 {
		e.Fail("search-format", "%s: %d SEARCH responses, %v", cmd.Text, nresp, perr)
		return nil, false
	}
	for i := 1; i < len(ids); i++ {
		if ids[i] <= ids[i-1] {
			e.FailSig("search-order", "order", "%s returned %v: not strictly ascending (duplicate or out of order)", cmd.Text, ids)
			return nil, false
		}
	}
	return ids, true
}

// judge compares an answer with the interpreter's evaluation of the key over the view.
func (x *c15Run) judge(uid bool, text string, k *c15Key, ids []uint32) (bad string) {
	got := map[uint32]bool{}
	for _, id := range ids {
		got[id] = true
	}
	x.e.St.Checks++
	x.judged++
	known := map[uint32]bool{}
	for i := range x.view.Rows {
		rw := &x.view.Rows[i]
		id := uint32(rw.Seq)
		if uid {
			id = rw.UID
		}
		known[id] = true
		switch k.Eval(&x.view, rw) {
		case triT:
			if !got[id] {
				return fmt.Sprintf("sequence number %d (UID %d, message <%d>) satisfies the key but is missing", rw.Seq, rw.UID, rw.Marker)
			}
		case triF:
			if got[id] {
				return fmt.Sprintf("sequence number %d (UID %d, message <%d>) does not satisfy the key but was returned", rw.Seq, rw.UID, rw.Marker)
			}
		default:
			x.e.St.Probes["unknown_verdicts"]++
		}
	}
	for _, id := range ids {
		if !known[id] {
			return fmt.Sprintf("number %d is not in the session's view", id)
		}
	}
	return ""
}

// query asks for the key in sequence form (and UID form), judges both with the
// interpreter and checks that UID SEARCH gives the UIDs of the SEARCH result.
func (x *c15Run) query(k *c15Key, withUID bool, charset string, diagnose bool) ([]uint32, bool) {
	e := x.e
	ids, ok := x.ask(false, charset, k)
	if !ok {
		return nil, false
	}
	if len(ids) > 0 {
		e.St.Probes["search_nonempty"]++
	} else {
		e.St.Probes["search_empty"]++
	}
	text := "SEARCH " + charset + k.String()
	if bad := x.judge(false, text, k, ids); bad != "" {
		sig := k.Kind
		if len(k.Kids) > 0 {
			sig = "TREE " + k.Kind
			if diagnose {
				x.diagnose(k, charset)
			}
		}
		e.FailSig("search-result", sig, "%s returned %v: %s; view %s", text, ids, bad, x.view.String())
		return nil, false
	}
	if withUID {
		uids, ok := x.ask(true, charset, k)
		if !ok {
			return nil, false
		}
		var want []uint32
		for _, q := range ids {
			want = append(want, x.view.Rows[q-1].UID)
		}
		if fmt.Sprint(want) != fmt.Sprint(uids) {
			e.FailSig("uid-search", "uid-vs-seq", "UID %s returned %v, but SEARCH of the same key returned %v = UIDs %v; view %s", text, uids, ids, want, x.view.String())
			return nil, false
		}
		e.St.Checks++
	}
	return ids, true
}

// diagnose looks for the smallest part of a wrongly answered key tree that is itself
// answered wrongly, so that the violation names one key.
func (x *c15Run) diagnose(root *c15Key, charset string) {
	var walk func(k *c15Key) bool
	walk = func(k *c15Key) bool {
		for _, c := range k.Kids {
			if walk(c) {
				return true
			}
		}
		if k == root {
			return false
		}
		ids, ok := x.ask(false, charset, k)
		if !ok {
			return x.e.Failed()
		}
		if bad := x.judge(false, "", k, ids); bad != "" {
			x.e.FailSig("search-result", k.Kind, "SEARCH %s%s returned %v: %s; view %s", charset, k.String(), ids, bad, x.view.String())
			return true
		}
		return false
	}
	walk(root)
}

func c15SetOf(ids []uint32) map[uint32]bool {
	m := map[uint32]bool{}
	for _, i := range ids {
		m[i] = true
	}
	return m
}

func (x *c15Run) search(a core.Action) {
	e := x.e
	if !x.ensureSel0() {
		return
	}
	if x.dirty && !x.look() {
		return
	}
	if x.s0.HasPendingUpdate() {
		e.St.Probes["search_with_parked_updates"]++
	}
	form := a.Arg(0) % 6
	withUID := a.Arg(1)%3 != 0
	charset := c15Charset(a.Arg(2), e.Sc.C("charsetx") == 1)
	if charset != "" {
		e.St.Probes["charset_given"]++
	}
	var tree []int
	if len(a.A) > 4 {
		tree = a.A[4:]
	}
	g := &c15Gen{a: tree, v: &x.view, lit: e.Sc.C("lit") == 1, hdrEmpty: e.Sc.C("hdrempty") == 1, uidAbove: e.Sc.C("uidabove") == 1, kinds: x.kinds}
	if len(x.view.Rows) == 0 && e.Sc.C("emptyuid") == 0 {
		// UID keys over an empty view are answered NO (reported separately)
		g.a = nil
	}
	n := uint32(len(x.view.Rows))
	switch form {
	case 5:
		// a string with a non-ASCII letter, sent in the charset the command names: as
		// ISO-8859-1 bytes with CHARSET ISO-8859-1, as UTF-8 bytes with CHARSET UTF-8; both must
		// find the word written in UTF-8 in the messages, for every key that takes a string
		word := "caf\xc3\xa9"
		wire8 := []byte(word)
		cs := "CHARSET UTF-8 "
		if a.Arg(2)%2 == 0 {
			wire8, cs = []byte("caf\xe9"), "CHARSET ISO-8859-1 "
		}
		if a.Arg(3)%5 == 4 {
			word, wire8 = "caf\xc3\xa8", append(append([]byte(nil), wire8[:3]...), wire8[3:]...) // (kept simple: the absent variant is UTF-8 only)
			wire8, cs = []byte(word), "CHARSET UTF-8 "
		}
		lit := []c15Seg{{IsLit: true, Lit: wire8}}
		var k *c15Key
		switch a.Arg(3) % 3 {
		case 0:
			k = &c15Key{Kind: "SUBJECT", Segs: c15Join(c15Text("SUBJECT "), lit), Eval: func(_ *c15View, r *c15Row) tri {
				if r.Msg == nil {
					return triU
				}
				return c15HeaderMatch(r.Msg.Hdr["subject"], word)
			}}
		case 1:
			k = &c15Key{Kind: "HEADER", Segs: c15Join(c15Text("HEADER Subject "), lit), Eval: func(_ *c15View, r *c15Row) tri {
				if r.Msg == nil {
					return triU
				}
				if len(r.Msg.Hdr["subject"]) == 0 {
					return triF
				}
				return c15HeaderMatch(r.Msg.Hdr["subject"], word)
			}}
		default:
			k = &c15Key{Kind: "BODY", Segs: c15Join(c15Text("BODY "), lit), Eval: func(_ *c15View, r *c15Row) tri {
				if r.Msg == nil || !r.Msg.BodyJudged {
					return triU
				}
				raw := bytes.Contains(r.Msg.Body, []byte(word))
				if r.Msg.Multipart && raw != bytes.Contains(r.Msg.TextOnly, []byte(word)) {
					return triU
				}
				return triOf(raw)
			}}
		}
		e.St.Probes["latin1_probe"]++
		x.query(k, withUID, cs, true)
	case 0:
		k := g.build(0)
		x.query(k, withUID, charset, true)
	case 1:
		k := g.build(1)
		not := &c15Key{Kind: "NOT", Kids: []*c15Key{k}, Segs: c15Join(c15Text("NOT "), k.Segs), Eval: func(v *c15View, r *c15Row) tri { return triNot(k.Eval(v, r)) }}
		rk, ok := x.query(k, false, charset, true)
		if !ok {
			return
		}
		rn, ok := x.query(not, withUID, charset, true)
		if !ok {
			return
		}
		in := c15SetOf(rk)
		var want []uint32
		for i := uint32(1); i <= n; i++ {
			if !in[i] {
				want = append(want, i)
			}
		}
		e.St.Checks++
		if fmt.Sprint(want) != fmt.Sprint(rn) {
			e.FailSig("algebra-not", "not", "SEARCH %s returned %v and SEARCH %s returned %v, which is not its complement in 1..%d", k.String(), rk, not.String(), rn, n)
		}
	case 2:
		ka, kb := g.build(1), g.build(1)
		or := &c15Key{Kind: "OR", Kids: []*c15Key{ka, kb}, Segs: c15Join(c15Text("OR "), ka.Segs, c15Text(" "), kb.Segs), Eval: func(v *c15View, r *c15Row) tri { return triOr(ka.Eval(v, r), kb.Eval(v, r)) }}
		ra, ok := x.query(ka, false, charset, true)
		if !ok {
			return
		}
		rb, ok := x.query(kb, false, charset, true)
		if !ok {
			return
		}
		ro, ok := x.query(or, withUID, charset, true)
		if !ok {
			return
		}
		sa, sb := c15SetOf(ra), c15SetOf(rb)
		var want []uint32
		for i := uint32(1); i <= n; i++ {
			if sa[i] || sb[i] {
				want = append(want, i)
			}
		}
		e.St.Checks++
		if fmt.Sprint(want) != fmt.Sprint(ro) {
			e.FailSig("algebra-or", "or", "SEARCH %s returned %v, SEARCH %s returned %v, but SEARCH %s returned %v, which is not their union", ka.String(), ra, kb.String(), rb, or.String(), ro)
		}
	case 4:
		// BEFORE d, ON d, SINCE d of one date: BEFORE and SINCE are complements, ON lies
		// inside SINCE (from the server's own answers)
		ks := g.dateTriple()
		var rs [3][]uint32
		for i, k := range ks {
			r, ok := x.ask(false, charset, k)
			if !ok {
				return
			}
			rs[i] = r
		}
		before, on, since := c15SetOf(rs[0]), c15SetOf(rs[1]), c15SetOf(rs[2])
		e.St.Checks++
		undated := map[uint32]bool{} // no date-time in the Date header: no SENT* key is judged
		for j := range x.view.Rows {
			if rw := &x.view.Rows[j]; ks[0].Eval(&x.view, rw) == triU {
				undated[uint32(rw.Seq)] = true
			}
		}
		for i := uint32(1); i <= n; i++ {
			if undated[i] {
				e.St.Probes["date_triple_undated_row"]++
				continue
			}
			if before[i] == since[i] || (on[i] && !since[i]) {
				e.FailSig("algebra-date", "date", "SEARCH %s returned %v, SEARCH %s returned %v, SEARCH %s returned %v: sequence number %d is in both or neither of the first and the third, or in the second but not the third", ks[0].String(), rs[0], ks[1].String(), rs[1], ks[2].String(), rs[2], i)
				return
			}
		}
		for i, k := range ks {
			if bad := x.judge(false, "", k, rs[i]); bad != "" {
				e.FailSig("search-result", k.Kind, "SEARCH %s%s returned %v: %s; view %s", charset, k.String(), rs[i], bad, x.view.String())
				return
			}
		}
	default:
		ka, kb := g.build(1), g.build(1)
		and := func(v *c15View, r *c15Row) tri { return triAnd(ka.Eval(v, r), kb.Eval(v, r)) }
		juxt := &c15Key{Kind: "AND", Kids: []*c15Key{ka, kb}, Segs: c15Join(ka.Segs, c15Text(" "), kb.Segs), Eval: and}
		list := &c15Key{Kind: "LIST", Kids: []*c15Key{ka, kb}, Segs: c15Join(c15Text("("), ka.Segs, c15Text(" "), kb.Segs, c15Text(")")), Eval: and}
		ra, ok := x.query(ka, false, charset, true)
		if !ok {
			return
		}
		rb, ok := x.query(kb, false, charset, true)
		if !ok {
			return
		}
		rj, ok := x.query(juxt, withUID, charset, true)
		if !ok {
			return
		}
		rl, ok := x.query(list, withUID, charset, true)
		if !ok {
			return
		}
		sa, sb := c15SetOf(ra), c15SetOf(rb)
		var want []uint32
		for i := uint32(1); i <= n; i++ {
			if sa[i] && sb[i] {
				want = append(want, i)
			}
		}
		e.St.Checks++
		if fmt.Sprint(want) != fmt.Sprint(rj) || fmt.Sprint(want) != fmt.Sprint(rl) {
			e.FailSig("algebra-and", "and", "SEARCH %s returned %v, SEARCH %s returned %v, but SEARCH %s returned %v and SEARCH %s returned %v: both must be the intersection", ka.String(), ra, kb.String(), rb, juxt.String(), rj, list.String(), rl)
		}
	}
}
