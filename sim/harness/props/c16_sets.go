package props

import (
	"fmt"
	"math/big"
	"sort"
	"strings"
)

// ---- message sets as the check writes them ----
//
// A set is a list of items; an item is a number, '*', or a range of the two.  Numbers
// are arbitrary-precision: the whole point of the property is what happens to values
// that do not fit the server's integer types.  The expected selection is computed here
// with exact arithmetic straight from RFC 3501 (section 9, seq-number / seq-range /
// sequence-set), independently of gluon's parser and resolver.

type c16Num struct {
	Star bool
	V    *big.Int
}

func (n c16Num) String() string {
	if n.Star {
		return "*"
	}
	return n.V.String()
}

type c16Item struct {
	A, B  c16Num
	Range bool
}

func (it c16Item) String() string {
	if it.Range {
		return it.A.String() + ":" + it.B.String()
	}
	return it.A.String()
}

func c16SetText(items []c16Item) string {
	parts := make([]string, len(items))
	for i, it := range items {
		parts[i] = it.String()
	}
	return strings.Join(parts, ",")
}

var (
	c16Two31 = new(big.Int).Lsh(big.NewInt(1), 31)
	c16Two32 = new(big.Int).Lsh(big.NewInt(1), 32)
	c16Two63 = new(big.Int).Lsh(big.NewInt(1), 63)
	c16Two64 = new(big.Int).Lsh(big.NewInt(1), 64)
	// smallest multiple of 2^64 with 40 decimal digits
	c16Forty = func() *big.Int {
		t := new(big.Int).Exp(big.NewInt(10), big.NewInt(39), nil)
		k := new(big.Int).Div(t, c16Two64)
		k.Add(k, big.NewInt(1))
		return k.Mul(k, c16Two64)
	}()
)

// Number kinds (the integer stored in the scenario).  "ref" is a number that addresses
// a message of the current view (a sequence number 1..count, or a UID of the view).
const (
	c16Ref     = iota // a message of the view
	c16Top            // count / highest UID
	c16First          // 1 / lowest UID
	c16Gap            // UID form: a UID below the highest that is not in the view (seq form: ref)
	c16Top1           // top+1
	c16TopMore        // top+2..top+6
	c16One            // 1
	c16Zero           // 0 (not a number of the grammar)
	c16K31m1          // 2^31-1
	c16K31            // 2^31
	c16K32m1          // 2^32-1
	c16K63            // 2^63
	c16K63Ref         // 2^63+ref
	c16K32            // 2^32             (needs cfg wrap32)
	c16K32Ref         // 2^32+ref         (needs cfg wrap32)
	c16K32mRef        // k*2^32+ref       (needs cfg wrap32)
	c16K64            // 2^64             (needs cfg wrap64)
	c16K64Ref         // 2^64+ref         (needs cfg wrap64)
	c16K64mRef        // k*2^64+ref       (needs cfg wrap64)
	c16K40Ref         // 40 digits, = ref modulo 2^64 (needs cfg wrap64)
	c16NumKinds
)

func c16KindClass(kind int) int {
	switch {
	case kind >= c16K64:
		return 2 // wrap64
	case kind >= c16K32:
		return 1 // wrap32
	}
	return 0
}

// c16Number interprets (kind, x) against the view: count messages, uids ascending
// (uids nil in sequence form).
func c16Number(kind, x, count int, uids []uint32) *big.Int {
	x = abs(x)
	uidForm := uids != nil
	ref := int64(1)
	top := int64(count)
	first := int64(1)
	if count > 0 {
		ref = int64(1 + x%count)
		if uidForm {
			ref = int64(uids[x%count])
			top = int64(uids[count-1])
			first = int64(uids[0])
		}
	} else if uidForm {
		ref = int64(1 + x%5)
		top = 0
	}
	bi := big.NewInt
	add := func(a *big.Int, b int64) *big.Int { return new(big.Int).Add(a, bi(b)) }
	mul := func(a *big.Int, k int64) *big.Int { return new(big.Int).Mul(a, bi(k)) }
	switch abs(kind) % c16NumKinds {
	case c16Ref:
		return bi(ref)
	case c16Top:
		if top == 0 {
			return bi(1)
		}
		return bi(top)
	case c16First:
		return bi(first)
	case c16Gap:
		if uidForm && count > 0 {
			var gaps []int64
			have := map[uint32]bool{}
			for _, u := range uids {
				have[u] = true
			}
			for u := int64(1); u < top && len(gaps) < 64; u++ {
				if !have[uint32(u)] {
					gaps = append(gaps, u)
				}
			}
			if len(gaps) > 0 {
				return bi(gaps[x%len(gaps)])
			}
		}
		return bi(ref)
	case c16Top1:
		return bi(top + 1)
	case c16TopMore:
		return bi(top + 2 + int64(x%5))
	case c16One:
		return bi(1)
	case c16Zero:
		return bi(0)
	case c16K31m1:
		return add(c16Two31, -1)
	case c16K31:
		return add(c16Two31, 0)
	case c16K32m1:
		return add(c16Two32, -1)
	case c16K63:
		return add(c16Two63, 0)
	case c16K63Ref:
		return add(c16Two63, ref)
	case c16K32:
		return add(c16Two32, 0)
	case c16K32Ref:
		return add(c16Two32, ref)
	case c16K32mRef:
		return add(mul(c16Two32, int64(2+x%5)), ref)
	case c16K64:
		return add(c16Two64, 0)
	case c16K64Ref:
		return add(c16Two64, ref)
	case c16K64mRef:
		return add(mul(c16Two64, int64(1+x%7)), ref)
	default: // c16K40Ref
		return add(c16Forty, ref)
	}
}

// Item types.
const (
	c16Single = iota
	c16Range
	c16Star
	c16ToStar
	c16FromStar
	c16StarStar
	c16ItemTypes
)

func c16MakeItem(typ int, a, b *big.Int) c16Item {
	star := c16Num{Star: true}
	switch abs(typ) % c16ItemTypes {
	case c16Single:
		return c16Item{A: c16Num{V: a}}
	case c16Range:
		return c16Item{A: c16Num{V: a}, B: c16Num{V: b}, Range: true}
	case c16Star:
		return c16Item{A: star}
	case c16ToStar:
		return c16Item{A: c16Num{V: a}, B: star, Range: true}
	case c16FromStar:
		return c16Item{A: star, B: c16Num{V: a}, Range: true}
	default:
		return c16Item{A: star, B: star, Range: true}
	}
}

func (it c16Item) nums() []c16Num {
	if it.Range {
		return []c16Num{it.A, it.B}
	}
	return []c16Num{it.A}
}

// c16Want is what RFC 3501 (as restated by the property) prescribes for one set.
type c16Want struct {
	Refuse    bool   // the command must be refused and change nothing
	Why       string // reason for Refuse
	MayRefuse bool   // a refusal is as acceptable as selecting Sel (numbers outside the 32-bit grammar in UID form)
	Unjudged  bool   // the completion status is not judged ('*' against an empty view in UID form)
	Sel       []int  // sequence numbers (positions in the view) that must be selected, ascending
	Opt       []int  // positions that may be selected in addition (UID range n:* with n above the highest UID)
	Overlap   bool   // some message is selected by more than one item
}

func c16SortedInts(m map[int]bool) []int {
	out := make([]int, 0, len(m))
	for k := range m {
		out = append(out, k)
	}
	sort.Ints(out)
	return out
}

// c16WantSeq: sequence-number form against a view of n messages.
func c16WantSeq(items []c16Item, n int) c16Want {
	var w c16Want
	bn := big.NewInt(int64(n))
	for _, it := range items {
		for _, x := range it.nums() {
			switch {
			case x.Star:
				if n == 0 {
					w.Refuse, w.Why = true, "'*' has no value in an empty mailbox"
				}
			case x.V.Sign() == 0:
				w.Refuse, w.Why = true, "0 is not a sequence number"
			case x.V.Cmp(bn) > 0:
				w.Refuse, w.Why = true, fmt.Sprintf("sequence number %s is beyond the message count %d", x.V, n)
			}
			if w.Refuse {
				return w
			}
		}
	}
	sel := map[int]bool{}
	for _, it := range items {
		val := func(x c16Num) int {
			if x.Star {
				return n
			}
			return int(x.V.Int64())
		}
		lo, hi := val(it.A), val(it.A)
		if it.Range {
			hi = val(it.B)
		}
		if lo > hi {
			lo, hi = hi, lo
		}
		for q := lo; q <= hi; q++ {
			if sel[q] {
				w.Overlap = true
			}
			sel[q] = true
		}
	}
	w.Sel = c16SortedInts(sel)
	return w
}

// c16WantUID: UID form against a view holding uids (ascending).
func c16WantUID(items []c16Item, uids []uint32) c16Want {
	var w c16Want
	n := len(uids)
	hasStar := false
	for _, it := range items {
		for _, x := range it.nums() {
			switch {
			case x.Star:
				hasStar = true
			case x.V.Sign() == 0:
				w.Refuse, w.Why = true, "0 is not a UID"
				return w
			case x.V.Cmp(c16Two32) >= 0:
				w.MayRefuse = true
			}
		}
	}
	if n == 0 {
		w.Unjudged = hasStar
		return w
	}
	top := big.NewInt(int64(uids[n-1]))
	sel, opt := map[int]bool{}, map[int]bool{}
	for _, it := range items {
		a, b := it.A, it.A
		if it.Range {
			b = it.B
		}
		if a.Star != b.Star {
			// n:* or *:n
			other := a
			if a.Star {
				other = b
			}
			if other.V.Cmp(top) > 0 {
				// excluded by the property statement: gluon deliberately returns nothing,
				// RFC 3501 would include the last message
				opt[n] = true
				continue
			}
		}
		val := func(x c16Num) *big.Int {
			if x.Star {
				return top
			}
			return x.V
		}
		lo, hi := val(a), val(b)
		if lo.Cmp(hi) > 0 {
			lo, hi = hi, lo
		}
		for i, u := range uids {
			bu := big.NewInt(int64(u))
			if bu.Cmp(lo) >= 0 && bu.Cmp(hi) <= 0 {
				if sel[i+1] {
					w.Overlap = true
				}
				sel[i+1] = true
			}
		}
	}
	w.Sel = c16SortedInts(sel)
	for q := range sel {
		delete(opt, q)
	}
	w.Opt = c16SortedInts(opt)
	return w
}

func c16IntSet(xs []int) map[int]bool {
	m := map[int]bool{}
	for _, x := range xs {
		m[x] = true
	}
	return m
}

func c16UnionInts(a, b []int) []int {
	m := c16IntSet(a)
	for _, x := range b {
		m[x] = true
	}
	return c16SortedInts(m)
}
