package props

import (
	"bytes"
	"runtime"
	"strconv"
	"strings"
	"time"
)

// Quiescence detection for C09 by goroutine state.
//
// testing/synctest cannot be used for the store's concurrent part: a goroutine blocked
// in sync.RWMutex.RLock/Lock (the per-ID lock of WriteControlledStore) is NOT durably
// blocked, so synctest.Wait never returns (and the fake clock never advances) while one
// operation waits for the lock held by an operation the harness has paused -- which is
// exactly the overlap the check has to produce.  (Probed with go1.26.8: the worker hangs.)
//
// Instead the controller takes a stop-the-world snapshot of all goroutines
// (runtime.Stack(all)) and calls the system settled when every goroutine that has a frame
// of the store package or of this check is parked in a blocking state (channel op,
// select, mutex/semaphore wait).  A parked goroutine can only be woken by another
// running goroutine; the snapshot is atomic; hence "all parked" is a stable state and
// the result of waiting for it does not depend on timing.

type c09G struct {
	id      int64
	state   string
	blocked bool
	top     string // first function line of the stack
	inStore bool   // has a frame of (or was created by) the store package
}

// Goroutine wait reasons that only another goroutine's action can end.  Everything else
// (running, runnable, syscall, GC assist wait, sleep ...) counts as "still moving".
var c09BlockedStates = []string{"chan receive", "chan send", "select", "semacquire", "sync.Mutex.Lock", "sync.RWMutex.RLock", "sync.RWMutex.Lock", "sync.Cond.Wait", "sync.WaitGroup.Wait"}

var c09StackBuf = make([]byte, 1<<20)

var (
	c09MarkStore = []byte("github.com/ProtonMail/gluon/store.")
	c09MarkProp  = []byte("verifharness/props.c09")
	c09MarkProp2 = []byte("verifharness/props.(*c09")
)

// c09Snapshot lists the goroutines (other than the caller) that belong to the check.
func c09Snapshot() []c09G {
	var n int
	for {
		n = runtime.Stack(c09StackBuf, true)
		if n < len(c09StackBuf) {
			break
		}
		c09StackBuf = make([]byte, 2*len(c09StackBuf))
	}
	secs := bytes.Split(c09StackBuf[:n], []byte("\n\n"))
	var out []c09G
	for i, s := range secs {
		if i == 0 {
			continue // the calling goroutine
		}
		inStore := bytes.Contains(s, c09MarkStore)
		if !inStore && !bytes.Contains(s, c09MarkProp) && !bytes.Contains(s, c09MarkProp2) {
			continue
		}
		// "goroutine 12 [chan receive, 2 minutes]:"
		nl := bytes.IndexByte(s, '\n')
		head := s
		rest := []byte(nil)
		if nl >= 0 {
			head, rest = s[:nl], s[nl+1:]
		}
		if !bytes.HasPrefix(head, []byte("goroutine ")) {
			continue
		}
		h := head[len("goroutine "):]
		sp := bytes.IndexByte(h, ' ')
		if sp < 0 {
			continue
		}
		id, _ := strconv.ParseInt(string(h[:sp]), 10, 64)
		lb, rb := bytes.IndexByte(h, '['), bytes.LastIndexByte(h, ']')
		st := ""
		if lb >= 0 && rb > lb {
			st = string(h[lb+1 : rb])
			if c := bytes.IndexByte([]byte(st), ','); c >= 0 {
				st = st[:c]
			}
		}
		g := c09G{id: id, state: st, inStore: inStore}
		if e := bytes.IndexByte(rest, '\n'); e >= 0 {
			rest = rest[:e]
		}
		if e := bytes.LastIndexByte(rest, '('); e > 0 {
			rest = rest[:e] // drop the argument words (addresses)
		}
		g.top = string(rest)
		g.blocked = false
		for _, p := range c09BlockedStates {
			if strings.HasPrefix(st, p) {
				g.blocked = true
				break
			}
		}
		if g.blocked && st == "semacquire" {
			// "semacquire" is also the wait reason of runtime-internal semaphores (a
			// goroutine whose allocation starts a GC cycle waits for the world semaphore
			// our own snapshot holds): parked only if the wait is in sync / internal/poll.
			if !strings.HasPrefix(g.top, "sync.") && !strings.HasPrefix(g.top, "internal/sync.") && !strings.HasPrefix(g.top, "internal/poll.") {
				g.blocked = false
			}
		}
		out = append(out, g)
	}
	return out
}

// c09Settle waits until every goroutine of the check is parked.  ok=false after 20 s of
// real time (harness trouble).
func c09Settle() (gs []c09G, ok bool) {
	deadline := time.Time{}
	for spin := 0; ; spin++ {
		gs = c09Snapshot()
		all := true
		for _, g := range gs {
			if !g.blocked {
				all = false
				break
			}
		}
		if all {
			return gs, true
		}
		if spin < 20 {
			runtime.Gosched()
			continue
		}
		if deadline.IsZero() {
			deadline = time.Now().Add(20 * time.Second)
		} else if time.Now().After(deadline) {
			return gs, false
		}
		time.Sleep(20 * time.Microsecond)
	}
}

// c09StoreGoroutines returns the parked goroutines with store frames that are not in base.
func c09StoreGoroutines(gs []c09G, base map[int64]bool) []c09G {
	var out []c09G
	for _, g := range gs {
		if g.inStore && !base[g.id] {
			out = append(out, g)
		}
	}
	return out
}
