package props

import (
	"fmt"
	"sort"
	"strconv"
	"strings"

	"verifharness/core"
	"verifharness/gen"
	"verifharness/model"
	"verifharness/wire"
	"verifharness/world"
)

var flagTable = []string{`\Seen`, `\Flagged`, `\Answered`, `\Draft`, `\Deleted`, `custom`, `$Fwd`}

// FlagsFromMask renders a flag list; caseBits varies letter case per flag.
func FlagsFromMask(mask, caseBits int) []string {
	var out []string
	for i, f := range flagTable {
		if mask&(1<<i) == 0 {
			continue
		}
		switch (caseBits >> i) & 3 {
		case 1:
			f = strings.ToUpper(f)
		case 2:
			f = strings.ToLower(f)
		case 3:
			// alternate case
			b := []byte(f)
			for j := range b {
				if j%2 == 0 {
					b[j] = byte(strings.ToUpper(string(b[j]))[0])
				} else {
					b[j] = byte(strings.ToLower(string(b[j]))[0])
				}
			}
			f = string(b)
		}
		out = append(out, f)
	}
	return out
}

// SeqSet resolves an abstract set spec against a view of n messages.
// Returns the text and the selected sequence numbers (ascending, unique).
func SeqSet(mode, x, y, n int) (string, []int) {
	if n <= 0 {
		return "1", nil
	}
	a, b := 1+abs(x)%n, 1+abs(y)%n
	switch abs(mode) % 6 {
	case 0:
		return strconv.Itoa(a), []int{a}
	case 1:
		lo, hi := a, b
		if lo > hi {
			lo, hi = hi, lo
		}
		return fmt.Sprintf("%d:%d", a, b), rng(lo, hi)
	case 2:
		return "1:*", rng(1, n)
	case 3:
		return "*", []int{n}
	case 4:
		return fmt.Sprintf("%d:*", a), rng(a, n)
	default:
		// a list, in written order (first occurrence)
		if a == b {
			return fmt.Sprintf("%d,%d", a, b), []int{a}
		}
		return fmt.Sprintf("%d,%d", a, b), []int{a, b}
	}
}

func abs(x int) int {
	if x < 0 {
		return -x
	}
	return x
}

func rng(lo, hi int) []int {
	var out []int
	for i := lo; i <= hi; i++ {
		out = append(out, i)
	}
	return out
}

func keys(m map[int]bool, n int) []int {
	var out []int
	for i := 1; i <= n; i++ {
		if m[i] {
			out = append(out, i)
		}
	}
	return out
}

// Mail is the shared mail workload: sessions of user 0 working on a few mailboxes.
type Mail struct {
	E     *Env
	Sess  []*world.Sess
	Boxes []string
	Sel   []int // selected mailbox index per session, -1 none
	RO    []bool
	// UseModel: keep R in step with the commands (requires fresh views: a NOOP is sent
	// before every command that addresses messages).
	UseModel bool
	// CheckEach: compare touched mailboxes with R after every mutating command.
	CheckEach bool
	Oracle    string
	OKs, NOs  int
	hook      func(*wire.Result) // called with the result of the action's main command
	// NoSelfCopy redirects COPY/MOVE whose destination is the session's selected mailbox
	// (finding F08) to the next mailbox.
	NoSelfCopy bool
}

// NewMail logs nsess sessions in and creates nbox-1 mailboxes besides INBOX.
func NewMail(e *Env, nsess, nbox int, useModel bool) *Mail {
	m := &Mail{E: e, UseModel: useModel, Oracle: "content"}
	if useModel {
		e.R = model.NewUser()
		e.R.Create("INBOX", "")
	}
	u := e.W.Users[0]
	for i := 0; i < nsess; i++ {
		s, err := e.W.Connect()
		if err != nil {
			e.Infra = err
			return m
		}
		if r := s.Cmd("LOGIN %s %s", u.Cfg.Names[0], u.Cfg.Password); !r.OK() {
			e.Infra = fmt.Errorf("LOGIN failed: %s %s", r.Status, r.Text)
			return m
		}
		s.User = 0
		m.Sess = append(m.Sess, s)
		m.Sel = append(m.Sel, -1)
		m.RO = append(m.RO, false)
	}
	m.Boxes = []string{"INBOX"}
	for i := 1; i < nbox; i++ {
		name := fmt.Sprintf("box%d", i)
		if r := m.Sess[0].Cmd("CREATE %s", name); !r.OK() {
			e.Infra = fmt.Errorf("CREATE %s failed: %s %s", name, r.Status, r.Text)
			return m
		}
		m.Boxes = append(m.Boxes, name)
		if useModel {
			e.R.Create(name, "")
		}
	}
	return m
}

// Reconnect replaces every session by a fresh one (after a server restart) and
// selects the mailboxes that were selected before.
func (m *Mail) Reconnect() {
	u := m.E.W.Users[0]
	for i := range m.Sess {
		s, err := m.E.W.Connect()
		if err != nil {
			m.E.Infra = err
			return
		}
		if r := s.Cmd("LOGIN %s %s", u.Cfg.Names[0], u.Cfg.Password); !r.OK() {
			m.E.Fail("restart", "LOGIN after restart answered %s %s", r.Status, r.Text)
			return
		}
		s.User = 0
		m.Sess[i] = s
		if m.Sel[i] >= 0 {
			if r := m.Select(i, m.Sel[i], m.RO[i]); !r.OK() {
				m.Sel[i] = -1
			}
		}
	}
}

func (m *Mail) sess(a core.Action) (int, *world.Sess) {
	i := abs(a.S) % len(m.Sess)
	return i, m.Sess[i]
}

func (m *Mail) box(k int) string { return m.Boxes[abs(k)%len(m.Boxes)] }

// Select (or examine) a mailbox; learns UIDs with a probe so the mirror is complete.
func (m *Mail) Select(si int, boxIdx int, examine bool) *wire.Result {
	s := m.Sess[si]
	name := m.box(boxIdx)
	verb := "SELECT"
	if examine {
		verb = "EXAMINE"
	}
	s.M.Reset(name, examine)
	r := s.Cmd("%s %s", verb, Quote(name))
	if !r.OK() {
		// RFC 3501: a failed SELECT leaves no mailbox selected; gluon keeps the previous
		// one.  Not judged here: get into a known state explicitly.
		s.M.Unselect()
		m.Sel[si] = -1
		if !s.C.Dead {
			s.W.Sim.SetLabel(s.Label)
			s.C.Do(wire.Simple("UNSELECT"))
		}
		return r
	}
	m.Sel[si] = abs(boxIdx) % len(m.Boxes)
	m.RO[si] = examine
	return r
}

// Sync sends NOOP so that the session's view is current (ungated worlds only).
func (m *Mail) Sync(si int) {
	m.Sess[si].Cmd("NOOP")
}

func (m *Mail) viewCount(si int) int { return m.Sess[si].M.Count() }

// viewMatches reports whether the session's view holds exactly the model's UIDs.
func (m *Mail) viewMatches(si int, b *model.Mailbox) bool {
	s := m.Sess[si]
	if len(b.Members) != s.M.Count() {
		return false
	}
	if len(b.Members) == 0 {
		return true
	}
	r := s.Cmd("UID SEARCH ALL")
	ids, _, err := wire.SearchIDs(r.Lines)
	if err != nil || !r.OK() || len(ids) != len(b.Members) {
		return false
	}
	for i, id := range ids {
		if id != b.Members[i].UID {
			return false
		}
	}
	return true
}

// selBox returns the model mailbox the session has selected.
func (m *Mail) selBox(si int) *model.Mailbox {
	if m.E.R == nil || m.Sel[si] < 0 {
		return nil
	}
	return m.E.R.Boxes[m.Boxes[m.Sel[si]]]
}

// setText renders a set in sequence or UID form for the session's current view.
// The third result tells whether UID form could be used (all UIDs known).
func (m *Mail) setText(si int, a core.Action, base int, uidForm bool) (string, []int, bool) {
	n := m.viewCount(si)
	mode, x, y := a.Arg(base), a.Arg(base+1), a.Arg(base+2)
	if abs(mode)%6 == 5 && n > 0 {
		// lists: "n,n" and descending lists trigger separately reported defects
		p, q := 1+abs(x)%n, 1+abs(y)%n
		if p == q && m.E.Sc.C("dupset") == 0 {
			mode = 0
		} else if p > q && m.E.Sc.C("revlist") == 0 {
			x, y = y, x
		}
	}
	txt, seqs := SeqSet(mode, x, y, n)
	a = core.Action{K: a.K, S: a.S, A: append([]int(nil), a.A...)}
	for len(a.A) <= base+2 {
		a.A = append(a.A, 0)
	}
	a.A[base], a.A[base+1], a.A[base+2] = mode, x, y
	if !uidForm || n == 0 {
		return txt, seqs, false
	}
	var uid func(seq int) uint32
	if b := m.selBox(si); b != nil {
		// fresh view: seq k = k-th member of the model mailbox
		if len(b.Members) != n {
			return txt, seqs, false
		}
		uid = func(seq int) uint32 { return b.Members[seq-1].UID }
	} else {
		// no model: translate through what the client has been told
		mm := m.Sess[si].M.Msgs
		for _, q := range seqs {
			if mm[q-1].UID == 0 {
				return txt, seqs, false
			}
		}
		uid = func(seq int) uint32 { return mm[seq-1].UID }
	}
	switch abs(a.Arg(base)) % 6 {
	case 0:
		return fmt.Sprint(uid(seqs[0])), seqs, true
	case 2:
		return "1:*", seqs, true
	case 3:
		return "*", seqs, true
	case 4:
		return fmt.Sprintf("%d:*", uid(seqs[0])), seqs, true
	default:
		parts := make([]string, len(seqs))
		for i, s := range seqs {
			parts[i] = fmt.Sprint(uid(s))
		}
		return strings.Join(parts, ","), seqs, true
	}
}

// tame removes the inputs that trigger known, separately reported defects unless the
// run's configuration enables them (so that they do not mask everything else).
func (m *Mail) tame(a core.Action) core.Action {
	sc := m.E.Sc
	b := a
	b.A = append([]int(nil), a.A...)
	for len(b.A) < 8 {
		b.A = append(b.A, 0)
	}
	switch a.K {
	case "append":
		if sc.C("appdel") == 0 {
			b.A[1] &^= 1 << 4
		}
		if sc.C("flagcase") == 0 {
			b.A[2] = 0
		}
	case "store":
		if sc.C("flagcase") == 0 {
			b.A[5] = 0
		}
	case "copy", "move":
		if si := abs(a.S) % len(m.Sess); m.NoSelfCopy && m.Sel[si] >= 0 && abs(b.A[3])%len(m.Boxes) == m.Sel[si] {
			b.A[3] = m.Sel[si] + 1
		}
	}
	return b
}

// Exec performs one action.  Returns false if the action does not apply.
func (m *Mail) Exec(a core.Action) bool {
	e := m.E
	a = m.tame(a)
	si, s := m.sess(a)
	if s.C.Dead {
		return false
	}
	ev := func(res *wire.Result, what string) {
		e.Tr.Event(a.K, si, what, res.Status)
		e.CheckPanics()
		if m.hook != nil {
			m.hook(res)
		}
		if res.Err != nil && e.V == nil {
			e.Fail("protocol", "%s: %v", what, res.Err)
		}
		if res.OK() {
			m.OKs++
		} else {
			m.NOs++
		}
		for _, v := range s.Viol {
			e.Fail("stream", "%s", v)
		}
	}
	needSel := func() bool {
		if m.Sel[si] < 0 {
			return false
		}
		if m.UseModel {
			m.Sync(si)
			if b := m.selBox(si); b != nil && !m.viewMatches(si, b) {
				// the view did not converge (judged by C02, not here): take a fresh view
				e.St.Probes["view_resync"]++
				m.Select(si, m.Sel[si], m.RO[si])
				if len(b.Members) != s.M.Count() {
					e.Fail(m.Oracle, "SELECT %q reports %d messages, model has %d", b.Name, s.M.Count(), len(b.Members))
					return false
				}
			}
		}
		return true
	}
	switch a.K {
	case "select":
		r := m.Select(si, a.Arg(0), a.Arg(1)%4 == 3)
		ev(r, "select "+m.box(a.Arg(0)))
		if m.UseModel && r.OK() {
			if b := m.selBox(si); b != nil && len(b.Members) != s.M.Count() {
				e.Fail(m.Oracle, "SELECT %q reports %d messages, model has %d", b.Name, s.M.Count(), len(b.Members))
			}
		}
	case "unselect":
		if m.Sel[si] < 0 {
			return false
		}
		r := s.Cmd("UNSELECT")
		ev(r, "unselect")
		if r.OK() {
			s.M.Unselect()
			m.Sel[si] = -1
		}
	case "close":
		if !needSel() {
			return false
		}
		b := m.selBox(si)
		// CLOSE removes silently by definition and is outside the view properties: what
		// it sends is not folded into the mirror, the view is discarded afterwards.
		s.W.Sim.SetLabel(s.Label)
		r := s.C.Do(wire.Simple("CLOSE"))
		ev(r, "close")
		if r.OK() {
			if m.UseModel && !m.RO[si] {
				b.Expunge(nil)
			}
			s.M.Unselect()
			m.Sel[si] = -1
			m.check(b)
		}
	case "noop":
		ev(s.Cmd("NOOP"), "noop")
	case "check":
		if m.Sel[si] < 0 {
			return false
		}
		ev(s.Cmd("CHECK"), "check")
	case "append":
		boxName := m.box(a.Arg(0))
		flags := FlagsFromMask(a.Arg(1)&0x7f, a.Arg(2))
		opts := gen.Opts{}
		if a.Arg(3)%7 == 6 {
			opts.BigBody = 1000 + abs(a.Arg(4))%300000
		}
		msg := e.NewMessage(a.Arg(4), opts)
		fl := ""
		if len(flags) > 0 {
			fl = "(" + strings.Join(flags, " ") + ") "
		}
		r := s.Do(wire.WithLiteral(fmt.Sprintf("APPEND %s %s", Quote(boxName), fl), msg.Bytes, ""))
		ev(r, fmt.Sprintf("append %s %v <%d>", boxName, flags, msg.Marker))
		if m.UseModel {
			if r.OK() {
				b := e.R.Boxes[boxName]
				obj, del := model.NewObj(msg.Marker, msg.Bytes, flags)
				uid := b.Add(obj, del)
				var uv, got uint32
				if _, err := fmt.Sscanf(r.Code, "APPENDUID %d %d", &uv, &got); err != nil {
					e.Fail("appenduid", "APPEND OK without APPENDUID code: %q", r.Code)
				} else if got != uid {
					e.Fail("appenduid", "APPENDUID announces UID %d, model assigns %d in %q", got, uid, boxName)
				}
				m.check(b)
			} else {
				e.Fail("unexpected-failure", "APPEND to %q answered %s %s", boxName, r.Status, r.Text)
			}
		}
	case "store":
		if !needSel() || m.viewCount(si) == 0 {
			return false
		}
		set, seqs, uidForm := m.setText(si, a, 0, a.Arg(6)%2 == 1)
		op := abs(a.Arg(3)) % 3 // 0 set 1 add 2 remove
		flags := FlagsFromMask(a.Arg(4)&0x7f, a.Arg(5))
		silent := a.Arg(7)%3 == 0
		item := []string{"FLAGS", "+FLAGS", "-FLAGS"}[op]
		if silent {
			item += ".SILENT"
		}
		verb := "STORE"
		if uidForm {
			verb = "UID STORE"
		}
		r := s.Cmd("%s %s %s (%s)", verb, set, item, strings.Join(flags, " "))
		ev(r, fmt.Sprintf("%s %s %s %v", verb, set, item, flags))
		if silent {
			// nothing was announced: the client no longer knows these flag sets (what the
			// server derives a silent +/-FLAGS from is its own snapshot, which the property
			// does not let the client assume).
			for _, q := range seqs {
				s.M.ForgetFlags(q)
			}
		}
		if m.UseModel {
			b := m.selBox(si)
			if r.OK() {
				if m.RO[si] {
					e.Fail(m.Oracle, "STORE in a read-only (EXAMINE) session answered OK")
				}
				for _, q := range seqs {
					b.Store(q-1, []int{0, 1, -1}[op], flags)
				}
			} else if !m.RO[si] {
				e.Fail("unexpected-failure", "%s %s %s %v answered %s %s", verb, set, item, flags, r.Status, r.Text)
			}
			m.checkAllOf(seqsObjs(b, seqs))
		}
	case "store-recent":
		if !needSel() || m.viewCount(si) == 0 {
			return false
		}
		set, _, _ := m.setText(si, a, 0, false)
		r := s.Cmd("STORE %s +FLAGS (\\Recent \\Seen)", set)
		ev(r, "store-recent "+set)
		if r.OK() {
			e.Fail(m.Oracle, "STORE of \\Recent answered OK")
		}
		m.check(m.selBox(si))
	case "expunge":
		if !needSel() {
			return false
		}
		r := s.Cmd("EXPUNGE")
		ev(r, "expunge")
		if m.UseModel {
			b := m.selBox(si)
			if r.OK() {
				if m.RO[si] {
					e.Fail(m.Oracle, "EXPUNGE in a read-only session answered OK")
				}
				b.Expunge(nil)
			} else if !m.RO[si] {
				e.Fail("unexpected-failure", "EXPUNGE answered %s %s", r.Status, r.Text)
			}
			m.check(b)
		}
	case "uidexpunge":
		if !needSel() || m.viewCount(si) == 0 {
			return false
		}
		set, seqs, isUID := m.setText(si, a, 0, true)
		if !isUID {
			return false
		}
		r := s.Cmd("UID EXPUNGE %s", set)
		ev(r, "uid expunge "+set)
		if m.UseModel {
			b := m.selBox(si)
			if r.OK() {
				only := map[uint32]bool{}
				for _, q := range seqs {
					only[b.Members[q-1].UID] = true
				}
				b.Expunge(only)
			} else if !m.RO[si] {
				e.Fail("unexpected-failure", "UID EXPUNGE %s answered %s %s", set, r.Status, r.Text)
			}
			m.check(b)
		}
	case "copy", "move":
		if !needSel() || m.viewCount(si) == 0 {
			return false
		}
		set, seqs, uidForm := m.setText(si, a, 0, a.Arg(4)%2 == 1)
		dest := m.box(a.Arg(3))
		verb := strings.ToUpper(a.K)
		if uidForm {
			verb = "UID " + verb
		}
		r := s.Cmd("%s %s %s", verb, set, Quote(dest))
		ev(r, fmt.Sprintf("%s %s %s", verb, set, dest))
		if m.UseModel {
			src := m.selBox(si)
			db := e.R.Boxes[dest]
			if r.OK() {
				objs := seqsObjs(src, seqs)
				removeSrc := a.K == "move" && (src == db || e.Sc.C("labels") == 0)
				if a.K == "move" && m.RO[si] {
					e.Fail(m.Oracle, "MOVE in a read-only session answered OK")
				}
				var uids, srcUIDs []uint32
				for _, o := range objs {
					srcUIDs = append(srcUIDs, src.Members[src.Index(o)].UID)
				}
				// RFC 3501/4315 leave the order in which the copies are made (and get their
				// UIDs) to the server; COPYUID states it.  R follows that statement, and the
				// content comparison below holds the server to it.
				if order := copyUIDSource(r, a.K); len(order) == len(srcUIDs) {
					pos := map[uint32]int{}
					for i, u := range order {
						pos[u] = i
					}
					perm := len(pos) == len(order)
					for _, u := range srcUIDs {
						if _, ok := pos[u]; !ok {
							perm = false
						}
					}
					if perm {
						o2, u2 := make([]*model.Obj, len(objs)), make([]uint32, len(objs))
						for i, u := range srcUIDs {
							o2[pos[u]], u2[pos[u]] = objs[i], u
						}
						objs, srcUIDs = o2, u2
					}
				}
				for _, o := range objs {
					if removeSrc && src != db {
						src.Remove(o)
					}
					uids = append(uids, db.Add(o, false))
				}
				m.checkCopyUID(r, a.K, srcUIDs, uids)
				m.check(src)
				m.check(db)
			} else if !m.RO[si] {
				// gluon refuses COPY as well as MOVE from a mailbox opened with EXAMINE; the
				// property does not say which is right, so a refusal there is not judged.
				e.Fail("unexpected-failure", "%s %s %q answered %s %s", verb, set, dest, r.Status, r.Text)
			}
		}
	case "fetch":
		if !needSel() || m.viewCount(si) == 0 {
			return false
		}
		set, seqs, _ := m.setText(si, a, 0, false)
		peek := a.Arg(3)%2 == 0
		item := "BODY[]"
		if peek {
			item = "BODY.PEEK[]"
		}
		r := s.Cmd("FETCH %s (UID FLAGS %s)", set, item)
		ev(r, fmt.Sprintf("fetch %s %s", set, item))
		if m.UseModel && r.OK() && !peek && !m.RO[si] {
			b := m.selBox(si)
			for _, q := range seqs {
				b.Store(q-1, 1, []string{`\Seen`})
			}
			m.checkAllOf(seqsObjs(b, seqs))
		}
	default:
		return false
	}
	return true
}

// applyFlagOp computes the client-side effect of a silent store (op 0 set, 1 add, 2 remove)
// on a normalised flag list.
func applyFlagOp(old []string, op int, flags []string) []string {
	set := map[string]bool{}
	if op != 0 {
		for _, f := range old {
			set[f] = true
		}
	}
	for _, f := range flags {
		lf := strings.ToLower(f)
		if lf == `\recent` {
			continue
		}
		if op == 2 {
			delete(set, lf)
		} else {
			set[lf] = true
		}
	}
	out := make([]string, 0, len(set))
	for f := range set {
		out = append(out, f)
	}
	sort.Strings(out)
	return out
}

// seqsObjs: the messages a set selects, each once, in the order the set names them first.
func seqsObjs(b *model.Mailbox, seqs []int) []*model.Obj {
	var out []*model.Obj
	seen := map[int]bool{}
	for _, q := range seqs {
		if q >= 1 && q <= len(b.Members) && !seen[q] {
			seen[q] = true
			out = append(out, b.Members[q-1].Obj)
		}
	}
	return out
}

// copyUIDSource returns the source UIDs of the COPYUID code in the order stated.
func copyUIDSource(r *wire.Result, kind string) []uint32 {
	code := r.Code
	if kind == "move" {
		for _, l := range r.Lines {
			if l.Status == "OK" && strings.HasPrefix(l.Code, "COPYUID") {
				code = l.Code
			}
		}
	}
	f := strings.Fields(code)
	if len(f) != 4 || f[0] != "COPYUID" {
		return nil
	}
	return expandSet(f[2])
}

func (m *Mail) checkCopyUID(r *wire.Result, kind string, srcUIDs, uids []uint32) {
	code := r.Code
	if kind == "move" {
		// MOVE reports COPYUID in an untagged OK
		for _, l := range r.Lines {
			if l.Status == "OK" && strings.HasPrefix(l.Code, "COPYUID") {
				code = l.Code
			}
		}
	}
	if len(uids) == 0 {
		return
	}
	f := strings.Fields(code)
	if len(f) != 4 || f[0] != "COPYUID" {
		m.E.Fail("copyuid", "%s OK without COPYUID code (code %q)", strings.ToUpper(kind), code)
		return
	}
	gotSrc, got := expandSet(f[2]), expandSet(f[3])
	if len(got) != len(uids) || len(gotSrc) != len(uids) {
		m.E.Fail("copyuid", "COPYUID %s %s does not pair %d messages; model maps %v -> %v", f[2], f[3], len(uids), srcUIDs, uids)
		return
	}
	want := map[uint32]uint32{}
	for i := range uids {
		want[srcUIDs[i]] = uids[i]
	}
	for i := range got {
		if want[gotSrc[i]] != got[i] {
			m.E.Fail("copyuid", "COPYUID %s %s pairs source UID %d with destination UID %d, but the message is at destination UID %d (model maps %v -> %v)", f[2], f[3], gotSrc[i], got[i], want[gotSrc[i]], srcUIDs, uids)
			return
		}
	}
}

func expandSet(s string) []uint32 {
	var out []uint32
	for _, p := range strings.Split(s, ",") {
		if i := strings.IndexByte(p, ':'); i >= 0 {
			a, _ := strconv.Atoi(p[:i])
			b, _ := strconv.Atoi(p[i+1:])
			if a > b {
				a, b = b, a
			}
			for x := a; x <= b; x++ {
				out = append(out, uint32(x))
			}
		} else {
			a, _ := strconv.Atoi(p)
			out = append(out, uint32(a))
		}
	}
	return out
}

// check compares one mailbox with R (when CheckEach is on).
func (m *Mail) check(b *model.Mailbox) {
	if !m.UseModel || !m.CheckEach || b == nil || m.E.Failed() {
		return
	}
	rows, _, uidNext, err := m.E.AuthRead(0, b.Name, false)
	if err != nil {
		m.E.Fail(m.Oracle, "authoritative read of %q failed: %v", b.Name, err)
		return
	}
	m.E.St.Checks++
	if d := model.Diff(b.Name, b.Rows(), rows, true); d != "" {
		m.E.Fail(m.Oracle, "%s", d)
		return
	}
	if uidNext != b.UIDNext {
		m.E.Fail(m.Oracle, "mailbox %q: model UIDNEXT %d, server UIDNEXT %d", b.Name, b.UIDNext, uidNext)
	}
}

// checkAllOf checks every mailbox that holds one of the objects (flags are shared).
func (m *Mail) checkAllOf(objs []*model.Obj) {
	if !m.UseModel || !m.CheckEach {
		return
	}
	for _, name := range m.E.R.Names() {
		b := m.E.R.Boxes[name]
		for _, o := range objs {
			if b.Index(o) >= 0 {
				m.check(b)
				break
			}
		}
	}
}
