package props

import (
	"fmt"
	"sort"
	"strings"

	"github.com/ProtonMail/gluon/imap"

	"verifharness/core"
	"verifharness/gen"
	"verifharness/model"
	"verifharness/wire"
	"verifharness/world"
)

// C06 — connector updates: applied as described, acknowledged once, idempotent on replay.
type C06 struct{}

func (C06) ID() string { return "C06" }

var c06Kinds = []string{"u.mboxcreate", "u.mboxrename", "u.mboxdelete", "u.created", "u.mailboxes", "u.flags", "u.updated", "u.deleted",
	"u.msgidchange", "u.bump", "u.noop", "u.bad", "replay", "c.append", "c.store", "c.move", "c.noop", "c.idle"}

func (C06) Generate(r *core.Rand, tier string, idx int) *core.Scenario {
	sc := &core.Scenario{Property: "C06", Cfg: map[string]int{}}
	sc.Cfg["labels"] = r.Intn(2)
	if r.P(1, 5) {
		sc.Cfg["idchange"] = 1 // include MessageIDChanged (see known findings)
	}
	if r.P(1, 12) {
		sc.Cfg["bulk"] = 1
	}
	if r.P(1, 4) {
		sc.Cfg["numid"] = 1 // the remote's message IDs read as numbers
	}
	//                 mcr mrn mdl crt mbx flg upd del idc bmp nop bad rpl cap cst cmv cnp cid
	weights := []int{4, 2, 2, 12, 8, 8, 4, 4, 2, 1, 1, 5, 10, 4, 4, 3, 6, 1}
	n := r.Range(20, 50)
	for i := 0; i < n; i++ {
		a := core.Action{K: c06Kinds[r.Weighted(weights)], S: r.Intn(2)}
		for j := 0; j < 6; j++ {
			a.A = append(a.A, r.Intn(1000))
		}
		sc.Actions = append(sc.Actions, a)
	}
	return sc
}

type c06Msg struct {
	id    imap.MessageID
	obj   *model.Obj
	lit   []byte
	alive bool
}

type c06State struct {
	e      *Env
	u      *world.User
	boxes  []*model.Mailbox // live mailboxes in creation order (INBOX first)
	msgs   []*c06Msg
	sess   []*world.Sess
	sel    []string
	nboxes int
	sent   []func() (imap.Update, string) // restating updates that can be replayed (built from R at delivery time)
	acks   int
}

func (st *c06State) liveMsgs() []*c06Msg {
	var out []*c06Msg
	for _, m := range st.msgs {
		if m.alive {
			out = append(out, m)
		}
	}
	return out
}

func (st *c06State) boxesOf(o *model.Obj) []*model.Mailbox {
	var out []*model.Mailbox
	for _, b := range st.boxes {
		if b.Index(o) >= 0 {
			out = append(out, b)
		}
	}
	return out
}

func flagSetOf(o *model.Obj) imap.FlagSet {
	var fl []string
	for f := range o.Flags {
		fl = append(fl, canonFlag(f))
	}
	sort.Strings(fl)
	return imap.NewFlagSet(fl...)
}

func canonFlag(f string) string {
	for _, c := range flagTable {
		if strings.EqualFold(c, f) {
			return c
		}
	}
	return f
}

// submit delivers an update and checks oracle (a): acknowledged exactly once.
func (st *c06State) submit(upd imap.Update, what string) world.UpdRes {
	e := st.e
	r := e.W.Submit(st.u, upd)
	e.Tr.Event("update", what, r.Done, r.Err != nil)
	if !r.Delivered {
		e.Fail("update-stream", "the server stopped taking connector updates (at %s)", what)
		return r
	}
	if !r.Done {
		e.Fail("update-ack", "update %s was taken by the server but not acknowledged at quiescence", what)
		return r
	}
	st.acks++
	e.CheckPanics()
	return r
}

// flushAll lets every selected session flush and returns the untagged data lines seen.
func (st *c06State) flushAll() (exists, expunge, fetch int) {
	for i, s := range st.sess {
		if s.C.Dead || st.sel[i] == "" {
			continue
		}
		var lines []*wire.Line
		if s.InIdle {
			lines, _ = s.Poll()
		} else {
			r := s.Cmd("NOOP")
			lines = r.Lines
			if r.Bye || r.Closed {
				s.C.Dead = true
				st.sel[i] = ""
			}
		}
		for _, l := range lines {
			if _, kw, ok := l.Num(); ok {
				switch kw {
				case "EXISTS":
					exists++
				case "EXPUNGE":
					expunge++
				case "FETCH":
					fetch++
				}
			}
		}
		for _, v := range s.Viol {
			st.e.Fail("stream", "%s", v)
		}
	}
	return
}

func (st *c06State) check(oracle string) {
	e := st.e
	if e.Failed() {
		return
	}
	e.R = model.NewUser()
	for _, b := range st.boxes {
		e.R.Boxes[b.Name] = b
	}
	e.CheckModel(oracle, false, true)
}

func (C06) Execute(sc *core.Scenario, keepLog bool) *core.Result {
	cfg := world.Config{Users: []world.UserCfg{{Names: []string{"user"}, Password: "pass"}}}
	return RunInBubble("C06", sc, keepLog, cfg, func(e *Env) {
		u := e.W.Users[0]
		u.Conn.MoveRemovesSource = sc.C("labels") == 0
		u.Conn.NumericIDs = sc.C("numid") == 1
		st := &c06State{e: e, u: u}
		inbox := &model.Mailbox{Name: "INBOX", UIDNext: 1, Subscribed: true}
		for id, nm := range u.Conn.MboxNames {
			if len(nm) == 1 && nm[0] == "INBOX" {
				inbox.Remote = string(id)
			}
		}
		st.boxes = []*model.Mailbox{inbox}
		for i := 0; i < 2; i++ {
			s, err := e.W.Connect()
			if err != nil {
				e.Infra = err
				return
			}
			if r := s.Cmd("LOGIN user pass"); !r.OK() {
				e.Infra = fmt.Errorf("login failed")
				return
			}
			st.sess = append(st.sess, s)
			st.sel = append(st.sel, "")
		}
		selectBox := func(i int, name string) {
			s := st.sess[i]
			if s.C.Dead || s.InIdle {
				return
			}
			s.M.Reset(name, false)
			if r := s.Cmd("SELECT %s", Quote(name)); r.OK() {
				st.sel[i] = name
			} else {
				s.M.Unselect()
				st.sel[i] = ""
			}
		}
		selectBox(0, "INBOX")
		valid, invalid, restated := 0, 0, 0
		pick := func(k int) *c06Msg {
			l := st.liveMsgs()
			if len(l) == 0 {
				return nil
			}
			return l[abs(k)%len(l)]
		}
		boxIDs := func(mask int) ([]imap.MailboxID, []*model.Mailbox) {
			var ids []imap.MailboxID
			var bs []*model.Mailbox
			for i, b := range st.boxes {
				if mask&(1<<(i%8)) != 0 {
					ids = append(ids, imap.MailboxID(b.Remote))
					bs = append(bs, b)
				}
			}
			return ids, bs
		}
		newMsg := func(seed int) (*c06Msg, *imap.MessageCreated) {
			g := e.NewMessage(seed, gen.Opts{EmbedIDHeader: seed%4 == 1})
			id := u.Conn.NewMessageID()
			flags := FlagsFromMask(seed&0x0f, 0)
			obj, _ := model.NewObj(g.Marker, g.Bytes, flags)
			obj.Remote = string(id)
			parsed, err := imap.NewParsedMessage(g.Bytes)
			if err != nil {
				e.Infra = err
			}
			u.Conn.RememberLiteral(id, g.Bytes, imap.NewFlagSet(flags...), world.SimStart)
			m := &c06Msg{id: id, obj: obj, lit: g.Bytes, alive: true}
			return m, &imap.MessageCreated{Message: imap.Message{ID: id, Flags: imap.NewFlagSet(flags...), Date: world.SimStart}, Literal: g.Bytes, ParsedMessage: parsed}
		}
		setBoxes := func(m *c06Msg, want []*model.Mailbox) {
			in := map[*model.Mailbox]bool{}
			for _, b := range want {
				in[b] = true
			}
			for _, b := range st.boxes {
				if b.Index(m.obj) >= 0 && !in[b] {
					b.Remove(m.obj)
				}
			}
			for _, b := range want {
				if b.Index(m.obj) < 0 {
					b.Add(m.obj, false)
				}
			}
		}
		for i, a := range sc.Actions {
			e.Step = i + 1
			switch a.K {
			case "u.mboxcreate":
				st.nboxes++
				name := fmt.Sprintf("cbox%d", st.nboxes)
				id := u.Conn.NewMailboxID()
				r := st.submit(imap.NewMailboxCreated(u.Conn.MailboxTemplate(id, []string{name})), "MailboxCreated "+name)
				if e.Failed() {
					return
				}
				if r.Err != nil {
					e.Fail("valid-update", "MailboxCreated(%s) completed with error %v", name, r.Err)
					return
				}
				u.Conn.MboxNames[id] = []string{name}
				st.boxes = append(st.boxes, &model.Mailbox{Name: name, Remote: string(id), UIDNext: 1, Subscribed: true})
				valid++
				st.check("applied")
				if st.sel[1] == "" && len(st.boxes) > 1 {
					selectBox(1, name)
				}
			case "u.mboxrename":
				if len(st.boxes) < 2 {
					break
				}
				b := st.boxes[1+abs(a.Arg(0))%(len(st.boxes)-1)]
				st.nboxes++
				nn := fmt.Sprintf("rbox%d", st.nboxes)
				if abs(a.Arg(1))%3 == 1 {
					// the remote changes nothing but the letter case of the name
					if nn = strings.ToUpper(b.Name); nn == b.Name {
						nn = strings.ToLower(b.Name)
					}
				}
				r := st.submit(imap.NewMailboxUpdated(imap.MailboxID(b.Remote), []string{nn}), "MailboxUpdated "+b.Name+"->"+nn)
				if e.Failed() {
					return
				}
				if r.Err != nil {
					e.Fail("valid-update", "MailboxUpdated(%s -> %s) completed with error %v", b.Name, nn, r.Err)
					return
				}
				for j := range st.sel {
					if st.sel[j] == b.Name {
						st.sel[j] = nn
						st.sess[j].M.Mailbox = nn
					}
				}
				b.Name = nn
				valid++
				st.check("applied")
			case "u.mboxdelete":
				if len(st.boxes) < 2 {
					break
				}
				k := 1 + abs(a.Arg(0))%(len(st.boxes)-1)
				b := st.boxes[k]
				r := st.submit(imap.NewMailboxDeleted(imap.MailboxID(b.Remote)), "MailboxDeleted "+b.Name)
				if e.Failed() {
					return
				}
				if r.Err != nil {
					e.Fail("valid-update", "MailboxDeleted(%s) completed with error %v", b.Name, r.Err)
					return
				}
				st.boxes = append(st.boxes[:k], st.boxes[k+1:]...)
				for j := range st.sel {
					if st.sel[j] == b.Name {
						st.sess[j].Cmd("NOOP") // the server says BYE to sessions on a deleted mailbox
						st.sess[j].C.Dead = true
						st.sel[j] = ""
					}
				}
				valid++
				st.flushAll()
				st.check("applied")
			case "u.created":
				n := []int{1, 1, 2, 3, 0, 1, 2, 5}[abs(a.Arg(0))%8]
				if sc.C("bulk") == 1 && a.Arg(0)%3 == 0 {
					n = []int{499, 501, 1001}[abs(a.Arg(1))%3]
					e.St.Probes["bulk_batch"]++
				}
				var batch []*imap.MessageCreated
				var ms []*c06Msg
				for j := 0; j < n; j++ {
					m, mc := newMsg(a.Arg(2) + j)
					ids, _ := boxIDs(1 + abs(a.Arg(3)+j)%7)
					if len(ids) == 0 {
						ids = []imap.MailboxID{imap.MailboxID(st.boxes[0].Remote)}
					}
					mc.MailboxIDs = ids
					batch = append(batch, mc)
					ms = append(ms, m)
				}
				if e.Infra != nil {
					return
				}
				// a batch may restate a message the server already has, next to the new ones
				// (a sync that overlaps the previous one): the known one stays as it is
				var furtherBox *model.Mailbox
				var furtherObj *model.Obj
				if a.Arg(6)%3 == 0 && n < 10 {
					if m0 := pick(a.Arg(7)); m0 != nil {
						var ids0 []imap.MailboxID
						deleted0 := false
						for _, b := range st.boxesOf(m0.obj) {
							ids0 = append(ids0, imap.MailboxID(b.Remote))
							deleted0 = deleted0 || b.Members[b.Index(m0.obj)].Deleted
						}
						if len(ids0) > 0 && !deleted0 {
							// ... and may name one more mailbox for it (a label added since): the known
							// message joins that mailbox; a batch may consist of such an entry alone
							if abs(a.Arg(7)/3)%2 == 1 || n == 0 {
								for k := range st.boxes {
									b := st.boxes[(k+abs(a.Arg(5)))%len(st.boxes)]
									if b.Index(m0.obj) < 0 {
										furtherBox, furtherObj = b, m0.obj
										ids0 = append(ids0, imap.MailboxID(b.Remote))
										e.St.Probes["known_message_named_with_further_mailbox"]++
										break
									}
								}
							}
							parsed0, _ := imap.NewParsedMessage(m0.lit)
							restated := &imap.MessageCreated{Message: imap.Message{ID: m0.id, Flags: flagSetOf(m0.obj), Date: world.SimStart}, Literal: m0.lit, MailboxIDs: ids0, ParsedMessage: parsed0}
							pos := abs(a.Arg(7)) % (len(batch) + 1)
							batch = append(batch[:pos], append([]*imap.MessageCreated{restated}, batch[pos:]...)...)
							ms = append(ms[:pos], append([]*c06Msg{nil}, ms[pos:]...)...)
							e.St.Probes["batch_restating_known_message"]++
						}
					}
				}
				// the same NEW message may be listed twice, the second entry naming another
				// mailbox (two label pages of one sync): it ends up in both, as if the entries
				// had been delivered one by one
				var twinBox *model.Mailbox
				var twinObj *model.Obj
				if abs(a.Arg(5))%4 == 1 && n > 0 && n < 10 {
					for j, m := range ms {
						if m == nil {
							continue
						}
						for k := range st.boxes {
							b := st.boxes[(k+abs(a.Arg(1)))%len(st.boxes)]
							listed := false
							for _, id := range batch[j].MailboxIDs {
								listed = listed || string(id) == b.Remote
							}
							if !listed {
								twinBox, twinObj = b, m.obj
								second := *batch[j]
								second.MailboxIDs = []imap.MailboxID{imap.MailboxID(b.Remote)}
								batch = append(batch, &second)
								ms = append(ms, nil)
								e.St.Probes["new_message_listed_twice_with_other_mailbox"]++
								break
							}
						}
						break
					}
				}
				// with IgnoreUnknownMailboxIDs the remote may name mailboxes gluon does not know
				// (yet): they are skipped, everything else is applied
				ignoreUnknown := a.Arg(4)%3 == 0
				if ignoreUnknown {
					for j, mc := range batch {
						if (a.Arg(5)+j)%2 == 0 {
							mc.MailboxIDs = append([]imap.MailboxID{"unknown-mailbox-x"}, mc.MailboxIDs...)
						} else {
							mc.MailboxIDs = append(mc.MailboxIDs, "unknown-mailbox-x")
						}
					}
					e.St.Probes["ignore_unknown_batches"]++
				}
				r := st.submit(imap.NewMessagesCreated(ignoreUnknown, batch...), fmt.Sprintf("MessagesCreated x%d ignoreUnknown=%v", n, ignoreUnknown))
				if e.Failed() {
					return
				}
				if r.Err != nil {
					e.Fail("valid-update", "MessagesCreated of %d new messages into existing mailboxes completed with error %v", n, r.Err)
					return
				}
				if furtherBox != nil && furtherBox.Index(furtherObj) < 0 {
					furtherBox.Add(furtherObj, false)
				}
				for j, m := range ms {
					if m == nil {
						continue // the restated message: nothing else changes
					}
					st.msgs = append(st.msgs, m)
					for _, b := range st.boxes {
						for _, id := range batch[j].MailboxIDs {
							if string(id) == b.Remote && b.Index(m.obj) < 0 {
								b.Add(m.obj, false)
							}
						}
					}
				}
				if twinBox != nil && twinBox.Index(twinObj) < 0 {
					twinBox.Add(twinObj, false)
				}
				valid++
				st.flushAll()
				st.check("applied")
			case "u.mailboxes", "u.flags":
				m := pick(a.Arg(0))
				if m == nil {
					break
				}
				flags := FlagsFromMask(a.Arg(2)&0x6f, 0)
				var upd imap.Update
				var want []*model.Mailbox
				if a.K == "u.mailboxes" {
					var ids []imap.MailboxID
					ids, want = boxIDs(abs(a.Arg(1)) % 8)
					upd = imap.NewMessageMailboxesUpdated(m.id, ids, imap.NewFlagSet(flags...))
				} else {
					upd = imap.NewMessageFlagsUpdated(m.id, imap.NewFlagSet(flags...))
				}
				r := st.submit(upd, a.K+" "+string(m.id))
				if e.Failed() {
					return
				}
				if r.Err != nil {
					e.Fail("valid-update", "%s for a known message and known mailboxes completed with error %v", a.K, r.Err)
					return
				}
				if a.K == "u.mailboxes" {
					setBoxes(m, want)
				}
				m.obj.Flags = map[string]bool{}
				for _, f := range flags {
					m.obj.Flags[strings.ToLower(f)] = true
				}
				valid++
				st.flushAll()
				st.check("applied")
			case "u.updated":
				m := pick(a.Arg(0))
				if m == nil {
					break
				}
				ids, want := boxIDs(1 + abs(a.Arg(1))%7)
				if len(ids) == 0 {
					break
				}
				flags := FlagsFromMask(a.Arg(2)&0x6f, 0)
				lit := m.lit
				newContent := a.Arg(3)%2 == 0
				var g *gen.Message
				if newContent {
					g = e.NewMessage(a.Arg(4), gen.Opts{})
					lit = g.Bytes
				}
				parsed, err := imap.NewParsedMessage(lit)
				if err != nil {
					e.Infra = err
					return
				}
				upd := imap.NewMessageUpdated(imap.Message{ID: m.id, Flags: imap.NewFlagSet(flags...), Date: world.SimStart}, lit, ids, parsed, false)
				u.Conn.RememberLiteral(m.id, lit, imap.NewFlagSet(flags...), world.SimStart)
				r := st.submit(upd, fmt.Sprintf("MessageUpdated %s new=%v", m.id, newContent))
				if e.Failed() {
					return
				}
				if r.Err != nil {
					e.Fail("valid-update", "MessageUpdated for a known message completed with error %v", r.Err)
					return
				}
				if newContent {
					// content replaced: the old message leaves every mailbox, the new content
					// appears in the listed mailboxes under new UIDs
					for _, b := range st.boxes {
						b.Remove(m.obj)
					}
					obj, _ := model.NewObj(g.Marker, g.Bytes, flags)
					obj.Remote = string(m.id)
					m.obj, m.lit = obj, lit
					for _, b := range want {
						b.Add(obj, false)
					}
				} else {
					setBoxes(m, want)
					m.obj.Flags = map[string]bool{}
					for _, f := range flags {
						m.obj.Flags[strings.ToLower(f)] = true
					}
				}
				valid++
				st.flushAll()
				st.check("applied")
			case "u.deleted":
				m := pick(a.Arg(0))
				if m == nil {
					break
				}
				r := st.submit(imap.NewMessagesDeleted(m.id), "MessageDeleted "+string(m.id))
				if e.Failed() {
					return
				}
				if r.Err != nil {
					e.Fail("valid-update", "MessageDeleted for a known message completed with error %v", r.Err)
					return
				}
				for _, b := range st.boxes {
					b.Remove(m.obj)
				}
				m.alive = false
				valid++
				st.flushAll()
				st.check("applied")
			case "u.msgidchange":
				if sc.C("idchange") == 0 {
					break
				}
				m := pick(a.Arg(0))
				if m == nil || len(st.boxesOf(m.obj)) == 0 {
					break
				}
				// the internal ID is what the server wrote into the ID header
				b := st.boxesOf(m.obj)[0]
				rows, _, _, err := e.AuthRead(0, b.Name, false)
				_ = rows
				if err != nil {
					break
				}
				iid := st.internalID(b.Name, b.Members[b.Index(m.obj)].UID)
				if iid == "" {
					break
				}
				parsedID, err := imap.InternalMessageIDFromString(iid)
				if err != nil {
					break
				}
				nid := u.Conn.NewMessageID()
				r := st.submit(imap.NewMessageIDChanged(parsedID, nid), "MessageIDChanged "+string(m.id)+"->"+string(nid))
				if e.Failed() {
					return
				}
				if r.Err != nil {
					e.FailSig("valid-update", "MessageIDChanged", "MessageIDChanged for a known internal ID completed with error %v", r.Err)
					return
				}
				u.Conn.RememberLiteral(nid, m.lit, flagSetOf(m.obj), world.SimStart)
				m.id = nid
				m.obj.Remote = string(nid)
				valid++
				// the new ID must now address the message
				r = st.submit(imap.NewMessageFlagsUpdated(nid, flagSetOf(m.obj)), "MessageFlagsUpdated via new id")
				if r.Err != nil {
					e.Fail("valid-update", "after MessageIDChanged the new remote ID is not known: %v", r.Err)
					return
				}
			case "u.bump":
				r := st.submit(imap.NewUIDValidityBumped(), "UIDValidityBumped")
				if e.Failed() {
					return
				}
				if r.Err != nil {
					e.Fail("valid-update", "UIDValidityBumped completed with error %v", r.Err)
					return
				}
				valid++
				for j, s := range st.sess {
					if !s.C.Dead && st.sel[j] != "" && !s.InIdle {
						s.Cmd("NOOP")
					}
					if s.C.Conn.ServerClosed() {
						s.C.Dead = true
						st.sel[j] = ""
					}
				}
				st.check("applied")
			case "u.noop":
				r := st.submit(imap.NewNoop(), "Noop")
				if !e.Failed() && r.Err != nil {
					e.Fail("valid-update", "Noop completed with error %v", r.Err)
				}
			case "u.bad":
				// updates naming unknown or protected objects, duplicates inside a batch
				var upd imap.Update
				what := ""
				switch abs(a.Arg(0)) % 7 {
				case 0:
					upd, what = imap.NewMessageFlagsUpdated("no-such-message", imap.NewFlagSet(`\Seen`)), "MessageFlagsUpdated(unknown)"
				case 1:
					upd, what = imap.NewMessagesDeleted("no-such-message"), "MessageDeleted(unknown)"
				case 2:
					upd, what = imap.NewMailboxDeleted("no-such-mailbox"), "MailboxDeleted(unknown)"
				case 3:
					upd, what = imap.NewMailboxUpdated("no-such-mailbox", []string{"x"}), "MailboxUpdated(unknown)"
				case 4:
					m, mc := newMsg(a.Arg(1))
					_ = m
					mc.MailboxIDs = []imap.MailboxID{"no-such-mailbox"}
					upd, what = imap.NewMessagesCreated(false, mc), "MessagesCreated(unknown mailbox)"
				case 5:
					// (MessageMailboxesUpdated naming an unknown mailbox is not generated: whether it
					// means "no mailbox" or "error" is not stated, gluon drops the unknown ID)
					upd, what = imap.NewMessageMailboxesUpdated("no-such-message", []imap.MailboxID{imap.MailboxID(st.boxes[0].Remote)}, imap.NewFlagSet()), "MessageMailboxesUpdated(unknown message)"
				case 6:
					// the same new message twice in one batch (duplicate IDs): must create it once
					m, mc := newMsg(a.Arg(1))
					mc.MailboxIDs = []imap.MailboxID{imap.MailboxID(st.boxes[0].Remote)}
					mc2 := *mc
					r := st.submit(imap.NewMessagesCreated(false, mc, &mc2), "MessagesCreated(duplicate id in batch)")
					if e.Failed() {
						return
					}
					if r.Err == nil {
						st.msgs = append(st.msgs, m)
						st.boxes[0].Add(m.obj, false)
					}
					invalid++
					st.flushAll()
					st.check("after-invalid")
					continue
				}
				if upd == nil {
					break
				}
				st.submit(upd, what)
				if e.Failed() {
					return
				}
				invalid++
				e.St.Faults["connector_update_invalid"]++
				st.flushAll()
				st.check("after-invalid")
			case "replay":
				// re-deliver an update that only restates the current state (computed from R now)
				m := pick(a.Arg(0))
				if m == nil {
					break
				}
				st.flushAll()
				var upd imap.Update
				what := ""
				switch abs(a.Arg(1)) % 4 {
				case 3:
					var ids []imap.MailboxID
					for _, b := range st.boxesOf(m.obj) {
						ids = append(ids, imap.MailboxID(b.Remote))
					}
					if len(ids) == 0 {
						break
					}
					parsed, _ := imap.NewParsedMessage(m.lit)
					upd, what = imap.NewMessageUpdated(imap.Message{ID: m.id, Flags: flagSetOf(m.obj), Date: world.SimStart}, m.lit, ids, parsed, false), "restating MessageUpdated"
				case 0:
					upd, what = imap.NewMessageFlagsUpdated(m.id, flagSetOf(m.obj)), "restating MessageFlagsUpdated"
				case 1:
					var ids []imap.MailboxID
					for _, b := range st.boxesOf(m.obj) {
						ids = append(ids, imap.MailboxID(b.Remote))
					}
					upd, what = imap.NewMessageMailboxesUpdated(m.id, ids, flagSetOf(m.obj)), "restating MessageMailboxesUpdated"
				case 2:
					var ids []imap.MailboxID
					for _, b := range st.boxesOf(m.obj) {
						ids = append(ids, imap.MailboxID(b.Remote))
					}
					if len(ids) == 0 {
						break
					}
					parsed, _ := imap.NewParsedMessage(m.lit)
					upd, what = imap.NewMessagesCreated(false, &imap.MessageCreated{Message: imap.Message{ID: m.id, Flags: flagSetOf(m.obj), Date: world.SimStart}, Literal: m.lit, MailboxIDs: ids, ParsedMessage: parsed}), "restating MessagesCreated"
				}
				if upd == nil {
					break
				}
				// \Deleted is per mailbox and not part of what a remote restates
				anyDeleted := false
				for _, b := range st.boxesOf(m.obj) {
					if b.Members[b.Index(m.obj)].Deleted {
						anyDeleted = true
					}
				}
				if anyDeleted {
					break
				}
				r := st.submit(upd, what)
				if e.Failed() {
					return
				}
				if r.Err != nil {
					e.Fail("replay", "%s of message %s completed with error %v", what, m.id, r.Err)
					return
				}
				restated++
				e.St.Faults["update_dup"]++
				ex, xp, ft := st.flushAll()
				if ex+xp+ft > 0 {
					e.FailSig("replay", what, "%s (nothing changed) made a selected session receive %d EXISTS, %d EXPUNGE, %d FETCH responses", what, ex, xp, ft)
					return
				}
				st.check("replay")
			case "c.append", "c.store", "c.move", "c.noop", "c.idle":
				st.client(a, selectBox)
				st.check("client")
			}
			if e.Failed() {
				return
			}
		}
		e.Step = len(sc.Actions) + 1
		// liveness: the stream still works at the end
		r := st.submit(imap.NewNoop(), "final Noop")
		if !e.Failed() && r.Err != nil {
			e.Fail("valid-update", "final Noop completed with error %v", r.Err)
		}
		st.check("final")
		e.St.Nontrivial = valid >= 3 && (invalid > 0 || restated > 0)
		e.St.Probes["valid_updates"] += valid
		e.St.Probes["invalid_updates"] += invalid
		e.St.Probes["restated_updates"] += restated
	})
}

// internalID reads the ID header of a message.
func (st *c06State) internalID(box string, uid uint32) string {
	s, err := st.e.W.Connect()
	if err != nil {
		return ""
	}
	defer func() { s.Cmd("LOGOUT"); s.C.Dead = true }()
	if !s.Cmd("LOGIN user pass").OK() {
		return ""
	}
	s.M.Reset(box, true)
	if !s.Cmd("EXAMINE %s", Quote(box)).OK() {
		return ""
	}
	r := s.Cmd("UID FETCH %d (BODY.PEEK[HEADER.FIELDS (%s)])", uid, gen.IDHeader)
	for _, l := range r.Lines {
		if _, kw, ok := l.Num(); ok && kw == "FETCH" {
			if fd, err := wire.ParseFetch(l); err == nil {
				for name, n := range fd.Items {
					if strings.HasPrefix(name, "BODY[") {
						v := strings.TrimSpace(n.Str)
						if i := strings.Index(v, ":"); i >= 0 {
							return strings.TrimSpace(v[i+1:])
						}
					}
				}
			}
		}
	}
	return ""
}

// client performs a client command and keeps R in step (fresh views: NOOP first).
func (st *c06State) client(a core.Action, selectBox func(int, string)) {
	e := st.e
	i := abs(a.S) % len(st.sess)
	s := st.sess[i]
	if s.C.Dead {
		return
	}
	if a.K == "c.idle" {
		if s.InIdle {
			s.W.Sim.SetLabel(s.Label)
			s.C.Conn.ClientSend([]byte("DONE\r\n"))
			e.W.Quiesce()
			s.Poll()
			s.InIdle = false
		} else if st.sel[i] != "" {
			tag := s.C.NextTag()
			s.W.Sim.SetLabel(s.Label)
			s.C.Conn.ClientSend([]byte(tag + " IDLE\r\n"))
			e.W.Quiesce()
			s.Poll()
			s.InIdle = true
			e.St.Probes["idle_entered"]++
		}
		return
	}
	if s.InIdle {
		return
	}
	if st.sel[i] == "" {
		selectBox(i, st.boxes[abs(a.Arg(0))%len(st.boxes)].Name)
		return
	}
	var box *model.Mailbox
	for _, b := range st.boxes {
		if b.Name == st.sel[i] {
			box = b
		}
	}
	if box == nil {
		return
	}
	r := s.Cmd("NOOP")
	if r.Bye || r.Closed {
		s.C.Dead = true
		st.sel[i] = ""
		return
	}
	if s.M.Count() != len(box.Members) {
		selectBox(i, box.Name)
		if s.M.Count() != len(box.Members) {
			e.Fail("client", "SELECT %q reports %d messages, model has %d", box.Name, s.M.Count(), len(box.Members))
			return
		}
	}
	switch a.K {
	case "c.noop":
	case "c.append":
		g := e.NewMessage(a.Arg(1), gen.Opts{})
		r := s.Do(wire.WithLiteral(fmt.Sprintf("APPEND %s ", Quote(box.Name)), g.Bytes, ""))
		if !r.OK() {
			e.Fail("client", "APPEND answered %s %s", r.Status, r.Text)
			return
		}
		obj, _ := model.NewObj(g.Marker, g.Bytes, nil)
		box.Add(obj, false)
		// the remote assigned the ID: find it in the call log
		for _, c := range st.u.Conn.TakeCalls() {
			if c.Kind == "create_message" && c.Err == nil {
				obj.Remote = c.NewID
				st.msgs = append(st.msgs, &c06Msg{id: imap.MessageID(c.NewID), obj: obj, lit: g.Bytes, alive: true})
			}
		}
	case "c.store":
		if len(box.Members) == 0 {
			return
		}
		q := 1 + abs(a.Arg(1))%len(box.Members)
		flags := FlagsFromMask(a.Arg(2)&0x6f, 0)
		op := abs(a.Arg(3)) % 3
		r := s.Cmd("STORE %d %s (%s)", q, []string{"FLAGS", "+FLAGS", "-FLAGS"}[op], strings.Join(flags, " "))
		if r.OK() {
			box.Store(q-1, []int{0, 1, -1}[op], flags)
		}
	case "c.move":
		if len(box.Members) == 0 || len(st.boxes) < 2 {
			return
		}
		q := 1 + abs(a.Arg(1))%len(box.Members)
		dest := st.boxes[abs(a.Arg(2))%len(st.boxes)]
		if dest == box {
			return
		}
		o := box.Members[q-1].Obj
		r := s.Cmd("MOVE %d %s", q, Quote(dest.Name))
		if r.OK() {
			if e.Sc.C("labels") == 0 {
				box.Remove(o)
			}
			dest.Add(o, false)
		}
	}
	st.u.Conn.TakeCalls()
}
