package props

import (
	"bytes"
	"errors"
	"fmt"
	"io"
	"io/fs"
	"os"
	"path/filepath"
	"runtime/debug"
	"sort"
	"strings"

	"github.com/ProtonMail/gluon/async"
	"github.com/ProtonMail/gluon/imap"
	"github.com/ProtonMail/gluon/store"
	"github.com/ProtonMail/gluon/store/fallback_v0"

	"verifharness/core"
)

// C09 — the message store returns exactly the stored bytes or an error.
//
// Component-level: the real on-disk store (store.NewOnDiskStore) under
// store.NewWriteControlledStore on real files in a per-run directory.  Three kinds of
// runs (Cfg["part"]):
//
//	0  sequential model check       (c09.go)
//	1  corruption / fault injection (c09.go)
//	2  controlled concurrency + linearizability (c09_conc.go)
//
// Knobs that enable input classes with KNOWN findings (default runs avoid them):
//
//	k_trunc27  truncation to exactly header+nonce, and failed Set before the first block
//	k_align    content whose LZ4 block edge coincides with the cipher-block edge
//	k_swap     exchange the files of two IDs
//	k_blocks   reorder / drop / duplicate whole encrypted blocks inside one file
//	k_fbshort  fallback reader configured and file cut to 1..11 bytes
//	k_ueof     the reader given to Set fails with io.ErrUnexpectedEOF
type C09 struct{}

func (C09) ID() string { return "C09" }

var c09SeqKinds = []string{"set", "get", "del", "list", "reopen"}
var c09FaultKinds = []string{"flip", "trunc", "extend", "reopen", "setfail", "swap", "blk"}

func c09SetArgs(r *core.Rand, multiBlock bool) []int {
	a := []int{r.Intn(1000), r.Intn(10), r.Intn(100000), r.Intn(c09NumComp), r.Intn(1 << 20), r.Intn(8)}
	// favour small values: most runs should be cheap
	switch {
	case multiBlock:
		a[1] = []int{5, 6, 7, 7, 8}[r.Intn(5)]
		a[3] = 5
		if a[1] == 5 {
			a[2] = 3*(5+r.Intn(27)) + r.Intn(3) // >= 6 LZ4 blocks
		}
		if a[1] == 8 {
			a[2] = 18 + r.Intn(3) + 21*r.Intn(1000) // 2^19..2^21
		}
	case r.P(1, 2):
		a[1] = []int{0, 1, 2, 2, 2, 3, 9}[r.Intn(7)]
	}
	return a
}

func (C09) Generate(r *core.Rand, tier string, idx int) *core.Scenario {
	sc := &core.Scenario{Property: "C09", Cfg: map[string]int{}}
	part := r.Weighted([]int{35, 35, 30})
	sc.Cfg["part"] = part
	sc.Cfg["maxlen"] = 2<<20 + 2
	if tier == "thorough" {
		sc.Cfg["maxlen"] = 4<<20 + 2
	}
	sc.Cfg["sem"] = []int{0, 0, 1, 2, 3}[r.Intn(5)]
	if part == 2 {
		c09GenConc(r, sc)
		return sc
	}
	if r.P(1, 6) {
		sc.Cfg["fallback"] = 1 + r.Intn(2) // 1 plain v0, 2 v0 with gzip
	}
	if part == 0 {
		sc.Cfg["nids"] = r.Range(1, 6)
		n := r.Range(12, 40)
		for i := 0; i < n; i++ {
			k := c09SeqKinds[r.Weighted([]int{10, 10, 3, 2, 1})]
			a := core.Action{K: k}
			switch k {
			case "set":
				a.A = c09SetArgs(r, r.P(1, 12))
			case "get":
				a.A = []int{r.Intn(1000)}
			case "del":
				a.A = []int{r.Intn(1000), r.Intn(3), r.Intn(4)}
			case "reopen":
				a.A = []int{0}
			}
			sc.Actions = append(sc.Actions, a)
		}
		return sc
	}
	// part 1: corruption
	sc.Cfg["nids"] = r.Range(1, 4)
	if r.P(1, 2) { // (repaired)
		sc.Cfg["k_trunc27"] = 1
	}
	if r.P(1, 12) {
		sc.Cfg["k_align"] = 1
	}
	if r.P(1, 10) && sc.Cfg["nids"] >= 2 {
		sc.Cfg["k_swap"] = 1
	}
	if r.P(1, 10) {
		sc.Cfg["k_blocks"] = 1
	}
	if sc.Cfg["fallback"] != 0 && r.P(1, 2) { // (repaired)
		sc.Cfg["k_fbshort"] = 1
	}
	if r.P(1, 2) { // (repaired)
		sc.Cfg["k_ueof"] = 1
	}
	n := r.Range(6, 16)
	for i := 0; i < sc.Cfg["nids"]; i++ {
		a := core.Action{K: "set", A: c09SetArgs(r, r.P(1, 3))}
		a.A[0] = i
		sc.Actions = append(sc.Actions, a)
	}
	for i := 0; i < n; i++ {
		switch r.Weighted([]int{3, 2, 12, 1, 1}) {
		case 0:
			a := core.Action{K: "set", A: c09SetArgs(r, r.P(1, 3))}
			if sc.Cfg["k_align"] == 1 && r.P(1, 2) {
				a.A[1] = 10
			}
			sc.Actions = append(sc.Actions, a)
		case 1:
			sc.Actions = append(sc.Actions, core.Action{K: "get", A: []int{r.Intn(1000)}})
		case 2:
			w := []int{10, 12, 4, 2, 2, 0, 0}
			if sc.Cfg["k_swap"] == 1 {
				w[5] = 8
			}
			if sc.Cfg["k_blocks"] == 1 {
				w[6] = 10
			}
			k := c09FaultKinds[r.Weighted(w)]
			tgt := r.Intn(1000)
			a := core.Action{K: k, A: []int{tgt, r.Intn(16), r.Intn(1 << 20), r.Intn(1 << 20), 1 + r.Intn(255)}}
			switch k {
			case "reopen":
				a.A = []int{r.Intn(3)}
			case "setfail":
				a.A = append(c09SetArgs(r, true), r.Intn(1<<22))
				a.A[0] = tgt
			case "trunc":
				if sc.Cfg["k_align"] == 1 && r.P(1, 2) {
					a.A[1] = 5
				}
			}
			sc.Actions = append(sc.Actions, a)
			if k != "reopen" {
				// read the damaged file back (same target selector)
				sc.Actions = append(sc.Actions, core.Action{K: "get", A: []int{tgt}})
			} else if r.P(1, 2) {
				sc.Actions = append(sc.Actions, core.Action{K: "get", A: []int{r.Intn(1000)}})
			}
		case 3:
			sc.Actions = append(sc.Actions, core.Action{K: "del", A: []int{r.Intn(1000), r.Intn(3), r.Intn(4)}})
		case 4:
			sc.Actions = append(sc.Actions, core.Action{K: "list"})
		}
	}
	// final sweep
	sc.Actions = append(sc.Actions, core.Action{K: "reopen", A: []int{0}}, core.Action{K: "list"})
	for i := 0; i < sc.Cfg["nids"]; i++ {
		sc.Actions = append(sc.Actions, core.Action{K: "get", A: []int{4*i + 3}})
	}
	return sc
}

func (p C09) Execute(sc *core.Scenario, keepLog bool) *core.Result {
	if sc.C("part") == 2 {
		return c09ExecConc(sc, keepLog)
	}
	return c09ExecSeq(sc, keepLog)
}

// ---- the world: a directory and the store objects over it ----

type c09World struct {
	dir    string
	passes [][]byte
	cur    int
	sem    int
	fbKind int
	fb     store.Fallback
	disk   store.Store
	wc     *store.WriteControlledStore
}

func c09NewWorld(sc *core.Scenario) (*c09World, error) {
	dir, err := os.MkdirTemp(ScratchBase, "c09-")
	if err != nil {
		return nil, err
	}
	w := &c09World{dir: filepath.Join(dir, "store"), sem: sc.C("sem"), fbKind: sc.C("fallback")}
	w.passes = [][]byte{[]byte("passphrase-zero"), []byte("passphrase-one"), []byte("passphrase-zerp")}
	switch w.fbKind {
	case 1:
		w.fb = fallback_v0.NewOnDiskStoreV0()
	case 2:
		w.fb = fallback_v0.NewOnDiskStoreV0WithCompressor(&fallback_v0.GZipCompressor{})
	}
	if err := w.open(0); err != nil {
		os.RemoveAll(dir)
		return nil, err
	}
	return w, nil
}

func (w *c09World) destroy() { os.RemoveAll(filepath.Dir(w.dir)) }

func (w *c09World) open(pass int) error {
	var opts []store.Option
	if w.sem > 0 {
		opts = append(opts, store.WithSemaphore(store.NewSemaphore(w.sem, async.NoopPanicHandler{})))
	}
	if w.fb != nil {
		opts = append(opts, store.WithFallback(w.fb))
	}
	d, err := store.NewOnDiskStore(w.dir, w.passes[pass], opts...)
	if err != nil {
		return err
	}
	w.disk = d
	w.wc = store.NewWriteControlledStore(d)
	w.cur = pass
	return nil
}

func (w *c09World) path(id imap.InternalMessageID) string { return filepath.Join(w.dir, id.String()) }

// clean replaces run-specific path names in an error text.
func (w *c09World) clean(err error) string {
	if err == nil {
		return "<nil>"
	}
	return strings.ReplaceAll(err.Error(), filepath.Dir(w.dir), "<dir>")
}

func c09MkIDs(n int) ([]imap.InternalMessageID, error) {
	ids := make([]imap.InternalMessageID, n)
	for i := range ids {
		id, err := imap.InternalMessageIDFromString(c09ID(i))
		if err != nil {
			return nil, err
		}
		ids[i] = id
	}
	return ids, nil
}

// c09Call runs f, turning a panic into a string: the panic value and the gluon frames of
// the stack, without addresses (the text must be the same in every process).
func c09Call(f func()) (pan string) {
	defer func() {
		if r := recover(); r != nil {
			pan = fmt.Sprintf("%v", r) + c09GluonFrames(string(debug.Stack()))
		}
	}()
	f()
	return ""
}

func c09GluonFrames(stack string) string {
	lines := strings.Split(stack, "\n")
	var sb strings.Builder
	for i := 0; i+1 < len(lines); i++ {
		l := lines[i]
		if !strings.HasPrefix(l, "github.com/ProtonMail/gluon/") {
			continue
		}
		if k := strings.LastIndexByte(l, '('); k > 0 {
			l = l[:k]
		}
		loc := strings.TrimSpace(lines[i+1])
		if k := strings.Index(loc, " +0x"); k > 0 {
			loc = loc[:k]
		}
		if k := strings.Index(loc, "/gluon/"); k >= 0 {
			loc = loc[k+len("/gluon/"):]
		}
		sb.WriteString("\n  at " + strings.TrimPrefix(l, "github.com/ProtonMail/gluon/") + " (" + loc + ")")
	}
	return sb.String()
}

// ---- sequential / corruption executor ----

type c09Ent struct {
	exists    bool   // a file is expected to be listed
	listMaybe bool   // after a failed Set: listed or not, both fine
	has       bool   // data is the stored value
	data      []byte // value of the last successful Set
	alt       []byte // other acceptable value (value before a failed Set)
	hasAlt    bool
	pass      int      // passphrase index the file was written with
	faults    []string // injected faults since the last successful Set
	maybeGone bool     // a failed multi-delete may or may not have removed it
	legacy    bool     // written through the fallback writer (v0 format)
	aligned   bool     // value built by aligned() (knob k_align)
}

type c09Seq struct {
	sc    *core.Scenario
	tr    *core.Tracer
	st    *core.Stats
	w     *c09World
	ids   []imap.InternalMessageID
	ents  []c09Ent
	v     *core.Violation
	infra error
	step  int
	base  map[int64]bool
	sets  int
	gets  int
	okGet int
}

func (x *c09Seq) fail(oracle, sigDetail, format string, args ...any) {
	if x.v != nil {
		return
	}
	d := fmt.Sprintf(format, args...)
	x.v = &core.Violation{Property: "C09", Oracle: oracle, Detail: d, Sig: oracle + ": " + sigDetail, Step: x.step}
	x.tr.Event("VIOLATION", oracle, d)
}

func (x *c09Seq) failed() bool { return x.v != nil || x.infra != nil }

func c09ExecSeq(sc *core.Scenario, keepLog bool) *core.Result {
	res := &core.Result{Stats: core.NewStats()}
	tr := &core.Tracer{Keep: keepLog}
	w, err := c09NewWorld(sc)
	if err != nil {
		res.Infra = err
		return res
	}
	defer w.destroy()
	nids := min(max(sc.C("nids"), 1), 6)
	ids, err := c09MkIDs(nids + 1) // the last one is private to the harness (alignment search)
	if err != nil {
		res.Infra = err
		return res
	}
	x := &c09Seq{sc: sc, tr: tr, st: &res.Stats, w: w, ids: ids, ents: make([]c09Ent, nids), base: map[int64]bool{}}
	gs, ok := c09Settle()
	if !ok {
		res.Infra = fmt.Errorf("c09: goroutines of an earlier run never parked")
		return res
	}
	for _, g := range gs {
		x.base[g.id] = true
	}
	tr.Event("cfg", sc.C("part"), nids, sc.C("sem"), sc.C("fallback"))
	for i, a := range sc.Actions {
		x.step = i + 1
		x.exec(a)
		if x.failed() {
			break
		}
	}
	res.V = x.v
	res.Infra = x.infra
	res.Stats.Actions = x.step
	res.Stats.TraceHash = tr.Hash()
	res.Stats.Nontrivial = x.sets >= 1 && x.gets >= 1 && (sc.C("part") == 0 && x.okGet >= 1 || sc.C("part") == 1 && len(res.Stats.Faults) > 0)
	if keepLog {
		res.Log = tr.Log
	}
	return res
}

func (x *c09Seq) nids() int { return len(x.ents) }

// pick maps a selector to an ID index: usually one of the IDs that have a file.
func (x *c09Seq) pick(sel int) int {
	var ex []int
	for i := range x.ents {
		if x.ents[i].exists {
			ex = append(ex, i)
		}
	}
	if sel < 0 {
		sel = -sel
	}
	if sel%4 == 3 || len(ex) == 0 {
		return (sel / 4) % x.nids()
	}
	return ex[(sel/4)%len(ex)]
}

func (x *c09Seq) exec(a core.Action) {
	switch a.K {
	case "set":
		x.doSet(a, -1)
	case "setfail":
		x.doSet(a, c09abs(a.Arg(6)))
	case "get":
		x.doGet(x.pick(a.Arg(0)))
	case "del":
		x.doDel(a)
	case "list":
		x.doList()
	case "reopen":
		p := ((a.Arg(0) % 3) + 3) % 3
		if x.sc.C("part") == 0 {
			p = 0
		}
		if err := x.w.open(p); err != nil {
			x.infra = err
			return
		}
		if p != 0 {
			x.st.Faults["reopen_other_passphrase"]++
		}
		x.tr.Event("reopen", p)
	case "flip":
		x.doFlip(a)
	case "trunc":
		x.doTrunc(a)
	case "extend":
		x.doExtend(a)
	case "swap":
		x.doSwap(a)
	case "blk":
		x.doBlk(a)
	}
}

// errReader returns its error after the data.
type c09ErrReader struct {
	r   io.Reader
	err error
}

func (e *c09ErrReader) Read(p []byte) (int, error) {
	n, err := e.r.Read(p)
	if err == io.EOF {
		return n, e.err
	}
	return n, err
}

var errC09Reader = errors.New("c09: injected reader failure")

// c09ChunkReader hands the data out in short reads of varying size.
type c09ChunkReader struct {
	data []byte
	rng  c09rng
}

func (c *c09ChunkReader) Read(p []byte) (int, error) {
	if len(c.data) == 0 {
		return 0, io.EOF
	}
	n := 1 + int(c.rng.next()%7000)
	if c.rng.next()%4 == 0 {
		n = 1 + int(c.rng.next()%3)
	}
	n = min(n, len(p), len(c.data))
	copy(p, c.data[:n])
	c.data = c.data[n:]
	return n, nil
}

// aligned builds (knob k_align) a value of 4 LZ4 blocks + tail whose fourth LZ4 block ends
// exactly where the first cipher block ends.  Black-box search on the file size.
func (x *c09Seq) aligned(seed uint64, tail int) []byte {
	tmp := x.ids[len(x.ids)-1]
	base := c09Content(seed, c09Cipher, 5)
	want := int64(c09DataStart + c09Cipher + 4 + 2*c09Tag)
	for l := 200; l < 420; l++ {
		for i := 0; i < l; i++ {
			base[3*c09LZ4Block+i] = 0
		}
		if err := x.w.disk.Set(tmp, bytes.NewReader(base)); err != nil {
			break
		}
		st, err := os.Stat(x.w.path(tmp))
		if err != nil {
			break
		}
		if st.Size() == want {
			x.st.Probes["aligned_content_built"]++
			os.Remove(x.w.path(tmp))
			return append(base, c09Content(seed+1, 1+tail%200000, 5)...)
		}
	}
	os.Remove(x.w.path(tmp))
	return nil
}

func (x *c09Seq) doSet(a core.Action, failAt int) {
	id := ((a.Arg(0) % x.nids()) + x.nids()) % x.nids()
	class, p, comp, cseed, via := a.Arg(1), a.Arg(2), a.Arg(3), a.Arg(4), a.Arg(5)
	if class < 0 {
		class = -class
	}
	if p < 0 {
		p = -p
	}
	maxLen := x.sc.C("maxlen")
	if maxLen <= 0 {
		maxLen = 2<<20 + 2
	}
	var data []byte
	isAligned := false
	if class%11 == 10 && x.sc.C("k_align") == 1 && failAt < 0 {
		data = x.aligned(core.Mix(x.sc.Seed, uint64(cseed)), p)
		isAligned = data != nil
	}
	if data == nil {
		if class%11 == 10 {
			class = 9
		}
		n, force := c09Len(class%11, p, maxLen)
		if force {
			comp = 5
		}
		if failAt >= 0 && x.sc.C("k_trunc27") == 0 {
			// without the knob a reader failure comes only after the first cipher block
			// has reached the file (see finding "header+nonce only file reads as empty")
			comp = 5
			if n < 400000 {
				n = 400000 + n%100000
			}
		}
		data = c09Content(core.Mix(x.sc.Seed, uint64(cseed)*31+uint64(id)), n, comp)
	}
	n := len(data)
	e := &x.ents[id]
	idv := x.ids[id]
	var err error
	var how string
	var rd io.Reader = bytes.NewReader(data)
	cut := 0
	if failAt >= 0 {
		cut = failAt % (n + 1)
		if x.sc.C("k_trunc27") == 0 && cut < 330000 {
			cut = 330000 + cut%(n+1-330000)
		}
		rd = &c09ErrReader{r: bytes.NewReader(data[:cut]), err: errC09Reader}
		how = fmt.Sprintf("setfail@%d", cut)
		if x.sc.C("k_ueof") == 1 && via%2 == 1 {
			// the reader fails with io.ErrUnexpectedEOF (what a cut-off upstream returns)
			rd = &c09ErrReader{r: bytes.NewReader(data[:cut]), err: io.ErrUnexpectedEOF}
			how = fmt.Sprintf("setfail-ueof@%d", cut)
		}
	}
	via = ((via % 8) + 8) % 8
	if failAt < 0 && via == 5 && n <= 300000 {
		rd = &c09ChunkReader{data: data, rng: c09rng{s: uint64(cseed)}}
	}
	pan := c09Call(func() {
		switch {
		case failAt >= 0:
			err = x.w.wc.Set(idv, rd)
		case via == 7 && x.w.fb != nil:
			how = "legacy-write"
			var gcmErr error
			gcm, gcmErr := store.NewCipher(x.w.passes[x.w.cur])
			if gcmErr != nil {
				err = gcmErr
				return
			}
			err = x.w.fb.Write(gcm, x.w.path(idv), data)
		case via == 6:
			how = "SetUnchecked"
			err = x.w.wc.SetUnchecked(idv, rd)
		default:
			how = "Set"
			err = x.w.wc.Set(idv, rd)
		}
	})
	x.tr.Event("set", id, how, n, comp%c09NumComp, c09Hash(data), err != nil)
	if pan != "" {
		x.fail("panic", "Set", "Set(id%d, %d bytes) panicked: %s", id, n, pan)
		return
	}
	x.sets++
	x.st.Checks++
	if failAt >= 0 {
		x.st.Faults["reader_error"]++
		if err == nil {
			x.fail("set-error-lost", "reader error swallowed", "Set(id%d) returned nil although its reader failed (%s) after %d of %d bytes", id, how, cut, n)
			return
		}
		old := *e
		*e = c09Ent{exists: true, listMaybe: true, has: true, data: data, pass: x.w.cur, faults: []string{"setfail"}}
		if old.has && len(old.faults) == 0 && !old.maybeGone {
			e.alt, e.hasAlt = old.data, true
		}
		x.leak("failed Set", "setfail", "setfail")
		return
	}
	if err != nil {
		x.fail("set-error", "Set failed", "%s(id%d, %d bytes, comp %d) failed without an injected fault: %s", how, id, n, comp%c09NumComp, x.w.clean(err))
		return
	}
	*e = c09Ent{exists: true, has: true, data: data, pass: x.w.cur, legacy: how == "legacy-write", aligned: isAligned}
	if st, err := os.Stat(x.w.path(idv)); err == nil && !e.legacy {
		sz := st.Size()
		nb := (sz - c09DataStart + c09EncBlock - 1) / c09EncBlock
		if nb >= 2 {
			x.st.Probes["multi_cipher_block_file"]++
		}
		stream := sz - c09DataStart - nb*c09Tag
		if stream > 0 && stream%c09Cipher == 0 {
			x.st.Probes["stream_exact_cipher_multiple"]++
		}
		if stream > 0 && (stream%c09Cipher <= 4 || stream%c09Cipher >= c09Cipher-4) {
			x.st.Probes["stream_near_cipher_edge"]++
		}
	}
	if n >= 1<<20 {
		x.st.Probes["value_1MiB_or_more"]++
	}
	x.leak("Set", "clean", "")
}

func c09NotExist(err error) bool { return errors.Is(err, fs.ErrNotExist) }

func c09Describe(got, want []byte) (class, text string) {
	switch {
	case len(got) == 0:
		return "empty", "an EMPTY value"
	case len(got) < len(want) && bytes.Equal(got, want[:len(got)]):
		return "shorter", fmt.Sprintf("a silently SHORTER value (the first %d bytes)", len(got))
	case len(got) > len(want) && bytes.Equal(got[:len(want)], want):
		return "longer", fmt.Sprintf("a LONGER value (%d extra bytes)", len(got)-len(want))
	}
	i := 0
	for i < len(got) && i < len(want) && got[i] == want[i] {
		i++
	}
	return "different", fmt.Sprintf("DIFFERENT bytes (%d bytes, first difference at offset %d)", len(got), i)
}

func (x *c09Seq) doGet(id int) {
	e := &x.ents[id]
	var got []byte
	var err error
	pan := c09Call(func() { got, err = x.w.wc.Get(x.ids[id]) })
	x.gets++
	x.st.Checks++
	ctx := "clean"
	if len(e.faults) > 0 {
		ctx = e.faults[len(e.faults)-1]
	} else if e.has && e.pass != x.w.cur {
		ctx = "wrongpass"
	}
	errClass := "ok"
	if err != nil {
		errClass = "err"
		if c09NotExist(err) {
			errClass = "notexist"
		}
	}
	x.tr.Event("get", id, ctx, errClass, len(got), c09Hash(got))
	if pan != "" {
		x.fail("panic", "Get "+ctx, "Get(id%d) panicked (file state: %s, faults %v): %s", id, ctx, e.faults, pan)
		return
	}
	defer x.leak("Get", ctx, strings.Join(e.faults, "+"))
	switch {
	case !e.has && !e.exists:
		if err == nil {
			x.fail("get-absent", "value for absent id", "Get(id%d) returned %d bytes and no error for an ID that is not stored", id, len(got))
		}
	case len(e.faults) == 0 && e.pass == x.w.cur && !e.maybeGone:
		if err != nil {
			x.fail("get-clean", "error", "Get(id%d) failed without any fault: %s (stored %d bytes)", id, x.w.clean(err), len(e.data))
		} else if !bytes.Equal(got, e.data) {
			c, t := c09Describe(got, e.data)
			x.fail("get-clean", c, "Get(id%d) returned %s; stored value has %d bytes; no fault was injected", id, t, len(e.data))
		} else {
			x.okGet++
		}
	default:
		if err != nil {
			if e.maybeGone && c09NotExist(err) {
				*e = c09Ent{}
			}
			x.st.Probes["fault_detected_by_get"]++
			return
		}
		if len(e.faults) == 0 && !e.maybeGone && e.pass != x.w.cur {
			// the only thing wrong is the passphrase: the statement demands an error
			x.fail("get-wrongpass", "value readable with another passphrase", "Get(id%d) returned %d bytes and no error although the store was reopened with a different passphrase than the one the file was written with", id, len(got))
			return
		}
		if bytes.Equal(got, e.data) || e.hasAlt && bytes.Equal(got, e.alt) {
			x.st.Probes["fault_harmless_exact_value"]++
			if e.maybeGone {
				e.maybeGone = false
			}
			return
		}
		c, t := c09Describe(got, e.data)
		fl := strings.Join(e.faults, "+")
		if fl == "" {
			fl = ctx
		}
		// facts about the file for the known-finding matcher
		attrs := map[string]bool{}
		if st, err := os.Stat(x.w.path(x.ids[id])); err == nil && st.Size() == c09DataStart {
			attrs["file_header_nonce_only"] = true
		}
		// the value returned ends at an LZ4 block edge (64 KiB of content): the file was cut
		// where a cipher-block boundary coincides with an LZ4 block edge.  Content built for
		// that (knob k_align) meets it always, other content by chance.
		if e.aligned || len(got) < len(e.data) && len(got)%c09LZ4Block == 0 && bytes.Equal(got, e.data[:len(got)]) {
			attrs["aligned_content"] = true
		}
		for _, f := range e.faults {
			attrs["fault:"+f] = true
		}
		defer func() {
			if x.v != nil && x.v.Oracle == "get-corrupt" {
				x.v.Attrs = core.SortedKeys(attrs)
			}
		}()
		x.fail("get-corrupt", ctx+" "+c, "after fault %s Get(id%d) returned %s and NO error; the stored value has %d bytes", fl, id, t, len(e.data))
	}
}

func (x *c09Seq) doDel(a core.Action) {
	first := x.pick(a.Arg(0))
	cnt := 1 + ((a.Arg(1)%3)+3)%3
	if cnt > x.nids() {
		cnt = x.nids()
	}
	var idx []int
	var ids []imap.InternalMessageID
	for k := 0; k < cnt; k++ {
		i := (first + k) % x.nids()
		idx = append(idx, i)
		ids = append(ids, x.ids[i])
	}
	unchecked := a.Arg(2)%4 == 3
	var err error
	pan := c09Call(func() {
		if unchecked {
			err = x.w.wc.DeleteUnchecked(ids...)
		} else {
			err = x.w.wc.Delete(ids...)
		}
	})
	x.tr.Event("del", idx, unchecked, err != nil)
	x.st.Checks++
	if pan != "" {
		x.fail("panic", "Delete", "Delete(%v) panicked: %s", idx, pan)
		return
	}
	allThere := true
	for _, i := range idx {
		if !x.ents[i].exists || x.ents[i].listMaybe || x.ents[i].maybeGone {
			allThere = false
		}
	}
	if err == nil {
		for _, i := range idx {
			x.ents[i] = c09Ent{}
		}
		return
	}
	if allThere {
		x.fail("delete-error", "Delete failed", "Delete(%v) failed although every ID was stored: %s", idx, x.w.clean(err))
		return
	}
	// some ID was missing: each listed ID is now either gone or untouched
	for _, i := range idx {
		if x.ents[i].exists {
			x.ents[i].maybeGone = true
			x.ents[i].listMaybe = true
		}
	}
}

func (x *c09Seq) doList() {
	var got []imap.InternalMessageID
	var err error
	pan := c09Call(func() { got, err = x.w.wc.List() })
	x.st.Checks++
	if pan != "" {
		x.fail("panic", "List", "List panicked: %s", pan)
		return
	}
	if err != nil {
		x.tr.Event("list", "err")
		x.fail("list", "error", "List failed: %s", x.w.clean(err))
		return
	}
	seen := map[string]int{}
	var names []string
	for _, id := range got {
		seen[id.String()]++
		names = append(names, id.String())
	}
	sort.Strings(names)
	x.tr.Event("list", names)
	for i := range x.ents {
		name := x.ids[i].String()
		c := seen[name]
		delete(seen, name)
		e := &x.ents[i]
		switch {
		case c > 1:
			x.fail("list", "duplicate", "List returned id%d %d times", i, c)
		case e.listMaybe:
			if c == 0 && e.maybeGone {
				*e = c09Ent{}
			}
		case e.exists && c == 0:
			x.fail("list", "missing", "List does not contain stored id%d (got %v)", i, names)
		case !e.exists && c == 1:
			x.fail("list", "extra", "List contains id%d which is not stored (got %v)", i, names)
		}
	}
	for _, name := range core.SortedKeys(seen) {
		x.fail("list", "unknown id", "List returned an ID nobody stored: %s", name)
	}
}

// leak: after the operation returned and everything parked, no goroutine of the store may
// remain.
func (x *c09Seq) leak(op, ctx, faults string) {
	if x.failed() {
		return
	}
	gs, ok := c09Settle()
	if !ok {
		x.infra = fmt.Errorf("c09: goroutines did not park after %s: %+v", op, gs)
		return
	}
	l := c09StoreGoroutines(gs, x.base)
	if len(l) == 0 {
		return
	}
	for _, g := range l {
		x.base[g.id] = true
	}
	x.tr.Event("leak", op, ctx, len(l))
	x.fail("goroutine-leak", op+" "+ctx, "%d goroutine(s) of the store still blocked after %s returned (file state: %s; faults: %s): [%s] in %s", len(l), op, ctx, faults, l[0].state, l[0].top)
}

// ---- faults ----

// target returns an ID index that has a regular (non-legacy-irrelevant) file, or -1.
func (x *c09Seq) target(sel int) (int, string, int64) {
	id := x.pick(sel)
	if !x.ents[id].exists {
		return -1, "", 0
	}
	p := x.w.path(x.ids[id])
	st, err := os.Stat(p)
	if err != nil {
		return -1, "", 0
	}
	return id, p, st.Size()
}

func c09Blocks(size int64) int64 {
	if size <= c09DataStart {
		return 0
	}
	return (size - c09DataStart + c09EncBlock - 1) / c09EncBlock
}

func c09BlockSpan(size, i int64) (lo, hi int64) {
	lo = c09DataStart + i*c09EncBlock
	hi = min(lo+c09EncBlock, size)
	return
}

func (x *c09Seq) fault(id int, kind string) {
	x.ents[id].faults = append(x.ents[id].faults, kind)
	base := kind
	if i := strings.IndexByte(kind, ':'); i >= 0 {
		base = kind[:i]
	}
	x.st.Faults[base]++
	x.st.Faults[kind]++
}

var c09FlipNames = []string{"header_id", "version", "nonce", "block_first", "block_last_ct", "block_tag", "block_last", "random"}

func (x *c09Seq) doFlip(a core.Action) {
	id, path, size := x.target(a.Arg(0))
	if id < 0 || size == 0 {
		return
	}
	cls := ((a.Arg(1) % 8) + 8) % 8
	p1, p2 := int64(c09abs(a.Arg(2))), int64(c09abs(a.Arg(3)))
	mask := byte(a.Arg(4))
	if mask == 0 {
		mask = 1
	}
	nb := c09Blocks(size)
	var off int64
	switch cls {
	case 0:
		off = p1 % c09HdrID
	case 1:
		off = c09HdrID + p1%4
	case 2:
		off = c09HdrLen + p1%c09NonceLen
	case 3, 4, 5, 6:
		if nb == 0 {
			off = p2 % size
			cls = 7
			break
		}
		lo, hi := c09BlockSpan(size, p1%nb)
		switch cls {
		case 3:
			off = lo
		case 4:
			off = max(lo, hi-c09Tag-1)
		case 5:
			off = max(lo, hi-c09Tag+p2%c09Tag)
		case 6:
			off = hi - 1
		}
	case 7:
		off = (p1*1048573 + p2) % size
	}
	if off >= size {
		off = size - 1
	}
	f, err := os.OpenFile(path, os.O_RDWR, 0)
	if err != nil {
		x.infra = err
		return
	}
	defer f.Close()
	var b [1]byte
	if _, err := f.ReadAt(b[:], off); err != nil {
		x.infra = err
		return
	}
	b[0] ^= mask
	if _, err := f.WriteAt(b[:], off); err != nil {
		x.infra = err
		return
	}
	x.fault(id, "flip:"+c09FlipNames[cls])
	x.tr.Event("flip", id, c09FlipNames[cls], off, size, mask)
}

var c09TruncNames = []string{"zero", "in_header", "header_end", "in_nonce", "nonce_end", "block_boundary", "boundary_minus1", "boundary_plus1", "in_last_tag", "random", "short_first_block"}

func (x *c09Seq) doTrunc(a core.Action) {
	id, path, size := x.target(a.Arg(0))
	if id < 0 || size == 0 {
		return
	}
	cls := ((a.Arg(1) % 11) + 11) % 11
	p1, p2 := int64(c09abs(a.Arg(2))), int64(c09abs(a.Arg(3)))
	nb := c09Blocks(size)
	if cls == 4 && x.sc.C("k_trunc27") == 0 {
		cls = 3
	}
	if (cls == 5 || cls == 6 || cls == 7) && nb < 2 {
		cls = []int{8, 9, 10}[p2%3]
	}
	var off int64
	switch cls {
	case 0:
		off = 0
	case 1:
		off = 1 + p1%(c09HdrLen-1)
		if x.w.fb != nil && x.sc.C("k_fbshort") == 0 && off < c09NonceLen {
			off = c09NonceLen + p1%(c09HdrLen-c09NonceLen)
		}
	case 2:
		off = c09HdrLen
	case 3:
		off = c09HdrLen + 1 + p1%(c09NonceLen-1)
	case 4:
		off = c09DataStart
	case 5, 6, 7:
		off = c09DataStart + (1+p1%(nb-1))*c09EncBlock
		if cls == 6 {
			off--
		} else if cls == 7 {
			off++
		}
	case 8:
		off = size - 1 - p1%c09Tag
	case 9:
		if size <= c09DataStart+1 {
			off = p1 % size
		} else {
			off = c09DataStart + 1 + (p1*1048573+p2)%(size-c09DataStart-1)
		}
	case 10:
		off = c09DataStart + 1 + p1%(c09Tag+2)
	}
	if off == c09DataStart && x.sc.C("k_trunc27") == 0 {
		off++
	}
	if x.w.fb != nil && x.sc.C("k_fbshort") == 0 && off > 0 && off < c09NonceLen {
		// files of 1..11 bytes with the fallback reader configured: known finding
		off = c09NonceLen
	}
	if off < 0 || off >= size {
		return // would not shorten the file
	}
	if err := os.Truncate(path, off); err != nil {
		x.infra = err
		return
	}
	x.fault(id, "trunc:"+c09TruncNames[cls])
	x.tr.Event("trunc", id, c09TruncNames[cls], off, size)
}

func (x *c09Seq) doExtend(a core.Action) {
	id, path, size := x.target(a.Arg(0))
	if id < 0 {
		return
	}
	cls := ((a.Arg(1) % 7) + 7) % 7
	n := []int{1, 15, 16, 17, c09EncBlock, 1 + c09abs(a.Arg(2))%70000, 28}[cls]
	// resulting sizes that are known findings are left to the knob runs
	for (size+int64(n) == c09DataStart && x.sc.C("k_trunc27") == 0) ||
		(x.w.fb != nil && x.sc.C("k_fbshort") == 0 && size+int64(n) < c09NonceLen) {
		n++
	}
	var g []byte
	if a.Arg(3)%4 == 0 {
		g = make([]byte, n) // zeros
	} else {
		g = c09Content(uint64(a.Arg(3)), n, 5)
	}
	f, err := os.OpenFile(path, os.O_WRONLY|os.O_APPEND, 0)
	if err != nil {
		x.infra = err
		return
	}
	_, err = f.Write(g)
	f.Close()
	if err != nil {
		x.infra = err
		return
	}
	if (size-c09DataStart)%c09EncBlock == 0 {
		x.st.Probes["extend_after_full_block"]++
	}
	x.fault(id, "extend")
	x.tr.Event("extend", id, n, size)
}

func (x *c09Seq) doSwap(a core.Action) {
	if x.sc.C("k_swap") == 0 {
		return
	}
	i, pi, _ := x.target(a.Arg(0))
	j, pj, _ := x.target(a.Arg(2))
	if i < 0 || j < 0 {
		return
	}
	if i == j {
		for k := 1; k < x.nids(); k++ {
			c := (i + k) % x.nids()
			if x.ents[c].exists {
				j, pj = c, x.w.path(x.ids[c])
				break
			}
		}
	}
	if i == j {
		return
	}
	// (after an earlier fault a file the model still counts may be gone from the disk:
	// nothing to exchange then)
	if _, err := os.Stat(pi); err != nil {
		return
	}
	if _, err := os.Stat(pj); err != nil {
		return
	}
	tmp := pi + ".swap"
	if err := os.Rename(pi, tmp); err != nil {
		x.infra = err
		return
	}
	if err := os.Rename(pj, pi); err != nil {
		x.infra = err
		return
	}
	if err := os.Rename(tmp, pj); err != nil {
		x.infra = err
		return
	}
	x.fault(i, "swap")
	x.ents[j].faults = append(x.ents[j].faults, "swap")
	x.tr.Event("swap", i, j)
}

var c09BlkNames = []string{"swap", "drop", "dup"}

// doBlk rearranges whole encrypted blocks inside one file (knob k_blocks).
func (x *c09Seq) doBlk(a core.Action) {
	if x.sc.C("k_blocks") == 0 {
		return
	}
	id, path, size := x.target(a.Arg(0))
	if id < 0 {
		return
	}
	full := (size - c09DataStart) / c09EncBlock // number of full-size blocks
	if full < 1 || c09Blocks(size) < 2 {
		return
	}
	b, err := os.ReadFile(path)
	if err != nil {
		x.infra = err
		return
	}
	op := ((a.Arg(1) % 3) + 3) % 3
	i := int64(c09abs(a.Arg(2))) % full
	j := int64(c09abs(a.Arg(3))) % full
	blk := func(k int64) []byte {
		lo, hi := c09BlockSpan(size, k)
		return b[lo:hi]
	}
	out := append([]byte(nil), b[:c09DataStart]...)
	nb := c09Blocks(size)
	switch op {
	case 0:
		if full < 2 {
			op = 1
		} else if i == j {
			j = (i + 1) % full
		}
	}
	for k := int64(0); k < nb; k++ {
		switch {
		case op == 0 && k == i:
			out = append(out, blk(j)...)
		case op == 0 && k == j:
			out = append(out, blk(i)...)
		case op == 1 && k == i:
		case op == 2 && k == i:
			out = append(out, blk(k)...)
			out = append(out, blk(k)...)
		default:
			out = append(out, blk(k)...)
		}
	}
	if err := os.WriteFile(path, out, 0o600); err != nil {
		x.infra = err
		return
	}
	x.fault(id, "blk:"+c09BlkNames[op])
	x.tr.Event("blk", id, c09BlkNames[op], i, j, nb)
}

func c09abs(x int) int {
	if x < 0 {
		return -x
	}
	return x
}
