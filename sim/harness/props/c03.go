package props

import (
	"verifharness/core"
	"verifharness/world"
)

// C03 — mailbox contents follow the reference semantics of the message commands.
type C03 struct{}

func (C03) ID() string { return "C03" }

var mailKinds = []string{"append", "store", "expunge", "uidexpunge", "copy", "move", "fetch", "select", "close", "noop", "store-recent", "unselect"}

func genMailAction(r *core.Rand, nsess int, weights []int) core.Action {
	k := mailKinds[r.Weighted(weights)]
	a := core.Action{K: k, S: r.Intn(nsess)}
	for i := 0; i < 8; i++ {
		a.A = append(a.A, r.Intn(1000))
	}
	return a
}

func (C03) Generate(r *core.Rand, tier string, idx int) *core.Scenario {
	sc := &core.Scenario{Property: "C03", Cfg: map[string]int{}}
	sc.Cfg["nsess"] = r.Range(1, 3)
	sc.Cfg["nbox"] = r.Range(2, 3)
	sc.Cfg["labels"] = r.Intn(2)
	sc.Cfg["nopar"] = r.Intn(2)
	if r.P(1, 8) {
		sc.Cfg["appdel"] = 1 // allow APPEND with \Deleted in its flag list
	}
	n := r.Range(15, 45)
	//                 append store expunge uidexp copy move fetch select close noop recent unselect
	weights := []int{10, 10, 4, 2, 6, 5, 3, 4, 1, 1, 1, 1}
	for i := 0; i < sc.Cfg["nsess"]; i++ {
		sc.Actions = append(sc.Actions, core.Action{K: "select", S: i, A: []int{r.Intn(3), 0}})
	}
	for i := 0; i < n; i++ {
		sc.Actions = append(sc.Actions, genMailAction(r, sc.Cfg["nsess"], weights))
	}
	return sc
}

func (C03) Execute(sc *core.Scenario, keepLog bool) *core.Result {
	cfg := world.Config{
		Users:              []world.UserCfg{{Names: []string{"user"}, Password: "pass"}},
		DisableParallelism: sc.C("nopar") == 1,
	}
	return RunInBubble("C03", sc, keepLog, cfg, func(e *Env) {
		e.W.Users[0].Conn.MoveRemovesSource = sc.C("labels") == 0
		m := NewMail(e, max(1, sc.C("nsess")), max(2, sc.C("nbox")), true)
		m.CheckEach = true
		if e.Failed() {
			return
		}
		for i, a := range sc.Actions {
			e.Step = i + 1
			m.Exec(a)
			if e.Failed() {
				return
			}
		}
		e.St.Nontrivial = m.OKs >= 3
		e.CheckModel("content-final", true, true)
	})
}
