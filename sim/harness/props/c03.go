package props

import (
	"fmt"

	"github.com/ProtonMail/gluon/imap"

	"verifharness/core"
	"verifharness/model"
	"verifharness/world"
)

// C03 — mailbox contents follow the reference semantics of the message commands.
type C03 struct{}

func (C03) ID() string { return "C03" }

var mailKinds = []string{"append", "store", "expunge", "uidexpunge", "copy", "move", "fetch", "select", "close", "noop", "store-recent", "unselect"}

func genMailAction(r *core.Rand, nsess int, weights []int) core.Action {
	k := mailKinds[r.Weighted(weights)]
	a := core.Action{K: k, S: r.Intn(nsess)}
	for i := 0; i < 8; i++ {
		a.A = append(a.A, r.Intn(1000))
	}
	return a
}

func (C03) Generate(r *core.Rand, tier string, idx int) *core.Scenario {
	sc := &core.Scenario{Property: "C03", Cfg: map[string]int{}}
	sc.Cfg["nsess"] = r.Range(1, 3)
	sc.Cfg["nbox"] = r.Range(2, 3)
	sc.Cfg["labels"] = r.Intn(2)
	sc.Cfg["nopar"] = r.Intn(2)
	if r.P(1, 2) {
		sc.Cfg["appdel"] = 1 // allow APPEND with \Deleted in its flag list (finding F02, repaired)
	}
	// input classes whose defects (F03, F04, F05) were repaired: sets naming a message twice,
	// sets written in descending order, flags in any letter case; each in half of the runs
	for _, k := range []string{"dupset", "revlist", "flagcase"} {
		if r.P(1, 2) {
			sc.Cfg[k] = 1
		}
	}
	if idx%20 == 7 {
		// bulk run: a mailbox filled through one connector batch with a size on either side
		// of the index's statement-batching limit (db.ChunkLimit = 1000, some statements
		// batch at 500), then whole-mailbox commands
		sc.Cfg["bulk"] = []int{499, 500, 501, 999, 1000, 1001, 1999, 2000, 2001, 2500}[r.Intn(10)]
		sc.Cfg["nsess"], sc.Cfg["nbox"] = 1, 3
		sc.Actions = append(sc.Actions, core.Action{K: "select", A: []int{1, 0}})
		ops := []core.Action{
			{K: "store", A: []int{2, 0, 0, 1, 1 << r.Intn(4), 0, r.Intn(2), 1}},      // +FLAGS one flag
			{K: "store", A: []int{2, 0, 0, 2, 1 << r.Intn(4), 0, r.Intn(2), 1}},      // -FLAGS
			{K: "store", A: []int{2, 0, 0, 0, 1 + r.Intn(15), 0, r.Intn(2), 1}},      // FLAGS set
			{K: "store", A: []int{2, 0, 0, 1, 1<<5 | 1<<r.Intn(4), 0, r.Intn(2), 1}}, // +FLAGS keyword and system flag
			{K: "copy", A: []int{2, 0, 0, 2, r.Intn(2)}},
			{K: "move", A: []int{2, 0, 0, 2, r.Intn(2)}},
			{K: "store", A: []int{4, 500 + r.Intn(3), 0, 1, 1 << 4, 0, r.Intn(2), 1}}, // \Deleted on k:*
			{K: "expunge"},
			{K: "fetch", A: []int{2, 0, 0, 1}},
		}
		for i := 0; i < 6; i++ {
			a := ops[r.Intn(len(ops))]
			sc.Actions = append(sc.Actions, a)
		}
		return sc
	}
	n := r.Range(15, 45)
	//                 append store expunge uidexp copy move fetch select close noop recent unselect
	weights := []int{10, 10, 4, 2, 6, 5, 3, 4, 1, 1, 1, 1}
	for i := 0; i < sc.Cfg["nsess"]; i++ {
		sc.Actions = append(sc.Actions, core.Action{K: "select", S: i, A: []int{r.Intn(3), 0}})
	}
	for i := 0; i < n; i++ {
		sc.Actions = append(sc.Actions, genMailAction(r, sc.Cfg["nsess"], weights))
	}
	return sc
}

func (C03) Execute(sc *core.Scenario, keepLog bool) *core.Result {
	cfg := world.Config{
		Users:              []world.UserCfg{{Names: []string{"user"}, Password: "pass"}},
		DisableParallelism: sc.C("nopar") == 1,
	}
	return RunInBubble("C03", sc, keepLog, cfg, func(e *Env) {
		e.W.Users[0].Conn.MoveRemovesSource = sc.C("labels") == 0
		m := NewMail(e, max(1, sc.C("nsess")), max(2, sc.C("nbox")), true)
		m.CheckEach = true
		if e.Failed() {
			return
		}
		if n := sc.C("bulk"); n > 0 {
			if !c03Fill(e, m, "box1", n) {
				return
			}
			m.CheckEach = true
		}
		for i, a := range sc.Actions {
			e.Step = i + 1
			m.Exec(a)
			if e.Failed() {
				return
			}
		}
		e.St.Nontrivial = m.OKs >= 3
		e.CheckModel("content-final", true, true)
	})
}

// c03Fill puts n tiny messages into a mailbox through one connector batch.
func c03Fill(e *Env, m *Mail, box string, n int) bool {
	u := e.W.Users[0]
	var rid imap.MailboxID
	for id, nm := range u.Conn.MboxNames {
		if len(nm) == 1 && nm[0] == box {
			rid = id
		}
	}
	if rid == "" {
		e.Infra = fmt.Errorf("no remote id for %s", box)
		return false
	}
	batch := make([]*imap.MessageCreated, 0, n)
	b := e.R.Boxes[box]
	for i := 0; i < n; i++ {
		e.nextMark++
		lit := []byte(fmt.Sprintf("Date: 1 Jan 2020 00:00:00 +0000\r\nFrom: bulk@example.com\r\nSubject: bulk <%d>\r\nX-Sim-Marker: <%d>\r\n\r\nb\r\n", e.nextMark, e.nextMark))
		parsed, err := imap.NewParsedMessage(lit)
		if err != nil {
			e.Infra = err
			return false
		}
		id := u.Conn.NewMessageID()
		batch = append(batch, &imap.MessageCreated{Message: imap.Message{ID: id, Flags: imap.NewFlagSet(), Date: world.SimStart}, Literal: lit, MailboxIDs: []imap.MailboxID{rid}, ParsedMessage: parsed})
		o, _ := model.NewObj(e.nextMark, lit, nil)
		o.Remote = string(id)
		b.Add(o, false)
	}
	r := e.W.Submit(u, imap.NewMessagesCreated(false, batch...))
	if !r.Done || r.Err != nil {
		e.Fail("bulk-fill", "MessagesCreated of %d messages: done=%v err=%v", n, r.Done, r.Err)
		return false
	}
	e.St.Probes["bulk_runs"]++
	e.St.Probes[fmt.Sprintf("bulk_%d", n)]++
	return true
}
