package props

import (
	"bytes"
	"encoding/base64"
	"fmt"
	"strings"
	"time"

	"verifharness/core"
)

// c15Msg is a message built for the SEARCH check: every value a search key can look at
// is recorded at construction, so that the expected result of a key never comes from
// parsing the message.
type c15Msg struct {
	Marker int
	Bytes  []byte
	// Hdr holds, per lower-cased field name, the raw text after "Name:" of every
	// occurrence (folds included, final CRLF excluded), in order of appearance.
	Hdr map[string][]string
	// HeaderRaw is the header block (up to and including the blank line).
	HeaderRaw []byte
	// Body is everything after the blank line; TextOnly the concatenated content of the
	// text parts (equal to Body for a non-multipart message).
	Body     []byte
	TextOnly []byte
	// BodyJudged is false when the body is transfer-encoded (base64 / quoted-printable).
	BodyJudged bool
	Multipart  bool
	// Sent date as written in the Date header.
	SentY, SentM, SentD int
	SentBad             bool // the Date header is not a date-time: SENT* keys are not judged
	// APPEND arguments.
	Flags    []string
	DateTime string    // "" = none given
	Instant  time.Time // the instant DateTime denotes
}

var (
	c15Names    = []string{"alice", "bob", "carol", "dave", "erin", "frank"}
	c15Domains  = []string{"example.com", "example.org", "mail.test"}
	c15SubjWord = []string{"report", "invoice", "meeting", "lunch", "URGENT", "budget", "Re:"}
	c15BodyWord = []string{"alpha", "bravo", "charlie", "delta", "echo", "foxtrot", "Golf"}
	c15Tags     = []string{"red", "green", "blue", "dark-red"}
	c15Zones    = []string{"+0000", "+0200", "-0500", "+1300", "-1100", "+0530"}
	c15Months   = []string{"Jan", "Feb", "Mar", "Apr", "May", "Jun", "Jul", "Aug", "Sep", "Oct", "Nov", "Dec"}
	// c15Sizes are the totals (ID line included) some messages are padded to, so that
	// LARGER/SMALLER constants taken from one message are near misses for others.
	c15Sizes = []int{520, 521, 522, 700}
	// c15IDLineLen is the length of the line the server puts in front of the header:
	// "X-Pm-Gluon-Id: " + 36 characters of UUID + CRLF.
	c15IDLineLen = 15 + 36 + 2
)

// c15Base is the first of the four days internal and sent dates are drawn from.
var c15Base = time.Date(2021, 3, 10, 0, 0, 0, 0, time.UTC)

func c15Zone(z string) *time.Location {
	sign := 1
	if z[0] == '-' {
		sign = -1
	}
	h := int(z[1]-'0')*10 + int(z[2]-'0')
	m := int(z[3]-'0')*10 + int(z[4]-'0')
	return time.FixedZone(z, sign*(h*3600+m*60))
}

func c15Addr(r *core.Rand) string {
	n := c15Names[r.Intn(len(c15Names))]
	d := c15Domains[r.Intn(len(c15Domains))]
	switch r.Intn(3) {
	case 0:
		return fmt.Sprintf("%s@%s", n, d)
	case 1:
		return fmt.Sprintf("%s%s <%s@%s>", strings.ToUpper(n[:1]), n[1:], n, d)
	default:
		return fmt.Sprintf("<%s@%s>", n, d)
	}
}

type c15Builder struct {
	buf bytes.Buffer
	m   *c15Msg
}

func (b *c15Builder) field(name, value string) {
	b.buf.WriteString(name + ": " + value + "\r\n")
	k := strings.ToLower(name)
	b.m.Hdr[k] = append(b.m.Hdr[k], " "+value)
}

// c15Build makes message number marker.  tz: zones other than +0000 for the APPEND
// date-time; duphdr: a custom header field may occur twice; day1: dates with a
// one-digit day; baddate: some Date headers are not date-times.
// Words that overlap themselves, and for each a needle whose only occurrence starts inside
// a failed partial match of itself ("issip" in "Mississippi": a matcher that restarts after
// the failed "issis" without falling back misses it).  With cfg overlap=1 they replace some
// body words (no additional random choice is drawn, so other scenarios stay as they were).
var c15OverlapWord = map[string]string{"alpha": "Mississippi", "bravo": "0001", "delta": "aaab", "echo": "abcabcabd", "Golf": "nanana-banana"}
var c15OverlapNeedle = map[string]string{"mississippi": "issip", "0001": "001", "aaab": "aab", "abcabcabd": "abcabd", "nanana-banana": "nana-b"}

func c15Build(marker int, r *core.Rand, tz, duphdr, day1, baddate, overlap bool) *c15Msg {
	m := &c15Msg{Marker: marker, Hdr: map[string][]string{}, BodyJudged: true}
	b := &c15Builder{m: m}
	base := c15Base
	if day1 {
		base = time.Date(2021, 3, 2, 0, 0, 0, 0, time.UTC)
	}
	tods := [][3]int{{0, 0, 0}, {0, 0, 1}, {12, 0, 0}, {23, 59, 59}, {23, 30, 0}, {0, 30, 0}}

	// sent date
	{
		day := base.AddDate(0, 0, r.Intn(4))
		tod := tods[r.Intn(len(tods))]
		z := c15Zones[r.Intn(len(c15Zones))]
		t := time.Date(day.Year(), day.Month(), day.Day(), tod[0], tod[1], tod[2], 0, c15Zone(z))
		m.SentY, m.SentM, m.SentD = t.Year(), int(t.Month()), t.Day()
		v := fmt.Sprintf("%d %s %d %02d:%02d:%02d %s", t.Day(), c15Months[t.Month()-1], t.Year(), tod[0], tod[1], tod[2], z)
		if r.P(1, 2) {
			v = t.Weekday().String()[:3] + ", " + v
		}
		if baddate && r.P(1, 3) {
			v = "not a date"
			m.SentBad = true
		}
		b.field("Date", v)
	}
	b.field("From", c15Addr(r))
	switch r.Intn(5) {
	case 0:
	case 1:
		b.field("To", c15Addr(r)+",\r\n "+c15Addr(r))
	case 2:
		b.field("To", c15Addr(r)+", "+c15Addr(r))
	default:
		b.field("To", c15Addr(r))
	}
	if r.P(1, 2) {
		b.field("Cc", c15Addr(r))
	}
	if r.P(1, 3) {
		b.field("Bcc", c15Addr(r))
	}
	{
		n := 1 + r.Intn(3)
		var ws []string
		for i := 0; i < n; i++ {
			ws = append(ws, c15SubjWord[r.Intn(len(c15SubjWord))])
		}
		s := strings.Join(ws, " ")
		if r.P(1, 4) {
			// folded subject
			s += "\r\n\t" + c15SubjWord[r.Intn(len(c15SubjWord))]
		}
		if r.P(1, 4) {
			s += " caf\xc3\xa9" // a non-ASCII word (raw UTF-8), searched with CHARSET by the latin1 probe
		}
		b.field("Subject", s+fmt.Sprintf(" <%d>", marker))
	}
	b.field("X-Sim-Marker", fmt.Sprintf("<%d>", marker))
	if r.P(1, 2) {
		b.field("X-Tag", c15Tags[r.Intn(len(c15Tags))])
		if duphdr && r.P(1, 2) {
			b.field("X-Tag", c15Tags[r.Intn(len(c15Tags))])
		}
	}
	if r.P(1, 3) {
		b.field("Message-Id", fmt.Sprintf("<sim-%d@%s>", marker, c15Domains[r.Intn(len(c15Domains))]))
	}

	line := func() string {
		n := 1 + r.Intn(3)
		var ws []string
		for i := 0; i < n; i++ {
			w := c15BodyWord[r.Intn(len(c15BodyWord))]
			if overlap {
				if ow, ok := c15OverlapWord[w]; ok {
					w = ow
				}
			}
			if r.P(1, 6) {
				w = strings.ToUpper(w)
			}
			ws = append(ws, w)
		}
		return strings.Join(ws, " ")
	}
	text := func() string {
		var sb strings.Builder
		n := r.Intn(4)
		for i := 0; i < n; i++ {
			sb.WriteString(line() + "\r\n")
		}
		if r.P(1, 6) {
			sb.WriteString("caf\xc3\xa9 " + line() + "\r\n")
		}
		if r.P(1, 6) {
			// a header-looking line in the body: must match BODY, not FROM/SUBJECT
			sb.WriteString("Subject: " + c15SubjWord[r.Intn(len(c15SubjWord))] + " hidden\r\n")
		}
		return sb.String()
	}

	kind := r.Weighted([]int{6, 3, 3, 1, 1})
	switch kind {
	case 0: // plain, no MIME header
		b.buf.WriteString("\r\n")
		m.HeaderRaw = append([]byte(nil), b.buf.Bytes()...)
		t := text()
		// padding to one of the size classes
		if r.P(1, 2) {
			target := c15Sizes[r.Intn(len(c15Sizes))]
			cur := b.buf.Len() + len(t) + c15IDLineLen
			if pad := target - cur - 2; pad >= 1 {
				t += strings.Repeat("x", pad) + "\r\n"
			}
		}
		b.buf.WriteString(t)
		m.Body = []byte(t)
		m.TextOnly = m.Body
	case 1: // text/plain 8bit
		b.field("Content-Type", "text/plain; charset=utf-8")
		b.field("Content-Transfer-Encoding", "8bit")
		b.buf.WriteString("\r\n")
		m.HeaderRaw = append([]byte(nil), b.buf.Bytes()...)
		t := text()
		b.buf.WriteString(t)
		m.Body = []byte(t)
		m.TextOnly = m.Body
	case 2: // multipart
		boundary := fmt.Sprintf("sim-boundary-%d", r.Intn(1000))
		b.field("Content-Type", fmt.Sprintf("multipart/mixed; boundary=\"%s\"", boundary))
		b.buf.WriteString("\r\n")
		m.HeaderRaw = append([]byte(nil), b.buf.Bytes()...)
		st := b.buf.Len()
		var only strings.Builder
		np := 1 + r.Intn(2)
		for i := 0; i < np; i++ {
			b.buf.WriteString("--" + boundary + "\r\n")
			b.buf.WriteString("Content-Type: text/plain\r\n\r\n")
			t := text()
			b.buf.WriteString(t)
			only.WriteString(t)
			only.WriteString("\n") // parts never run into each other
			b.buf.WriteString("\r\n")
		}
		b.buf.WriteString("--" + boundary + "--\r\n")
		m.Body = append([]byte(nil), b.buf.Bytes()[st:]...)
		m.TextOnly = []byte(only.String())
		m.Multipart = true
	case 3: // base64
		b.field("Content-Type", "text/plain; charset=utf-8")
		b.field("Content-Transfer-Encoding", "base64")
		b.buf.WriteString("\r\n")
		m.HeaderRaw = append([]byte(nil), b.buf.Bytes()...)
		t := base64.StdEncoding.EncodeToString([]byte(text()+line())) + "\r\n"
		b.buf.WriteString(t)
		m.Body = []byte(t)
		m.TextOnly = m.Body
		m.BodyJudged = false
	default: // quoted-printable
		b.field("Content-Type", "text/plain; charset=utf-8")
		b.field("Content-Transfer-Encoding", "quoted-printable")
		b.buf.WriteString("\r\n")
		m.HeaderRaw = append([]byte(nil), b.buf.Bytes()...)
		t := strings.ReplaceAll(text(), "a", "=61") + "soft=\r\nbreak\r\n"
		b.buf.WriteString(t)
		m.Body = []byte(t)
		m.TextOnly = m.Body
		m.BodyJudged = false
	}
	m.Bytes = append([]byte(nil), b.buf.Bytes()...)

	// APPEND arguments: flags (never \Deleted, canonical letter case) and date-time
	mask := 0
	for i := 0; i < 7; i++ {
		if i != 4 && r.P(1, 3) {
			mask |= 1 << i
		}
	}
	m.Flags = FlagsFromMask(mask, 0)
	if !r.P(1, 6) {
		day := base.AddDate(0, 0, r.Intn(4))
		tod := tods[r.Intn(len(tods))]
		z := "+0000"
		if tz {
			z = c15Zones[r.Intn(len(c15Zones))]
		}
		t := time.Date(day.Year(), day.Month(), day.Day(), tod[0], tod[1], tod[2], 0, c15Zone(z))
		m.Instant = t
		m.DateTime = fmt.Sprintf("%02d-%s-%d %02d:%02d:%02d %s", t.Day(), c15Months[t.Month()-1], t.Year(), tod[0], tod[1], tod[2], z)
		if t.Day() < 10 && r.P(1, 2) {
			m.DateTime = " " + m.DateTime[1:] // date-day-fixed = (SP DIGIT) / 2DIGIT
		}
	}
	return m
}

// c15Unfold returns the RFC 5322 unfolding of a raw header value (CRLF before white
// space removed) and the lenient reading in which every fold becomes one space and the
// lines are trimmed.  A needle is only judged where both readings agree.
func c15Unfold(raw string) (strict, lenient string) {
	strict = strings.TrimSpace(strings.ReplaceAll(raw, "\r\n", ""))
	lines := strings.Split(raw, "\r\n")
	for i := range lines {
		lines[i] = strings.TrimSpace(lines[i])
	}
	lenient = strings.TrimSpace(strings.Join(lines, " "))
	return
}
