package props

import (
	"errors"
	"fmt"
	"os"
	"path/filepath"
	"sort"
	"strings"
	"sync"

	"github.com/ProtonMail/gluon/imap"

	"verifharness/core"
	"verifharness/gen"
	"verifharness/model"
	"verifharness/wire"
	"verifharness/world"
)

// C07 — acknowledged state survives restart, crashes and failing storage steps.
//
// One scenario = one operation instance in a generated pre-state.  Execute first runs
// it fault-free while recording its step boundaries (store calls, database Write
// enter / before-commit / after-commit), then re-executes the same scenario once per
// boundary with a crash there (crash image, process restarted on it) and once per
// boundary with that step failing: enumeration per instance, seeded search over instances.
type C07 struct{}

func (C07) ID() string { return "C07" }

var c07Ops = []string{"op.append", "op.copy", "op.move", "op.expunge", "op.create", "op.delete", "op.rename", "op.conn-created", "op.conn-deleted", "op.conn-updated", "op.subscribe", "op.store"}

func (C07) Generate(r *core.Rand, tier string, idx int) *core.Scenario {
	sc := &core.Scenario{Property: "C07", Cfg: map[string]int{}}
	sc.Cfg["labels"] = r.Intn(2)
	sc.Cfg["nolit"] = r.Intn(3) // 1: remote cannot re-deliver literals (GetMessageLiteral fails)
	n := r.Range(4, 10)
	weights := []int{10, 4, 2, 0, 4, 3, 1, 0, 0, 0, 0, 0}
	sc.Actions = append(sc.Actions, core.Action{K: "select", A: []int{0, 0}})
	for i := 0; i < n; i++ {
		sc.Actions = append(sc.Actions, genMailAction(r, 1, weights))
	}
	op := core.Action{K: c07Ops[r.Intn(len(c07Ops))]}
	for j := 0; j < 6; j++ {
		op.A = append(op.A, r.Intn(1000))
	}
	sc.Actions = append(sc.Actions, op)
	return sc
}

var errInjectedStep = errors.New("sim: injected storage failure")

type c07Pass struct {
	mode   string // record | crash | error
	point  int
	points []string // boundary names seen while armed (record pass)
	// cache files after the fault-free operation and a clean restart (record pass),
	// handed to the fault passes as the bound for left-overs
	filesAfter int
}

func (C07) Execute(sc *core.Scenario, keepLog bool) *core.Result {
	total := &core.Result{Stats: core.NewStats()}
	merge := func(r *core.Result) {
		total.Stats.Actions += r.Stats.Actions
		total.Stats.Checks += r.Stats.Checks
		total.Stats.SimTimeMs += r.Stats.SimTimeMs
		for k, v := range r.Stats.Faults {
			total.Stats.Faults[k] += v
		}
		for k, v := range r.Stats.Probes {
			total.Stats.Probes[k] += v
		}
		total.Stats.TraceHash = core.Mix(total.Stats.TraceHash, r.Stats.TraceHash)
		if keepLog && (len(total.Log) == 0 || r.V != nil) {
			total.Log = r.Log
		}
	}
	rec := &c07Pass{mode: "record"}
	r0 := c07Run(sc, keepLog, rec)
	merge(r0)
	if r0.V != nil || r0.Infra != nil {
		total.V, total.Infra = r0.V, r0.Infra
		return total
	}
	total.Stats.Probes["boundaries"] += len(rec.points)
	total.Stats.Nontrivial = len(rec.points) >= 2
	only := sc.C("only_point") - 1
	for k := range rec.points {
		if only >= 0 && k != only {
			continue
		}
		for _, mode := range []string{"crash", "error"} {
			if mode == "error" && strings.HasSuffix(rec.points[k], "after-commit") {
				continue // nothing can be failed after the commit
			}
			if mode == "error" && strings.HasSuffix(rec.points[k], ".torn") {
				continue
			}
			if mode == "crash" && strings.HasPrefix(rec.points[k], "db.stmt.") {
				continue // inside one SQL transaction: same image as the preceding boundary
			}
			p := &c07Pass{mode: mode, point: k, filesAfter: rec.filesAfter}
			r := c07Run(sc, keepLog, p)
			merge(r)
			if r.V != nil {
				r.V.Detail = fmt.Sprintf("[%s at boundary %d/%d %s] %s", mode, k+1, len(rec.points), rec.points[k], r.V.Detail)
				r.V.Sig = fmt.Sprintf("%s@%s: %s", mode, rec.points[k], r.V.Sig)
				total.V = r.V
				return total
			}
			if r.Infra != nil {
				total.Infra = r.Infra
				return total
			}
		}
	}
	return total
}

// listNames returns the mailbox names LIST shows.
func listNames(s *world.Sess) []string {
	r := s.Cmd(`LIST "" "*"`)
	var out []string
	for _, l := range r.Lines {
		if l.Keyword() == "LIST" && len(l.Nodes) >= 4 {
			out = append(out, l.Nodes[3].Str)
		}
	}
	sort.Strings(out)
	return out
}

func c07Run(sc *core.Scenario, keepLog bool, p *c07Pass) *core.Result {
	cfg := world.Config{Users: []world.UserCfg{{Names: []string{"user"}, Password: "pass"}}, StoreFaults: true, DBFaults: true}
	return RunInBubble("C07", sc, keepLog, cfg, func(e *Env) {
		u := e.W.Users[0]
		u.Conn.MoveRemovesSource = sc.C("labels") == 0
		m := NewMail(e, 1, 3, true)
		if e.Failed() {
			return
		}
		s := m.Sess[0]
		armed := false
		count := 0
		var img *world.Image
		var tornID string
		fired := false
		// (store writes of one batch run on several goroutines: the step counter, the list
		// of boundaries and the statistics are shared between them)
		var bmu sync.Mutex
		boundary := func(name string) error {
			bmu.Lock()
			defer bmu.Unlock()
			if !armed {
				return nil
			}
			k := count
			count++
			if p.mode == "record" {
				p.points = append(p.points, name)
				return nil
			}
			if k != p.point || fired {
				return nil
			}
			fired = true
			if p.mode == "crash" {
				var err error
				img, err = e.W.TakeImage()
				if err != nil {
					e.Infra = err
				}
				e.St.Faults["crash@"+name]++
				return nil
			}
			e.St.Faults["step_error@"+name]++
			return errInjectedStep
		}
		e.W.DB.Hook = boundary
		e.W.DB.Statements = true
		e.W.Store.Hook = func(op string, ids []imap.InternalMessageID) *world.StoreFault {
			if !armed || (op != "set" && op != "delete") {
				return nil
			}
			if err := boundary("store." + op); err != nil {
				return &world.StoreFault{Err: err}
			}
			if op == "set" {
				// a second boundary: the file is being written when the process dies
				bmu.Lock()
				defer bmu.Unlock()
				k := count
				count++
				if p.mode == "record" {
					p.points = append(p.points, "store.set.torn")
				} else if p.mode == "crash" && k == p.point && !fired {
					fired = true
					tornID = ids[0].String()
					return &world.StoreFault{After: true, Torn: -1, Err: nil}
				}
			}
			return nil
		}
		// ---- pre-state ----
		var opAct core.Action
		for i, a := range sc.Actions {
			e.Step = i + 1
			if strings.HasPrefix(a.K, "op.") {
				opAct = a
				break
			}
			m.Exec(a)
			if e.Failed() {
				return
			}
		}
		if opAct.K == "" {
			return
		}
		e.Step = len(sc.Actions)
		// make sure there is something to operate on
		if m.Sel[0] < 0 {
			m.Select(0, 0, false)
		}
		s.Cmd("NOOP")
		box := m.selBox(0)
		if box == nil {
			return
		}
		if len(box.Members) == 0 && opAct.K != "op.append" && opAct.K != "op.create" && opAct.K != "op.conn-created" {
			g := e.NewMessage(1, gen.Opts{})
			if r := s.Do(wire.WithLiteral(fmt.Sprintf("APPEND %s ", Quote(box.Name)), g.Bytes, "")); r.OK() {
				o, _ := model.NewObj(g.Marker, g.Bytes, nil)
				box.Add(o, false)
			}
			s.Cmd("NOOP")
		}
		u.Conn.TakeCalls()
		before := e.R.Clone()
		namesBefore := e.R.Names()
		// ---- the operation, in the model first ----
		after := e.R
		q := 1
		if len(box.Members) > 0 {
			q = 1 + abs(opAct.Arg(0))%len(box.Members)
		}
		other := m.Boxes[(m.Sel[0]+1+abs(opAct.Arg(1))%2)%len(m.Boxes)]
		var cmd func() (ok bool, what string)
		touched := []string{box.Name}
		switch opAct.K {
		case "op.append":
			g := e.NewMessage(opAct.Arg(2), gen.Opts{BigBody: []int{0, 0, 300000}[abs(opAct.Arg(3))%3]})
			o, _ := model.NewObj(g.Marker, g.Bytes, nil)
			after.Boxes[box.Name].Add(o, false)
			cmd = func() (bool, string) {
				r := s.Do(wire.WithLiteral(fmt.Sprintf("APPEND %s ", Quote(box.Name)), g.Bytes, ""))
				return r.OK(), "APPEND " + box.Name
			}
		case "op.copy", "op.move":
			o := box.Members[q-1].Obj
			touched = append(touched, other)
			if opAct.K == "op.move" && sc.C("labels") == 0 {
				after.Boxes[box.Name].Remove(o)
			}
			after.Boxes[other].Add(o, false)
			verb := map[string]string{"op.copy": "COPY", "op.move": "MOVE"}[opAct.K]
			cmd = func() (bool, string) {
				r := s.Cmd("%s %d %s", verb, q, Quote(other))
				return r.OK(), fmt.Sprintf("%s %d %s", verb, q, other)
			}
		case "op.expunge":
			s.Cmd("STORE %d +FLAGS.SILENT (\\Deleted)", q)
			before.Boxes[box.Name].Members[q-1].Deleted = true
			after.Boxes[box.Name].Members[q-1].Deleted = true
			after.Boxes[box.Name].Expunge(nil)
			cmd = func() (bool, string) { r := s.Cmd("EXPUNGE"); return r.OK(), "EXPUNGE" }
		case "op.store":
			after.Boxes[box.Name].Store(q-1, 0, []string{`\Seen`, `\Flagged`})
			cmd = func() (bool, string) {
				r := s.Cmd("STORE %d FLAGS (\\Seen \\Flagged)", q)
				return r.OK(), "STORE FLAGS"
			}
		case "op.create":
			name := fmt.Sprintf("new%d/sub%d", opAct.Arg(2)%3, opAct.Arg(3)%3)
			touched = nil
			after.Create(strings.Split(name, "/")[0], "")
			after.Create(name, "")
			cmd = func() (bool, string) { r := s.Cmd("CREATE %s", Quote(name)); return r.OK(), "CREATE " + name }
		case "op.delete":
			touched = []string{other}
			delete(after.Boxes, other)
			if other == "INBOX" {
				return
			}
			cmd = func() (bool, string) { r := s.Cmd("DELETE %s", Quote(other)); return r.OK(), "DELETE " + other }
		case "op.rename":
			if other == "INBOX" {
				return
			}
			nn := other + "-renamed"
			touched = []string{other, nn}
			b := after.Boxes[other]
			delete(after.Boxes, other)
			b.Name = nn
			after.Boxes[nn] = b
			cmd = func() (bool, string) {
				r := s.Cmd("RENAME %s %s", Quote(other), Quote(nn))
				return r.OK(), "RENAME " + other
			}
		case "op.subscribe":
			touched = nil
			cmd = func() (bool, string) {
				r := s.Cmd("UNSUBSCRIBE %s", Quote(other))
				return r.OK(), "UNSUBSCRIBE " + other
			}
		case "op.conn-created", "op.conn-deleted", "op.conn-updated":
			var rid imap.MailboxID
			for id, nm := range u.Conn.MboxNames {
				if strings.Join(nm, "/") == box.Name {
					rid = id
				}
			}
			if rid == "" {
				return
			}
			var upd imap.Update
			switch opAct.K {
			case "op.conn-created":
				g := e.NewMessage(opAct.Arg(2), gen.Opts{})
				id := u.Conn.NewMessageID()
				parsed, _ := imap.NewParsedMessage(g.Bytes)
				u.Conn.RememberLiteral(id, g.Bytes, imap.NewFlagSet(), world.SimStart)
				batch := []*imap.MessageCreated{{Message: imap.Message{ID: id, Flags: imap.NewFlagSet(), Date: world.SimStart}, Literal: g.Bytes, MailboxIDs: []imap.MailboxID{rid}, ParsedMessage: parsed}}
				if abs(opAct.Arg(4))%2 == 1 {
					// the batch also restates a message the server has already (a sync overlapping
					// the previous one): whatever happens to the batch, that message stays
					var known []string
					for kid := range u.Conn.Msgs {
						if kid != id {
							known = append(known, string(kid))
						}
					}
					sort.Strings(known)
					for _, kid := range known {
						lit := u.Conn.Msgs[imap.MessageID(kid)].Literal
						marker := gen.MarkerOf(lit)
						var in imap.MailboxID
						for _, b := range after.Boxes {
							for _, mm := range b.Members {
								if mm.Obj.Marker == marker {
									for bid, nm := range u.Conn.MboxNames {
										if strings.Join(nm, "/") == b.Name {
											in = bid
										}
									}
								}
							}
						}
						if in == "" {
							continue
						}
						kp, _ := imap.NewParsedMessage(lit)
						restated := &imap.MessageCreated{Message: imap.Message{ID: imap.MessageID(kid), Flags: imap.NewFlagSet(), Date: world.SimStart}, Literal: lit, MailboxIDs: []imap.MailboxID{in}, ParsedMessage: kp}
						if abs(opAct.Arg(4))%4 == 1 {
							batch = append([]*imap.MessageCreated{restated}, batch...)
						} else {
							batch = append(batch, restated)
						}
						e.St.Probes["created_batch_restates_known_message"]++
						break
					}
				}
				upd = imap.NewMessagesCreated(false, batch...)
				o, _ := model.NewObj(g.Marker, g.Bytes, nil)
				after.Boxes[box.Name].Add(o, false)
			default:
				// needs the remote ID of an existing message: the q-th APPENDed one
				ids := []string{}
				for id := range u.Conn.Msgs {
					ids = append(ids, string(id))
				}
				sort.Strings(ids)
				if len(ids) == 0 {
					return
				}
				id := imap.MessageID(ids[abs(opAct.Arg(2))%len(ids)])
				lit := u.Conn.Msgs[id].Literal
				marker := gen.MarkerOf(lit)
				var obj *model.Obj
				for _, b := range after.Boxes {
					for _, mm := range b.Members {
						if mm.Obj.Marker == marker {
							obj = mm.Obj
						}
					}
				}
				if obj == nil {
					return
				}
				touched = after.Names()
				if opAct.K == "op.conn-deleted" {
					upd = imap.NewMessagesDeleted(id)
					for _, b := range after.Boxes {
						b.Remove(obj)
					}
				} else {
					g := e.NewMessage(opAct.Arg(3), gen.Opts{})
					parsed, _ := imap.NewParsedMessage(g.Bytes)
					u.Conn.RememberLiteral(id, g.Bytes, imap.NewFlagSet(), world.SimStart)
					upd = imap.NewMessageUpdated(imap.Message{ID: id, Flags: imap.NewFlagSet(), Date: world.SimStart}, g.Bytes, []imap.MailboxID{rid}, parsed, false)
					for _, b := range after.Boxes {
						b.Remove(obj)
					}
					no, _ := model.NewObj(g.Marker, g.Bytes, nil)
					after.Boxes[box.Name].Add(no, false)
				}
			}
			cmd = func() (bool, string) {
				r := e.W.Submit(u, upd)
				if !r.Done {
					e.Fail("update-ack", "connector update not acknowledged")
				}
				return r.Err == nil, opAct.K
			}
		}
		if cmd == nil {
			return
		}
		if sc.C("nolit") == 1 {
			u.Conn.Arm("get_literal", errors.New("remote: literal not available"), errors.New("x"), errors.New("x"), errors.New("x"), errors.New("x"), errors.New("x"), errors.New("x"), errors.New("x"))
		}
		filesBefore := c07Files(e)
		armed = true
		ok, what := cmd()
		armed = false
		e.Tr.Event("op", what, ok, p.mode, p.point)
		e.CheckPanics()
		if e.Failed() {
			return
		}
		namesAfter := after.Names()
		_ = touched
		verify := func(oracle string, allowed ...*model.User) {
			// every mailbox must be in the state of one of the allowed models; untouched
			// mailboxes are identical in all of them
			rs, err := e.W.Connect()
			if err != nil {
				e.Infra = err
				return
			}
			defer func() { rs.Cmd("LOGOUT"); rs.C.Dead = true }()
			if r := rs.Cmd("LOGIN user pass"); !r.OK() {
				e.Fail(oracle, "LOGIN answered %s %s", r.Status, r.Text)
				return
			}
			got := listNames(rs)
			okNames := false
			var want [][]string
			for _, mdl := range allowed {
				names := mdl.Names()
				for _, b := range mdl.Boxes {
					_ = b
				}
				want = append(want, names)
				if sameNames(got, names) {
					okNames = true
				}
			}
			if !okNames {
				e.Fail(oracle, "mailboxes listed %v, expected one of %v", got, want)
				return
			}
			for _, name := range got {
				if name == recoveryName {
					continue
				}
				rows, _, _, err := e.readMailbox(rs, name, true)
				if err != nil {
					e.Fail(oracle, "mailbox %q cannot be read: %v", name, err)
					return
				}
				e.St.Checks++
				var diffs []string
				match := false
				for _, mdl := range allowed {
					b := mdl.Boxes[name]
					if b == nil {
						continue
					}
					d := model.Diff(name, b.Rows(), rows, true)
					if d == "" {
						match = true
						break
					}
					diffs = append(diffs, d)
				}
				if !match {
					e.Fail(oracle, "%s", strings.Join(diffs, " || "))
					return
				}
			}
		}
		switch p.mode {
		case "record":
			if !ok {
				e.Fail("fault-free", "%s failed without any injected fault", what)
				return
			}
			e.R = after
			verify("fault-free", after)
			if e.Failed() {
				return
			}
			// clean restart: everything acknowledged is still there
			if err := e.W.Restart(); err != nil {
				e.Fail("restart", "clean restart failed: %v", err)
				return
			}
			e.St.Faults["restart_clean"]++
			verify("after-clean-restart", after)
			p.filesAfter = c07Files(e)
			if e.Failed() {
				return
			}
			// a start whose first database step fails (transiently) must not cost anything:
			// the start after it finds everything that was acknowledged
			if e.W.DB != nil {
				e.W.DB.FailNextInit = errInjectedStep
				startErr := e.W.Restart()
				e.St.Faults["start_with_failing_db_init"]++
				if e.W.DB.FailNextInit != nil {
					e.W.DB.FailNextInit = nil // Init was not reached
				}
				if startErr == nil {
					e.St.Probes["start_survived_init_error"]++
				}
				if err := e.W.Restart(); err != nil {
					e.Fail("restart", "restart after a start whose database Init failed: %v", err)
					return
				}
				verify("after-failed-start", after)
				if n := c07Files(e); n < p.filesAfter {
					e.Fail("after-failed-start", "the cache holds %d files after a failed and a successful start, it held %d before", n, p.filesAfter)
				}
			}
			_ = namesAfter
		case "crash":
			if img == nil && tornID == "" {
				return // boundary not reached in this pass (order of parallel steps)
			}
			if tornID != "" {
				var err error
				img, err = e.W.TakeImage()
				if err != nil {
					e.Infra = err
					return
				}
				tearFile(img.Data, tornID, opAct.Arg(5))
				e.St.Faults["store_torn"]++
			}
			// in some runs the image also loses one cache file of a message that was stored
			// long ago (the cache is a cache: the remote still has the literal); the message
			// must be served with its exact bytes all the same, at the first and at every
			// later read
			// (not next to a MessageUpdated: there the remote's literal is already the new one,
			// and a re-download under the old entry is neither "before" nor "after" by construction)
			if sc.C("nolit") != 1 && abs(opAct.Arg(4))%4 == 0 && opAct.K != "op.conn-updated" {
				if c07LoseOneFile(img.Data, abs(opAct.Arg(3))) {
					e.St.Faults["cache_file_lost"]++
				}
			}
			if err := e.W.RestartOn(img); err != nil {
				e.Fail("crash-restart", "server does not start on the crash image: %v", err)
				return
			}
			verify("after-crash", before, after)
			if e.Failed() {
				return
			}
			// a literal whose cache file was lost is downloaded again and written back by the
			// first read: what the second read finds must be the same bytes
			verify("after-crash-second-read", before, after)
			if e.Failed() {
				return
			}
			if opAct.K == "op.move" && sc.C("labels") == 0 {
				// never gone from both: per-mailbox before/after is not enough
				c07MoveConserved(e, before, box.Name, other, q)
			}
			if n := c07Files(e); n > filesBefore && n > p.filesAfter {
				e.Fail("leftovers", "after restart on the crash image the cache holds %d files; it held %d before the operation and holds %d after the completed operation: files of the unfinished operation were not removed", n, filesBefore, p.filesAfter)
			}
		case "error":
			if !fired {
				return
			}
			// the statement allows the state before or after the operation (per mailbox),
			// whatever the completion said
			allowed := []*model.User{before, after}
			if ok {
				e.St.Probes["step_error_absorbed"]++
			}
			verify("after-step-error", allowed...)
			if e.Failed() {
				return
			}
			// later commands still work
			if r := s.Cmd("NOOP"); !r.OK() && !s.C.Conn.ServerClosed() {
				e.Fail("after-step-error", "NOOP after the failed step answered %s %s", r.Status, r.Text)
				return
			}
			if err := e.W.Restart(); err != nil {
				e.Fail("restart", "clean restart after a failed step failed: %v", err)
				return
			}
			verify("after-step-error-restart", allowed...)
			if e.Failed() {
				return
			}
			verify("after-step-error-restart-second-read", allowed...)
			if e.Failed() {
				return
			}
			// Left-overs are removed - also those of operations that come AFTER the failed
			// step: a message the connector creates and deletes now must be gone from the cache after
			// the next restart (the clean-up of messages marked for deletion still works).
			files0 := c07Files(e)
			pu := e.W.Users[0]
			var inboxID imap.MailboxID
			for id, nm := range pu.Conn.MboxNames {
				if len(nm) == 1 && nm[0] == "INBOX" {
					inboxID = id
				}
			}
			probe := e.NewMessage(7777, gen.Opts{})
			pid := pu.Conn.NewMessageID()
			parsed, _ := imap.NewParsedMessage(probe.Bytes)
			pu.Conn.RememberLiteral(pid, probe.Bytes, imap.NewFlagSet(), world.SimStart)
			cr := e.W.Submit(pu, imap.NewMessagesCreated(false, &imap.MessageCreated{Message: imap.Message{ID: pid, Flags: imap.NewFlagSet(), Date: world.SimStart}, Literal: probe.Bytes, MailboxIDs: []imap.MailboxID{inboxID}, ParsedMessage: parsed}))
			if !cr.Done || cr.Err != nil {
				e.Fail("after-step-error", "connector MessagesCreated after the failed step and a restart: done=%v err=%v", cr.Done, cr.Err)
				return
			}
			if c07Files(e) != files0+1 {
				e.Fail("after-step-error", "a message created by the connector after the failed step did not reach the cache (%d files, %d before)", c07Files(e), files0)
				return
			}
			dr := e.W.Submit(pu, imap.NewMessagesDeleted(pid))
			if !dr.Done || dr.Err != nil {
				e.Fail("after-step-error", "connector MessageDeleted after the failed step: done=%v err=%v", dr.Done, dr.Err)
				return
			}
			if err := e.W.Restart(); err != nil {
				e.Fail("restart", "clean restart after the probe failed: %v", err)
				return
			}
			e.St.Probes["cleanup_probe"]++
			if files1 := c07Files(e); files1 > files0 {
				e.Fail("leftovers", "a message created and then deleted by the connector after the failed step is still in the cache after a restart: %d files before the probe, %d after (clean-up of messages marked for deletion no longer works)", files0, files1)
			}
		}
		_ = namesBefore
	})
}

func sameNames(a, b []string) bool {
	x := append([]string(nil), a...)
	y := append([]string(nil), b...)
	// the recovery mailbox is listed only while non-empty: ignore it here
	filter := func(in []string) []string {
		var out []string
		for _, n := range in {
			if n != recoveryName {
				out = append(out, n)
			}
		}
		sort.Strings(out)
		return out
	}
	x, y = filter(x), filter(y)
	if len(x) != len(y) {
		return false
	}
	for i := range x {
		if x[i] != y[i] {
			return false
		}
	}
	return true
}

// tearFile truncates the cache file of the given internal ID inside an image.
// c07LoseOneFile removes the k-th (mod n) regular file below dataDir.
func c07LoseOneFile(dataDir string, k int) bool {
	var files []string
	filepath.Walk(dataDir, func(p string, info os.FileInfo, err error) error {
		if err == nil && !info.IsDir() {
			files = append(files, p)
		}
		return nil
	})
	if len(files) == 0 {
		return false
	}
	sort.Strings(files)
	return os.Remove(files[k%len(files)]) == nil
}

func tearFile(dataDir, id string, frac int) {
	filepath.Walk(dataDir, func(p string, info os.FileInfo, err error) error {
		if err != nil || info.IsDir() {
			return nil
		}
		if strings.Contains(filepath.Base(p), id) {
			n := info.Size() * int64(1+abs(frac)%9) / 10
			os.Truncate(p, n)
		}
		return nil
	})
}

func c07MoveConserved(e *Env, before *model.User, src, dst string, q int) {
	if e.Failed() {
		return
	}
	marker := before.Boxes[src].Members[q-1].Obj.Marker
	found := false
	for _, name := range []string{src, dst} {
		rows, _, _, err := e.AuthRead(0, name, false)
		if err != nil {
			continue
		}
		for _, r := range rows {
			if r.Marker == marker {
				found = true
			}
		}
	}
	if !found {
		e.Fail("after-crash", "message <%d> is neither in %q nor in %q after the interrupted MOVE", marker, src, dst)
	}
}

// c07Files counts the files in the message cache of the running server.
func c07Files(e *Env) int {
	if e.W.Store == nil || len(e.W.Store.Stores) == 0 {
		return 0
	}
	st := e.W.Store.Stores[len(e.W.Store.Stores)-1]
	ids, err := st.Inner().List()
	if err != nil {
		return 0
	}
	return len(ids)
}
