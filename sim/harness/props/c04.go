package props

import (
	"fmt"
	"strings"
	"time"

	"github.com/ProtonMail/gluon/imap"

	"verifharness/core"
	"verifharness/gen"
	"verifharness/wire"
	"verifharness/world"
)

// C04 — UIDs are strictly increasing, never reused; UIDVALIDITY only ever grows.
type C04 struct{}

func (C04) ID() string { return "C04" }

var c04Kinds = []string{"append", "store", "expunge", "copy", "move", "conn.new", "delbox", "rename", "bump", "restart", "crash", "advance", "noop", "failcmd", "select"}

func (C04) Generate(r *core.Rand, tier string, idx int) *core.Scenario {
	sc := &core.Scenario{Property: "C04", Cfg: map[string]int{}}
	sc.Cfg["nsess"] = r.Range(1, 2)
	sc.Cfg["nbox"] = r.Range(2, 3)
	sc.Cfg["incgen"] = 0

	for _, k := range []string{"dupset", "revlist"} { // repaired input classes (F03, F04)
		if r.P(1, 2) {
			sc.Cfg[k] = 1
		}
	}
	// classes that trigger recorded defects: at most one per run, a quarter of the runs altogether
	switch r.Intn(8) {
	case 0:
		sc.Cfg["selfcopy"] = 1 // COPY/MOVE into the selected mailbox itself (finding F08)
	case 1:
		sc.Cfg["fastrestart"] = 1 // restart and create mailboxes before the clock passed the last UIDVALIDITY handed out (finding F13)
	}
	//                 app sto exp cop mov cnw del ren bmp rst crs adv noo fail sel
	weights := []int{12, 6, 7, 5, 5, 3, 5, 2, 2, 3, 3, 3, 1, 2, 2}
	for i := 0; i < sc.Cfg["nsess"]; i++ {
		sc.Actions = append(sc.Actions, core.Action{K: "select", S: i, A: []int{r.Intn(3), 0}})
	}
	n := r.Range(30, 90)
	for i := 0; i < n; i++ {
		a := core.Action{K: c04Kinds[r.Weighted(weights)], S: r.Intn(sc.Cfg["nsess"])}
		for j := 0; j < 8; j++ {
			a.A = append(a.A, r.Intn(1000))
		}
		if a.K == "store" {
			a.A[3], a.A[4] = 1, a.A[4]|1<<4 // mostly +FLAGS \Deleted: feeds EXPUNGE
		}
		if a.K == "expunge" && r.P(1, 2) {
			a.X = "top" // first mark the highest UID deleted
		}
		sc.Actions = append(sc.Actions, a)
	}
	return sc
}

type c04Ledger struct {
	e *Env
	// per mailbox name
	validity map[string][]uint32       // every UIDVALIDITY observed, in observation order (distinct consecutive)
	owner    map[string]map[uint32]int // key name|validity -> uid -> marker
	maxUID   map[string]uint32         // key name|validity -> highest uid ever seen
	uidNext  map[string]uint32         // key name|validity -> highest UIDNEXT ever seen
}

func newLedger(e *Env) *c04Ledger {
	return &c04Ledger{e: e, validity: map[string][]uint32{}, owner: map[string]map[uint32]int{}, maxUID: map[string]uint32{}, uidNext: map[string]uint32{}}
}

func (l *c04Ledger) seeValidity(name string, v uint32) {
	if v == 0 {
		return
	}
	h := l.validity[name]
	if len(h) > 0 && h[len(h)-1] == v {
		return
	}
	for _, old := range h {
		if v <= old {
			l.e.Fail("uidvalidity", "mailbox %q: UIDVALIDITY %d observed after %v: not strictly greater than every earlier value for this name", name, v, h)
			return
		}
	}
	l.validity[name] = append(h, v)
}

func (l *c04Ledger) lastValidity(name string) uint32 {
	if h := l.validity[name]; len(h) > 0 {
		return h[len(h)-1]
	}
	return 0
}

func (l *c04Ledger) seeUID(name string, v, uid uint32, marker int, fresh bool, what string) {
	if uid == 0 || v == 0 {
		return
	}
	key := fmt.Sprintf("%s|%d", name, v)
	if l.owner[key] == nil {
		l.owner[key] = map[uint32]int{}
	}
	if m, ok := l.owner[key][uid]; ok {
		if marker >= 0 && m >= 0 && m != marker {
			l.e.Fail("uid-reuse", "mailbox %q UIDVALIDITY %d: UID %d denoted message <%d> and now denotes <%d> (%s)", name, v, uid, m, marker, what)
		}
		if m < 0 && marker >= 0 {
			l.owner[key][uid] = marker
		}
		return
	}
	if fresh && uid <= l.maxUID[key] {
		l.e.Fail("uid-order", "mailbox %q UIDVALIDITY %d: new UID %d is not greater than UID %d assigned earlier (%s)", name, v, uid, l.maxUID[key], what)
	}
	l.owner[key][uid] = marker
	if uid > l.maxUID[key] {
		l.maxUID[key] = uid
	}
}

func (l *c04Ledger) seeUIDNext(name string, v, next uint32, what string) {
	if v == 0 || next == 0 {
		return
	}
	key := fmt.Sprintf("%s|%d", name, v)
	if next <= l.maxUID[key] {
		l.e.Fail("uidnext", "mailbox %q UIDVALIDITY %d: UIDNEXT %d is not greater than UID %d assigned earlier (%s)", name, v, next, l.maxUID[key], what)
	}
	if next < l.uidNext[key] {
		l.e.Fail("uidnext", "mailbox %q UIDVALIDITY %d: UIDNEXT went down from %d to %d (%s)", name, v, l.uidNext[key], next, what)
	}
	if next > l.uidNext[key] {
		l.uidNext[key] = next
	}
}

// observe reads the mailbox authoritatively and feeds the ledger.
func (l *c04Ledger) observe(name, what string) map[int]uint32 {
	e := l.e
	if e.Failed() {
		return nil
	}
	rows, v, next, err := e.AuthRead(0, name, false)
	if err != nil {
		if strings.Contains(err.Error(), "EXAMINE") {
			return nil // mailbox does not exist right now
		}
		e.Fail("read", "authoritative read of %q failed: %v", name, err)
		return nil
	}
	e.St.Checks++
	l.seeValidity(name, v)
	at := map[int]uint32{}
	var prev uint32
	for _, r := range rows {
		if r.UID <= prev {
			e.Fail("uid-order", "mailbox %q: UIDs not strictly ascending in sequence order (%d after %d)", name, r.UID, prev)
		}
		prev = r.UID
		l.seeUID(name, v, r.UID, r.Marker, false, what)
		at[r.Marker] = r.UID
	}
	l.seeUIDNext(name, v, next, what)
	return at
}

func (C04) Execute(sc *core.Scenario, keepLog bool) *core.Result {
	cfg := world.Config{Users: []world.UserCfg{{Names: []string{"user"}, Password: "pass"}}}
	if sc.C("incgen") == 1 {
		// one generator for the life of the run would hide restart effects: a new server
		// process gets a new instance, as gluon.New does with its default
		cfg.UIDValidityGen = func() imap.UIDValidityGenerator { return imap.NewIncrementalUIDValidityGenerator() }
	}
	return RunInBubble("C04", sc, keepLog, cfg, func(e *Env) {
		m := NewMail(e, max(1, sc.C("nsess")), max(2, sc.C("nbox")), false)
		if e.Failed() {
			return
		}
		m.NoSelfCopy = sc.C("selfcopy") == 0
		l := newLedger(e)
		for _, b := range m.Boxes {
			l.observe(b, "initial")
		}
		restarts := 0
		for i, a := range sc.Actions {
			e.Step = i + 1
			si, s := m.sess(a)
			switch a.K {
			case "append", "copy", "move":
				var res *wire.Result
				m.hook = func(r *wire.Result) { res = r }
				var srcName string
				if m.Sel[si] >= 0 {
					srcName = m.Boxes[m.Sel[si]]
				}
				ta := m.tame(a) // what Exec is going to send (the destination may be redirected)
				ok := m.Exec(a)
				m.hook = nil
				if !ok || res == nil || !res.OK() {
					break
				}
				if a.K == "append" {
					name := m.box(a.Arg(0))
					var v, uid uint32
					if _, err := fmt.Sscanf(res.Code, "APPENDUID %d %d", &v, &uid); err != nil {
						e.Fail("appenduid", "APPEND OK without APPENDUID code (%q)", res.Code)
						break
					}
					l.seeValidity(name, v)
					l.seeUID(name, v, uid, e.nextMark, true, "APPENDUID")
					at := l.observe(name, "after APPEND")
					if at != nil && at[e.nextMark] != uid {
						e.Fail("appenduid", "APPENDUID announced UID %d for message <%d> in %q, it is found under UID %d", uid, e.nextMark, name, at[e.nextMark])
					}
				} else {
					dest := m.box(ta.Arg(3))
					code := res.Code
					for _, ln := range res.Lines {
						if ln.Status == "OK" && strings.HasPrefix(ln.Code, "COPYUID") {
							code = ln.Code
						}
					}
					f := strings.Fields(code)
					l.observe(srcName, "after "+a.K)
					at := l.observe(dest, "after "+a.K)
					if len(f) == 4 && f[0] == "COPYUID" && at != nil {
						var v uint32
						fmt.Sscan(f[1], &v)
						byUID := map[uint32]bool{}
						for _, u := range at {
							byUID[u] = true
						}
						for _, u := range expandSet(f[3]) {
							if !byUID[u] {
								e.Fail("copyuid", "COPYUID announced destination UID %d in %q, no message is found under it", u, dest)
							}
							l.seeUID(dest, v, u, -1, false, "COPYUID")
						}
						// the pairs: the message found under the i-th destination UID is the one
						// that was (is) under the i-th source UID
						srcSet, dstSet := expandSet(f[2]), expandSet(f[3])
						srcOwner := l.owner[srcName+"|"+fmt.Sprint(l.lastValidity(srcName))]
						markerAt := map[uint32]int{}
						for mk, u := range at {
							markerAt[u] = mk
						}
						if len(srcSet) == len(dstSet) && srcOwner != nil && !e.Failed() {
							for i := range srcSet {
								sm, ok1 := srcOwner[srcSet[i]]
								dm, ok2 := markerAt[dstSet[i]]
								if ok1 && ok2 && sm >= 0 && sm != dm {
									e.Fail("copyuid", "COPYUID %s %s pairs source UID %d (message <%d>) with destination UID %d of %q, which holds message <%d>", f[2], f[3], srcSet[i], sm, dstSet[i], dest, dm)
									break
								}
								e.St.Probes["copyuid_pairs_checked"]++
							}
						}
					}
				}
			case "store", "noop", "select":
				m.Exec(a)
			case "expunge":
				if m.Sel[si] < 0 || s.C.Dead {
					break
				}
				name := m.Boxes[m.Sel[si]]
				s.Cmd("NOOP")
				if a.X == "top" && s.M.Count() > 0 {
					s.Cmd("STORE %d +FLAGS.SILENT (\\Deleted)", s.M.Count())
				}
				r := s.Cmd("EXPUNGE")
				e.Tr.Event("expunge", si, r.Status)
				l.observe(name, "after EXPUNGE")
			case "failcmd":
				// commands that must fail and must not burn or reuse anything
				if m.Sel[si] < 0 {
					break
				}
				r := s.Cmd("COPY 1:* %s", Quote("no-such-mailbox"))
				e.Tr.Event("failcmd", si, r.Status)
				s.Cmd("UID COPY 999999 %s", Quote(m.box(a.Arg(0))))
			case "conn.new":
				box := m.box(a.Arg(0))
				u := e.W.Users[0]
				var rid imap.MailboxID
				for id, nm := range u.Conn.MboxNames {
					if strings.Join(nm, "/") == box {
						rid = id
					}
				}
				if rid == "" {
					break
				}
				msg := e.NewMessage(a.Arg(1), gen.Opts{})
				id := u.Conn.NewMessageID()
				parsed, _ := imap.NewParsedMessage(msg.Bytes)
				u.Conn.RememberLiteral(id, msg.Bytes, imap.NewFlagSet(), world.SimStart)
				res := e.W.Submit(u, imap.NewMessagesCreated(false, &imap.MessageCreated{Message: imap.Message{ID: id, Flags: imap.NewFlagSet(), Date: world.SimStart}, Literal: msg.Bytes, MailboxIDs: []imap.MailboxID{rid}, ParsedMessage: parsed}))
				e.Tr.Event("conn.new", box, res.Done, res.Err != nil)
				l.observe(box, "after connector MessagesCreated")
			case "delbox":
				// DELETE and re-CREATE the same name (never INBOX)
				k := 1 + abs(a.Arg(0))%(len(m.Boxes)-1)
				name := m.Boxes[k]
				if s.C.Dead {
					break
				}
				r1 := s.Cmd("DELETE %s", Quote(name))
				if !r1.OK() {
					// refused (for instance BYE: the session's own selected mailbox had been
					// deleted by another session): nothing happened to the mailbox
					m.reviveSessions()
					break
				}
				for j := range m.Sess {
					if m.Sel[j] == k {
						m.Sel[j] = -1
						m.Sess[j].M.Unselect()
					}
				}
				r2 := s.Cmd("CREATE %s", Quote(name))
				e.Tr.Event("delbox", name, r1.Status, r2.Status)
				e.St.Probes["delete_recreate"]++
				m.reviveSessions()
				l.observe(name, "after DELETE+CREATE")
			case "rename":
				k := 1 + abs(a.Arg(0))%(len(m.Boxes)-1)
				name := m.Boxes[k]
				if abs(a.Arg(1))%3 == 1 && !s.C.Dead {
					// the name comes back into existence through RENAME INBOX (which moves
					// INBOX's messages into a NEW mailbox of that name and leaves INBOX empty)
					r1 := s.Cmd("DELETE %s", Quote(name))
					if !r1.OK() {
						m.reviveSessions()
						break
					}
					for j := range m.Sess {
						if m.Sel[j] == k {
							m.Sel[j] = -1
							m.Sess[j].M.Unselect()
						}
					}
					r2 := s.Cmd("RENAME INBOX %s", Quote(name))
					e.Tr.Event("rename-inbox", name, r1.Status, r2.Status)
					e.St.Probes["recreated_by_rename_inbox"]++
					m.reviveSessions()
					l.observe(name, "after DELETE + RENAME INBOX to the name")
					l.observe("INBOX", "after RENAME INBOX")
					break
				}
				tmp := fmt.Sprintf("%s-moved%d", name, i)
				r1 := s.Cmd("RENAME %s %s", Quote(name), Quote(tmp))
				r2 := s.Cmd("CREATE %s", Quote(name))
				e.Tr.Event("rename", name, r1.Status, r2.Status)
				for j := range m.Sess {
					if m.Sel[j] == k {
						m.Sel[j] = -1
						m.Sess[j].M.Unselect()
						if !m.Sess[j].C.Dead {
							m.Sess[j].Cmd("UNSELECT")
						}
					}
				}
				m.reviveSessions()
				l.observe(name, "after RENAME away + CREATE")
			case "bump":
				res := e.W.Submit(e.W.Users[0], imap.NewUIDValidityBumped())
				e.Tr.Event("bump", res.Done, res.Err != nil)
				e.St.Probes["uidvalidity_bumped"]++
				// selected sessions are told to go away
				for j := range m.Sess {
					m.Sess[j].Cmd("NOOP")
				}
				m.reviveSessions()
				for j := range m.Sess {
					if m.Sel[j] >= 0 {
						m.Select(j, m.Sel[j], m.RO[j])
					}
				}
				for _, b := range m.Boxes {
					l.observe(b, "after UIDVALIDITY bump")
				}
			case "advance":
				d := []time.Duration{0, 300 * time.Millisecond, time.Second, 5 * time.Second, time.Hour, 48 * time.Hour}[abs(a.Arg(0))%6]
				e.W.Advance(d)
				e.St.Faults["clock_advance"]++
				e.Tr.Event("advance", d)
			case "restart", "crash":
				var err error
				if a.K == "restart" {
					err = e.W.Restart()
					e.St.Faults["restart_clean"]++
				} else {
					err = e.W.CrashRestart()
					e.St.Faults["crash"]++
				}
				e.Tr.Event(a.K, err == nil)
				if err != nil {
					e.Fail("restart", "%s failed: %v", a.K, err)
					break
				}
				restarts++
				if sc.C("fastrestart") == 0 {
					// finding F13: a restarted server's generator forgets how far ahead of the
					// clock the previous instance had run; default runs let the clock catch up
					e.W.Advance(time.Hour)
				}
				m.Reconnect()
				for _, b := range m.Boxes {
					l.observe(b, "after "+a.K)
				}
			}
			e.CheckPanics()
			if e.Failed() {
				return
			}
		}
		e.Step = len(sc.Actions) + 1
		for _, b := range m.Boxes {
			l.observe(b, "final")
		}
		e.St.Nontrivial = m.OKs >= 5
		e.St.Probes["restarts"] += restarts
	})
}

// reviveSessions replaces sessions the server has closed (BYE after mailbox deletion).
func (m *Mail) reviveSessions() {
	u := m.E.W.Users[0]
	for i, s := range m.Sess {
		if !s.C.Dead && !s.C.Conn.ServerClosed() {
			continue
		}
		ns, err := m.E.W.Connect()
		if err != nil {
			m.E.Infra = err
			return
		}
		if r := ns.Cmd("LOGIN %s %s", u.Cfg.Names[0], u.Cfg.Password); !r.OK() {
			m.E.Fail("login", "LOGIN answered %s %s", r.Status, r.Text)
			return
		}
		ns.User = 0
		m.Sess[i] = ns
		m.Sel[i] = -1
	}
}
