package props

// Expected answers of FETCH sections, from the byte ranges the generator recorded
// (RFC 3501 section 6.4.5), and the construction of attribute lists from the integers
// of a "fetch" action.

import (
	"fmt"
	"strings"

	"verifharness/core"
	"verifharness/gen"
)

// c13Sec is a section specification.
type c13Sec struct {
	path   []int
	text   string // "", "HEADER", "TEXT", "MIME", "FIELDS", "FIELDS.NOT"
	fields []string
	quoted bool
}

func isMultipart(p *gen.Part) bool { return strings.HasPrefix(p.Type, "multipart/") }

// c13Ref is a body part reachable by a part path.
type c13Ref struct {
	path []int
	part *gen.Part
	// self: the "part" is a non-multipart message seen as its own single part 1
	// (RFC 3501: "Non-[MIME-IMB] messages, and non-multipart [MIME-IMB] messages with no
	// encapsulated message, only have a part 1").
	self bool
	// sub1: the path goes through part 1 of a non-multipart EMBEDDED message.
	sub1 bool
}

// enumMessage lists the parts of message entity m below prefix.
func enumMessage(m *gen.Part, prefix []int, sub1 bool, out *[]c13Ref) {
	if isMultipart(m) {
		for k, c := range m.Children {
			p := append(append([]int(nil), prefix...), k+1)
			*out = append(*out, c13Ref{path: p, part: c, sub1: sub1})
			enumPart(c, p, sub1, out)
		}
		return
	}
	p := append(append([]int(nil), prefix...), 1)
	s1 := sub1 || len(prefix) > 0
	*out = append(*out, c13Ref{path: p, part: m, self: true, sub1: s1})
	if m.Embedded != nil {
		enumMessage(m.Embedded, p, s1, out)
	}
}

func enumPart(p *gen.Part, path []int, sub1 bool, out *[]c13Ref) {
	if isMultipart(p) {
		for k, c := range p.Children {
			q := append(append([]int(nil), path...), k+1)
			*out = append(*out, c13Ref{path: q, part: c, sub1: sub1})
			enumPart(c, q, sub1, out)
		}
	} else if p.Embedded != nil {
		enumMessage(p.Embedded, path, sub1, out)
	}
}

func (m *c13Msg) refs() []c13Ref {
	var out []c13Ref
	enumMessage(m.g.Root, nil, false, &out)
	return out
}

func (m *c13Msg) find(path []int) *c13Ref {
	for _, r := range m.refs() {
		if len(r.path) != len(path) {
			continue
		}
		eq := true
		for i := range path {
			eq = eq && path[i] == r.path[i]
		}
		if eq {
			r := r
			return &r
		}
	}
	return nil
}

// span returns [start, headerEnd, end) of an entity in the expected literal.
func (m *c13Msg) span(p *gen.Part) (int, int, int) {
	if p == m.g.Root {
		return 0, p.HeaderEnd + m.shift, len(m.lit)
	}
	return p.Start + m.shift, p.HeaderEnd + m.shift, p.End + m.shift
}

// fieldsOf returns the header fields of an entity as ranges of the expected literal.
func (m *c13Msg) fieldsOf(p *gen.Part) [][2]int {
	var out [][2]int
	if p == m.g.Root {
		out = append(out, [2]int{0, m.shift})
	}
	for _, f := range p.HeaderFields {
		out = append(out, [2]int{f[0] + m.shift, f[1] + m.shift})
	}
	return out
}

// bytesOf computes the expected bytes of the section for message m.  defined=false:
// the section does not exist in this message or RFC 3501 does not say what it is.
func (s *c13Sec) bytesOf(m *c13Msg) ([]byte, bool) {
	var ent *gen.Part // message entity for HEADER/TEXT/FIELDS
	if len(s.path) == 0 {
		if s.text == "MIME" {
			return nil, false
		}
		if s.text == "" {
			return m.lit, true
		}
		ent = m.g.Root
	} else {
		r := m.find(s.path)
		if r == nil {
			return nil, false
		}
		st, he, en := m.span(r.part)
		switch s.text {
		case "":
			return m.lit[he:en], true
		case "MIME":
			if r.self {
				return nil, false // a message has no MIME-IMB part header of its own
			}
			return m.lit[st:he], true
		}
		if r.self || r.part.Embedded == nil {
			return nil, false // HEADER/TEXT need a message/rfc822 part
		}
		ent = r.part.Embedded
	}
	st, he, en := m.span(ent)
	switch s.text {
	case "HEADER":
		return m.lit[st:he], true
	case "TEXT":
		return m.lit[he:en], true
	case "FIELDS", "FIELDS.NOT":
		want := map[string]bool{}
		for _, f := range s.fields {
			want[strings.ToLower(f)] = true
		}
		var out []byte
		last := st
		for _, f := range m.fieldsOf(ent) {
			name := strings.ToLower(gen.FieldName(m.lit, f))
			if want[name] == (s.text == "FIELDS") {
				out = append(out, m.lit[f[0]:f[1]]...)
			}
			last = f[1]
		}
		// the delimiting blank line is part of every header fetch (if the message has one)
		out = append(out, m.lit[last:he]...)
		return out, true
	}
	return nil, false
}

func pathText(p []int) string {
	parts := make([]string, len(p))
	for i, v := range p {
		parts[i] = fmt.Sprint(v)
	}
	return strings.Join(parts, ".")
}

// render gives the request text of the section and the canonical (response) text.
func (s *c13Sec) render() (req, name string) {
	var rq, nm []string
	if len(s.path) > 0 {
		rq = append(rq, pathText(s.path))
		nm = append(nm, pathText(s.path))
	}
	switch s.text {
	case "HEADER", "TEXT", "MIME":
		rq = append(rq, s.text)
		nm = append(nm, s.text)
	case "FIELDS", "FIELDS.NOT":
		fs := make([]string, len(s.fields))
		for i, f := range s.fields {
			fs[i] = f
			if s.quoted {
				fs[i] = `"` + f + `"`
			}
		}
		rq = append(rq, "HEADER."+s.text+" ("+strings.Join(fs, " ")+")")
		nm = append(nm, "HEADER."+s.text+" ("+strings.Join(s.fields, " ")+")")
	}
	return strings.Join(rq, "."), strings.ToUpper(strings.Join(nm, "."))
}

var c13Absent = []string{"X-Absent", "Cc", "Bcc", "Reply-To", "X"}

// fieldList draws 1-4 names from present, absent and differently-cased names.
func c13FieldList(r *core.Rand, present []string) []string {
	n := 1 + r.Weighted([]int{4, 3, 2, 1})
	var out []string
	seen := map[string]bool{}
	for len(out) < n {
		var f string
		k := r.Weighted([]int{5, 3, 3, 1, 1, 1})
		if len(present) == 0 && k != 3 {
			k = 2
		}
		switch k {
		case 0:
			f = present[r.Intn(len(present))]
		case 1:
			f = present[r.Intn(len(present))]
			switch r.Intn(3) {
			case 0:
				f = strings.ToUpper(f)
			case 1:
				f = strings.ToLower(f)
			default:
				b := []byte(f)
				for i := range b {
					if i%2 == 0 {
						b[i] = strings.ToUpper(string(b[i]))[0]
					} else {
						b[i] = strings.ToLower(string(b[i]))[0]
					}
				}
				f = string(b)
			}
		case 2:
			f = c13Absent[r.Intn(len(c13Absent))]
		case 3:
			f = gen.IDHeader
		case 4:
			f = present[r.Intn(len(present))]
			if len(f) > 2 {
				f = f[:len(f)-1-r.Intn(len(f)-2)] // a proper prefix of a present name
			}
		case 5:
			f = present[r.Intn(len(present))] + "s"
		}
		if f == "" || seen[strings.ToLower(f)] && r.P(3, 4) {
			if len(out) > 0 && r.P(1, 2) {
				break
			}
			continue
		}
		seen[strings.ToLower(f)] = true
		out = append(out, f)
	}
	return out
}

func c13Pick(mode, rnd int, ln int, huge bool) uint64 {
	switch mode % 10 {
	case 0:
		return 0
	case 1:
		return 1
	case 2:
		return uint64(max(0, ln-1))
	case 3:
		return uint64(ln)
	case 4:
		return uint64(ln + 1)
	case 7:
		return 1 << 31
	case 8:
		return 1<<32 - 1
	case 9:
		if huge {
			return 1<<63 - 1
		}
	}
	return uint64(rnd % (ln + 1))
}

// buildItems turns the integers of a fetch action into an attribute list that is valid
// for every addressed message.  allJudged=false: the list holds a request outside the
// judged domain (the command's completion status is then not judged).
func (x *c13Run) buildItems(a core.Action, ms []*c13Msg) ([]*c13Item, bool) {
	sc := x.sc
	first := ms[0]
	refs := first.refs()
	var msgRefs []c13Ref // message/rfc822 parts
	var plain []c13Ref
	for _, r := range refs {
		if r.sub1 && sc.C("subpart1") == 0 {
			continue
		}
		plain = append(plain, r)
		if !r.self && r.part.Embedded != nil {
			msgRefs = append(msgRefs, r)
		}
	}
	n := 1 + []int{0, 0, 1, 1, 2, 3, 4, 5}[a.Arg(4)%8]
	allJudged := true
	var items []*c13Item
	names := map[string]bool{}
	add := func(it *c13Item) {
		if it == nil || names[it.name] {
			return
		}
		names[it.name] = true
		items = append(items, it)
	}
	mkBody := func(sec *c13Sec, peek bool, pm, po, pn int, lower bool) *c13Item {
		req, name := sec.render()
		it := &c13Item{sec: sec, literal: true, judged: true, needsLit: true}
		// every addressed message must have the section
		for _, m := range ms {
			if _, ok := sec.bytesOf(m); !ok {
				return nil
			}
			if r := m.find(sec.path); r != nil && r.sub1 && sc.C("subpart1") == 0 {
				return nil
			}
		}
		kw := "BODY"
		if peek {
			kw = "BODY.PEEK"
		}
		if lower {
			kw = strings.ToLower(kw)
			if sec.text != "FIELDS" && sec.text != "FIELDS.NOT" {
				req = strings.ToLower(req)
			}
		}
		it.req = kw + "[" + req + "]"
		it.name = "BODY[" + name + "]"
		if pm%3 == 0 {
			full, _ := sec.bytesOf(first)
			huge := sc.C("hugepartial") == 1
			it.partial = true
			it.off = c13Pick(po, po/10, len(full), huge)
			it.cnt = c13Pick(pn, pn/10, len(full), huge)
			if it.cnt == 0 {
				if sc.C("wild") == 1 && pn%20 < 10 {
					allJudged = false // "<o.0>" is not valid syntax (nz-number)
				} else {
					it.cnt = 1
				}
			}
			it.req += fmt.Sprintf("<%d.%d>", it.off, it.cnt)
			it.name += fmt.Sprintf("<%d>", it.off)
		}
		return it
	}
	for k := 0; k < n; k++ {
		base := 5 + 6*k
		kind, p1, p2, pm, po, pn := a.Arg(base), a.Arg(base+1), a.Arg(base+2), a.Arg(base+3), a.Arg(base+4), a.Arg(base+5)
		peek := p2%2 == 0
		lower := p2%16 == 15
		rr := core.NewRand(core.Mix(uint64(p1)+1, uint64(p2)+77))
		switch sel := kind % 20; {
		case sel <= 2:
			add(mkBody(&c13Sec{}, peek, pm, po, pn, lower))
		case sel == 3:
			add(&c13Item{req: "RFC822", name: "RFC822", sec: &c13Sec{}, literal: true, judged: true, needsLit: true})
		case sel == 4:
			add(&c13Item{req: "RFC822.HEADER", name: "RFC822.HEADER", sec: &c13Sec{text: "HEADER"}, literal: true, judged: true, needsLit: true})
		case sel == 5:
			add(&c13Item{req: "RFC822.TEXT", name: "RFC822.TEXT", sec: &c13Sec{text: "TEXT"}, literal: true, judged: true, needsLit: true})
		case sel == 6:
			req := "RFC822.SIZE"
			if lower {
				req = "rfc822.size"
			}
			add(&c13Item{req: req, name: "RFC822.SIZE", size: true, judged: true})
		case sel == 7:
			add(mkBody(&c13Sec{text: "HEADER"}, peek, pm, po, pn, lower))
		case sel == 8:
			add(mkBody(&c13Sec{text: "TEXT"}, peek, pm, po, pn, lower))
		case sel <= 11: // a part
			if len(plain) == 0 {
				continue
			}
			r := plain[p1%len(plain)]
			add(mkBody(&c13Sec{path: r.path}, peek, pm, po, pn, lower))
		case sel == 12: // MIME header of a part
			if len(plain) == 0 {
				continue
			}
			r := plain[p1%len(plain)]
			add(mkBody(&c13Sec{path: r.path, text: "MIME"}, peek, pm, po, pn, lower))
		case sel <= 14: // header / text of an embedded message
			if len(msgRefs) == 0 {
				add(mkBody(&c13Sec{text: []string{"HEADER", "TEXT"}[p1%2]}, peek, pm, po, pn, lower))
				continue
			}
			r := msgRefs[p1%len(msgRefs)]
			add(mkBody(&c13Sec{path: r.path, text: []string{"HEADER", "TEXT"}[(p1/7)%2]}, peek, pm, po, pn, lower))
			x.e.St.Probes["embedded_message_section"]++
		case sel <= 17: // header field lists
			var path []int
			ent := first.g.Root
			if len(msgRefs) > 0 && p1%3 == 0 {
				r := msgRefs[(p1/3)%len(msgRefs)]
				path, ent = r.path, r.part.Embedded
			}
			var present []string
			for _, f := range first.fieldsOf(ent) {
				present = append(present, gen.FieldName(first.lit, f))
			}
			fl := c13FieldList(rr, present)
			if len(fl) == 0 {
				continue
			}
			not := p1%2 == 1
			quoted := p2%6 == 5
			txt := []string{"FIELDS", "FIELDS.NOT"}
			if not {
				txt[0], txt[1] = txt[1], txt[0]
			}
			add(mkBody(&c13Sec{path: path, text: txt[0], fields: fl, quoted: quoted}, peek, pm, po, pn, lower))
			if p2%4 < 2 {
				// the complementary list and the header itself, unsliced: the partition check
				add(mkBody(&c13Sec{path: path, text: txt[1], fields: fl, quoted: quoted}, true, 1, 0, 0, false))
				add(mkBody(&c13Sec{path: path, text: "HEADER"}, true, 1, 0, 0, false))
			}
		case sel == 18: // items that carry no message bytes (answered from the index)
			// (BODY / BODYSTRUCTURE are left out: the harness tokenizer wants a space between
			// list elements, which the multipart form "(...)(...)" legitimately lacks)
			nm := []string{"UID", "FLAGS", "INTERNALDATE", "ENVELOPE"}[p1%4]
			add(&c13Item{req: nm, name: nm})
		default:
			if sc.C("wild") == 0 {
				add(mkBody(&c13Sec{}, true, pm, po, pn, lower))
				continue
			}
			// outside the judged domain: absent parts, HEADER of a part that is no message
			var sec *c13Sec
			switch p1 % 3 {
			case 0:
				sec = &c13Sec{path: []int{7 + p1%3}}
			case 1:
				sec = &c13Sec{path: []int{1, 1, 1, 9}}
			default:
				sec = &c13Sec{path: []int{1}, text: []string{"HEADER", "TEXT", "MIME"}[p2%3]}
			}
			req, name := sec.render()
			it := &c13Item{sec: sec, literal: true, needsLit: true, req: "BODY.PEEK[" + req + "]", name: "BODY[" + name + "]"}
			if _, ok := sec.bytesOf(first); ok && len(ms) == 1 {
				it.judged = true
			} else {
				allJudged = false
				x.e.St.Probes["request_outside_judged_domain"]++
			}
			add(it)
		}
	}
	if len(items) == 0 {
		add(mkBody(&c13Sec{}, true, 1, 0, 0, false))
	}
	return items, allJudged
}
