package props

// The real-time watchdog of C11.  It runs OUTSIDE the synctest bubble (real clock):
// a server goroutine that spins never lets synctest.Wait return, so the run cannot be
// ended from inside.  When a run exceeds its time limit, or the heap explodes while it
// is stuck, the watchdog writes the scenario as a replay file, appends a run record
// carrying the violation to the worker's output and ends the process with status 3.

import (
	"encoding/json"
	"fmt"
	"os"
	"path/filepath"
	"runtime"
	"strconv"
	"sync/atomic"
	"time"

	"verifharness/core"
)

// c11CurIdx is the index of the run being executed (set by Generate; -1 in replays).
var c11CurIdx = -1

type c11Watch struct {
	sc     *core.Scenario
	idx    int
	done   chan struct{}
	phase  atomic.Pointer[string]
	since  atomic.Int64 // start of the current phase (unix nanoseconds)
	expect atomic.Pointer[string]
	limit  time.Duration
	heap   uint64
	start  time.Time
	pre    string
}

func c11StartWatch(sc *core.Scenario) *c11Watch {
	w := &c11Watch{sc: sc, idx: c11CurIdx, done: make(chan struct{}), limit: 60 * time.Second, heap: 3 << 30, start: time.Now()}
	c11CurIdx = -1
	if v := sc.C("wd"); v > 0 {
		w.limit = time.Duration(v) * time.Second
	}
	if v, err := strconv.Atoi(os.Getenv("VERIF_C11_WD_S")); err == nil && v > 0 {
		w.limit = time.Duration(v) * time.Second
	}
	w.Phase("boot")
	go w.loop()
	return w
}

func (w *c11Watch) Stop() { close(w.done) }

// Phase names what the run is doing (for the report).
func (w *c11Watch) Phase(p string) {
	w.phase.Store(&p)
	w.since.Store(time.Now().UnixNano())
}

// Expect announces that the next step is known to hang (recorded defect).
func (w *c11Watch) Expect(why string) { w.expect.Store(&why) }

func (w *c11Watch) loop() {
	t := time.NewTicker(100 * time.Millisecond)
	defer t.Stop()
	for {
		select {
		case <-w.done:
			return
		case <-t.C:
		}
		var m runtime.MemStats
		runtime.ReadMemStats(&m)
		if el := time.Since(w.start); el > w.limit {
			w.abort("hang", fmt.Sprintf("no quiescence: the run is stuck for %.0f s of real time (limit %.0f s), heap %d MiB", el.Seconds(), w.limit.Seconds(), m.HeapAlloc>>20))
		}
		if m.HeapAlloc > w.heap {
			w.abort("bloat", fmt.Sprintf("heap at %d MiB after %.1f s and growing while waiting for quiescence", m.HeapAlloc>>20, time.Since(w.start).Seconds()))
		}
	}
}

func (w *c11Watch) abort(oracle, detail string) {
	phase := ""
	if p := w.phase.Load(); p != nil {
		phase = *p
	}
	sig := oracle + ": in phase " + phase
	if e := w.expect.Load(); e != nil {
		oracle = "spin-eof-in-quoted"
		sig = oracle + ": " + *e
		detail = *e + ": " + detail
	}
	detail = fmt.Sprintf("phase %q: %s", phase, detail)
	v := &core.Violation{Property: "C11", Oracle: oracle, Detail: detail, Sig: sig, Step: -1}
	rec := &core.RunRecord{Idx: w.idx, Seed: w.sc.Seed, Stats: core.NewStats(), Violation: v, WallMs: time.Since(w.start).Milliseconds()}
	if dir := os.Getenv("VERIF_REPLAY_DIR"); dir != "" {
		path := filepath.Join(dir, fmt.Sprintf("C11-%d.json", w.sc.Seed))
		if err := core.WriteReplay(path, w.sc, v, []string{"(the run was ended by the watchdog: no log)"}); err == nil {
			rec.Replay = path
		}
	}
	b, _ := json.Marshal(rec)
	b = append(b, '\n')
	if f := os.Getenv("VERIF_OUT"); f != "" {
		if fh, err := os.OpenFile(f, os.O_APPEND|os.O_WRONLY|os.O_CREATE, 0o644); err == nil {
			fh.Write(b)
			fh.Close()
		}
	} else {
		os.Stdout.Write(b)
	}
	fmt.Fprintf(os.Stderr, "C11 watchdog: run idx=%d seed=%d: %s: %s -- exiting with status 3\n", w.idx, w.sc.Seed, oracle, detail)
	os.Exit(3)
}

// PreWrite stores the scenario as a replay file before a step that may end the process
// without a chance to report (fatal runtime error); PreWriteDone removes it again when
// the step was survived.
func (w *c11Watch) PreWrite(oracle, detail string) {
	dir := os.Getenv("VERIF_REPLAY_DIR")
	if dir == "" {
		return
	}
	w.pre = filepath.Join(dir, fmt.Sprintf("C11-%d-precrash.json", w.sc.Seed))
	v := &core.Violation{Property: "C11", Oracle: oracle, Detail: detail, Sig: oracle + ": deep nesting", Step: -1}
	if core.WriteReplay(w.pre, w.sc, v, nil) != nil {
		w.pre = ""
	}
	fmt.Fprintf(os.Stderr, "C11: run idx=%d seed=%d sends nesting beyond the safe depth; scenario saved as %s\n", w.idx, w.sc.Seed, w.pre)
}

func (w *c11Watch) PreWriteDone() {
	if w.pre != "" {
		os.Remove(w.pre)
		w.pre = ""
	}
}
