package props

import (
	"context"
	"fmt"
	"sort"
	"strings"
	"sync"

	"github.com/ProtonMail/gluon"
	"github.com/ProtonMail/gluon/imap"
	"github.com/ProtonMail/gluon/limits"

	"verifharness/core"
	"verifharness/gen"
	"verifharness/model"
	"verifharness/simconn"
	"verifharness/wire"
	"verifharness/world"
)

// C17 — configured limits are never exceeded and refusals have no partial effect.
type C17 struct{}

func (C17) ID() string { return "C17" }

var c17Kinds = []string{"append", "copy", "move", "create", "rename", "conn.batch", "conn.mbox", "conn.boxes", "expunge", "delete", "papp", "pcreate"}

func (C17) Generate(r *core.Rand, tier string, idx int) *core.Scenario {
	sc := &core.Scenario{Property: "C17", Cfg: map[string]int{}}
	sc.Cfg["maxboxes"] = r.Range(4, 8) // includes INBOX
	sc.Cfg["maxmsgs"] = r.Range(2, 8)
	sc.Cfg["maxuid"] = r.Range(4, 24)
	sc.Cfg["labels"] = r.Intn(2)
	if r.P(1, 2) {
		sc.Cfg["echo"] = 1
	}
	if r.P(1, 2) {
		sc.Cfg["deepcreate"] = 1 // CREATE / RENAME that have to create parent mailboxes
	}
	//                 app cop mov cre ren cba cmb cbx exp del papp pcreate
	weights := []int{14, 8, 5, 6, 2, 6, 3, 3, 3, 1, 4, 3}
	n := r.Range(25, 60)
	for i := 0; i < n; i++ {
		a := core.Action{K: c17Kinds[r.Weighted(weights)]}
		for j := 0; j < 5; j++ {
			a.A = append(a.A, r.Intn(1000))
		}
		sc.Actions = append(sc.Actions, a)
	}
	return sc
}

func (C17) Execute(sc *core.Scenario, keepLog bool) *core.Result {
	maxBoxes, maxMsgs, maxUID := max(3, sc.C("maxboxes")), max(1, sc.C("maxmsgs")), max(2, sc.C("maxuid"))
	lim := limits.NewIMAPLimits(uint32(maxBoxes), uint32(maxMsgs), imap.UID(maxUID), imap.UID(0xFFFFFFF0))
	cfg := world.Config{Users: []world.UserCfg{{Names: []string{"user"}, Password: "pass"}}, Limits: &lim, DBFaults: true}
	return RunInBubble("C17", sc, keepLog, cfg, func(e *Env) {
		u := e.W.Users[0]
		u.Conn.MoveRemovesSource = sc.C("labels") == 0
		// The simulator owns the moment a write transaction starts: while the gate is
		// closed every db Write parks at its entry (a channel receive: quiescence sees it),
		// and the parked writers are let through one at a time in an order the scenario
		// chooses.  That decides the interleaving of concurrent commands at the seam where
		// it matters (what a command read before it writes).
		type parked struct {
			sid int64
			ch  chan struct{}
		}
		var (
			gateMu   sync.Mutex
			gateShut bool
			gateWait []parked
		)
		e.W.DB.EnterCtx = func(ctx context.Context) {
			gateMu.Lock()
			if !gateShut {
				gateMu.Unlock()
				return
			}
			sid, _ := gluon.VerifStateIDFromContext(ctx)
			p := parked{sid, make(chan struct{})}
			gateWait = append(gateWait, p)
			gateMu.Unlock()
			<-p.ch
		}
		m := NewMail(e, 1, 2, true) // INBOX + box1 (+ recovery = 3 mailboxes)
		if e.Failed() {
			return
		}
		s := m.Sess[0]
		remote := map[string]imap.MailboxID{}
		refreshRemote := func() {
			for id, nm := range u.Conn.MboxNames {
				remote[strings.Join(nm, "/")] = id
			}
		}
		refreshRemote()
		names := func() []string { return e.R.Names() }
		// the internal recovery mailbox is not counted (whether it should be is not stated;
		// counting it would only make the check stricter by one)
		nBoxes := func() int { return len(e.R.Boxes) }
		fits := func(b *model.Mailbox, n int) bool {
			return len(b.Members)+n <= maxMsgs && int(b.UIDNext)-1+n <= maxUID
		}
		// exact says whether n more messages would bring the highest UID exactly to the maximum
		exact := func(b *model.Mailbox, n int) string {
			if int(b.UIDNext)-1+n == maxUID {
				return " (the highest UID assigned would be exactly the configured maximum)"
			}
			return ""
		}
		refusedN, acceptedAtLimit := 0, 0
		// Whether the hidden recovery mailbox counts against the mailbox limit is not stated.
		// The server says which way it counts: once it has refused ONE more mailbox, for the
		// mailbox limit, with c visible mailboxes existing (nothing else going on), c is the
		// most it may ever hold in this run - also when several requests arrive at once.
		capLearned := -1
		learnCap := func(text string) {
			if strings.Contains(text, "max mailbox count") && (capLearned < 0 || nBoxes() < capLearned) {
				capLearned = nBoxes()
				e.St.Probes["mailbox_capacity_learned_from_refusal"]++
			}
		}
		invariants := func() {
			if e.Failed() {
				return
			}
			rs, err := e.W.Connect()
			if err != nil {
				e.Infra = err
				return
			}
			defer func() { rs.Cmd("LOGOUT"); rs.C.Dead = true }()
			if !rs.Cmd("LOGIN user pass").OK() {
				e.Fail("invariant", "LOGIN failed")
				return
			}
			got := listNames(rs)
			cnt := 0
			for _, n := range got {
				if n != recoveryName {
					cnt++
				}
			}
			if cnt > maxBoxes {
				e.Fail("limit-mailboxes", "%d mailboxes exist (%v), configured maximum is %d", cnt, got, maxBoxes)
				return
			}
			if capLearned >= 0 && cnt > capLearned {
				e.Fail("limit-mailboxes", "%d mailboxes exist (%v) although the server had refused to create one more, for the mailbox limit (%d), when %d existed", cnt, got, maxBoxes, capLearned)
				return
			}
			if !sameNames(got, names()) {
				e.Fail("content", "mailboxes listed %v, model has %v", got, names())
				return
			}
			for _, name := range got {
				rows, _, next, err := e.readMailbox(rs, name, false)
				if err != nil {
					e.Fail("invariant", "mailbox %q: %v", name, err)
					return
				}
				e.St.Checks++
				if len(rows) > maxMsgs {
					e.Fail("limit-messages", "mailbox %q holds %d messages, configured maximum is %d", name, len(rows), maxMsgs)
					return
				}
				for _, r := range rows {
					if int(r.UID) > maxUID {
						e.Fail("limit-uid", "mailbox %q has UID %d, configured maximum is %d", name, r.UID, maxUID)
						return
					}
				}
				if b := e.R.Boxes[name]; b != nil {
					if d := model.Diff(name, b.Rows(), rows, true); d != "" {
						e.Fail("content", "%s", d)
						return
					}
					_ = next
				}
			}
		}
		sel := func(name string) bool {
			s.M.Reset(name, false)
			if !s.Cmd("SELECT %s", Quote(name)).OK() {
				s.M.Unselect()
				return false
			}
			return true
		}
		// echo: like a real remote, the simulated one reports the mailboxes the server created
		// on it back as MailboxCreated updates (cfg echo, half of the runs), right after the
		// command.  For a command that was answered OK that is a restatement; after a refused
		// command nothing may come back, because nothing may have been created remotely.
		echoRemote := func() {
			calls := u.Conn.TakeCalls()
			if sc.C("echo") != 1 {
				return
			}
			for _, call := range calls {
				if call.Kind == simconn.KCreateMailbox && call.Err == nil && call.NewID != "" {
					e.W.Submit(u, imap.NewMailboxCreated(u.Conn.MailboxTemplate(imap.MailboxID(call.NewID), call.Name)))
					e.St.Probes["mailbox_create_echoed"]++
				}
			}
		}
		for i, a := range sc.Actions {
			e.Step = i + 1
			echoRemote()
			ns := names()
			box := e.R.Boxes[ns[abs(a.Arg(0))%len(ns)]]
			switch a.K {
			case "append":
				g := e.NewMessage(a.Arg(1), gen.Opts{})
				r := s.Do(wire.WithLiteral(fmt.Sprintf("APPEND %s ", Quote(box.Name)), g.Bytes, ""))
				e.Tr.Event("append", box.Name, r.Status)
				ok := fits(box, 1)
				if r.OK() {
					o, _ := model.NewObj(g.Marker, g.Bytes, nil)
					box.Add(o, false)
					if len(box.Members) == maxMsgs || int(box.UIDNext)-1 == maxUID {
						acceptedAtLimit++
					}
				} else {
					refusedN++
					if ok {
						e.Fail("fits-refused", "APPEND to %q (%d messages, next UID %d; limits %d messages, UID %d) answered %s %s%s", box.Name, len(box.Members), box.UIDNext, maxMsgs, maxUID, r.Status, r.Text, exact(box, 1))
					}
					// a refused APPEND goes to the recovery mailbox (C20): not judged here
				}
			case "papp":
				// several sessions APPEND to one mailbox at the same time: the literals are
				// handed over together, the commands run concurrently (their interleaving is
				// the Go scheduler's).  However they interleave, the limits hold, and as many
				// of them are accepted as there is room for.
				k := 2 + abs(a.Arg(1))%3
				type pa struct {
					s   *world.Sess
					tag string
					g   *gen.Message
					st  string
					uid uint32
				}
				var ps []*pa
				for j := 0; j < k; j++ {
					ps2, err := e.W.Connect()
					if err != nil {
						e.Infra = err
						return
					}
					if !ps2.Cmd("LOGIN user pass").OK() {
						e.Fail("invariant", "LOGIN failed")
						return
					}
					ps = append(ps, &pa{s: ps2, g: e.NewMessage(a.Arg(2)+j, gen.Opts{})})
				}
				for _, p := range ps {
					p.tag = p.s.C.NextTag()
					e.W.Sim.SetLabel(p.s.Label)
					e.W.Tracef("C %s: %s APPEND %s {%d}", p.s.Label, p.tag, Quote(box.Name), len(p.g.Bytes))
					p.s.C.Conn.ClientSend([]byte(fmt.Sprintf("%s APPEND %s {%d}\r\n", p.tag, Quote(box.Name), len(p.g.Bytes))))
				}
				e.W.Quiesce()
				for _, p := range ps {
					lines, _ := p.s.Poll()
					cont := false
					for _, l := range lines {
						if l.Tag == "+" {
							cont = true
						}
					}
					if !cont {
						e.Fail("invariant", "APPEND to %q on %s: no continuation request", box.Name, p.s.Label)
						return
					}
				}
				gateMu.Lock()
				gateShut = true
				gateMu.Unlock()
				for _, p := range ps {
					e.W.Sim.SetLabel(p.s.Label)
					p.s.C.Conn.ClientSend(append(append([]byte(nil), p.g.Bytes...), '\r', '\n'))
				}
				e.W.Quiesce()
				// every command has done what it does before its first write; now the writes
				// happen one after the other, in the order the scenario picks
				gateMu.Lock()
				gateShut = false
				waiting := gateWait
				gateWait = nil
				gateMu.Unlock()
				// the order of arrival at the gate is the Go scheduler's: order the writers by
				// the session they belong to, so that the scenario's choice means the same
				// interleaving in every execution
				sort.SliceStable(waiting, func(i, j int) bool { return waiting[i].sid < waiting[j].sid })
				e.St.Probes["writers_parked_at_gate"] += len(waiting)
				e.St.Faults["write_order_chosen_at_gate"] += len(waiting)
				for n := abs(a.Arg(3)); len(waiting) > 0; n /= 7 {
					j := n % len(waiting)
					close(waiting[j].ch)
					waiting = append(waiting[:j], waiting[j+1:]...)
					e.W.Quiesce()
				}
				room := min(maxMsgs-len(box.Members), maxUID-(int(box.UIDNext)-1))
				roomLow := min(maxMsgs-len(box.Members), maxUID-1-(int(box.UIDNext)-1)) // finding F19: the last UID is not handed out
				var acc []*pa
				for _, p := range ps {
					lines, _ := p.s.Poll()
					for _, l := range lines {
						if l.Tag == p.tag {
							p.st = l.Status
							fmt.Sscanf(l.Code, "APPENDUID %d %d", new(uint32), &p.uid)
						}
					}
					e.Tr.Event("papp", p.s.Label, box.Name, p.st)
					switch p.st {
					case "OK":
						acc = append(acc, p)
					case "":
						e.Fail("invariant", "concurrent APPEND to %q on %s got no completion", box.Name, p.s.Label)
						return
					default:
						refusedN++
					}
					p.s.Cmd("LOGOUT")
					p.s.C.Dead = true
				}
				e.St.Probes["parallel_appends"]++
				if len(acc) > max(room, 0) {
					e.St.Probes["parallel_appends_over_limit"]++
					e.Fail("limit-concurrent", "%d sessions APPENDed to %q (%d messages, next UID %d; limits %d messages, UID %d) at the same time and %d were accepted: room for %d", k, box.Name, len(box.Members), box.UIDNext, maxMsgs, maxUID, len(acc), max(room, 0))
					return
				}
				if len(acc) < min(k, max(roomLow, 0)) {
					e.Fail("fits-refused", "%d sessions APPENDed to %q (%d messages, next UID %d; limits %d messages, UID %d) at the same time and only %d were accepted: room for %d", k, box.Name, len(box.Members), box.UIDNext, maxMsgs, maxUID, len(acc), roomLow)
					return
				}
				if room < k {
					e.St.Probes["parallel_appends_at_limit"]++
				}
				sort.Slice(acc, func(i, j int) bool { return acc[i].uid < acc[j].uid })
				for _, p := range acc {
					o, _ := model.NewObj(p.g.Marker, p.g.Bytes, nil)
					box.Add(o, false)
				}
			case "pcreate":
				// several sessions CREATE different mailboxes at the same time; as with papp the
				// write gate lets every command do what it does before its first write, then
				// the writes happen one by one
				k := 2 + abs(a.Arg(1))%3
				type pc struct {
					s    *world.Sess
					tag  string
					name string
					st   string
				}
				var ps []*pc
				// in some runs the new mailboxes are siblings below one parent that does not
				// exist yet: every serial order creates the parent once and accepts them all
				par := ""
				if abs(a.Arg(4))/2%3 == 1 {
					par = fmt.Sprintf("par%d", abs(a.Arg(2))%3)
				}
				parMissing := par != "" && e.R.Boxes[par] == nil
				for j := 0; j < k; j++ {
					name := fmt.Sprintf("q%d", (abs(a.Arg(2))+j)%8)
					if par != "" {
						name = par + "/" + name
					}
					if e.R.Boxes[name] != nil {
						continue
					}
					dup := false
					for _, p := range ps {
						dup = dup || p.name == name
					}
					if dup {
						continue
					}
					ps2, err := e.W.Connect()
					if err != nil {
						e.Infra = err
						return
					}
					if !ps2.Cmd("LOGIN user pass").OK() {
						e.Fail("invariant", "LOGIN failed")
						return
					}
					ps = append(ps, &pc{s: ps2, name: name})
				}
				if len(ps) < 2 {
					for _, p := range ps {
						p.s.Cmd("LOGOUT")
						p.s.C.Dead = true
					}
					continue
				}
				gateMu.Lock()
				gateShut = true
				gateMu.Unlock()
				for _, p := range ps {
					p.tag = p.s.C.NextTag()
					e.W.Sim.SetLabel(p.s.Label)
					e.W.Tracef("C %s: %s CREATE %s", p.s.Label, p.tag, p.name)
					p.s.C.Conn.ClientSend([]byte(fmt.Sprintf("%s CREATE %s\r\n", p.tag, p.name)))
				}
				// ... and in some runs the remote announces a new mailbox at the same moment:
				// the connector update is one more writer at the gate
				var cupd imap.Update
				var cid imap.MailboxID
				cname := fmt.Sprintf("r%d", abs(a.Arg(2))%5)
				if abs(a.Arg(4))%2 == 1 && e.R.Boxes[cname] == nil {
					cid = u.Conn.NewMailboxID()
					cupd = imap.NewMailboxCreated(u.Conn.MailboxTemplate(cid, []string{cname}))
					e.W.Sim.SetLabel("conn")
					if !u.Conn.Submit(cupd) {
						cupd = nil
					}
				}
				e.W.Quiesce()
				gateMu.Lock()
				gateShut = false
				waiting := gateWait
				gateWait = nil
				gateMu.Unlock()
				sort.SliceStable(waiting, func(i, j int) bool { return waiting[i].sid < waiting[j].sid })
				e.St.Probes["writers_parked_at_gate"] += len(waiting)
				e.St.Faults["write_order_chosen_at_gate"] += len(waiting)
				for n := abs(a.Arg(3)); len(waiting) > 0; n /= 7 {
					j := n % len(waiting)
					close(waiting[j].ch)
					waiting = append(waiting[:j], waiting[j+1:]...)
					e.W.Quiesce()
				}
				room := maxBoxes - nBoxes()
				acc := 0
				for _, p := range ps {
					lines, _ := p.s.Poll()
					for _, l := range lines {
						if l.Tag == p.tag {
							p.st = l.Status
						}
					}
					e.Tr.Event("pcreate", p.s.Label, p.name, p.st)
					switch p.st {
					case "OK":
						acc++
						if par != "" && e.R.Boxes[par] == nil {
							e.R.Create(par, "")
						}
						e.R.Create(p.name, "")
					case "":
						e.Fail("invariant", "concurrent CREATE %q on %s got no completion", p.name, p.s.Label)
						return
					default:
						refusedN++
					}
					p.s.Cmd("LOGOUT")
					p.s.C.Dead = true
				}
				e.St.Probes["parallel_creates"]++
				nreq := len(ps)
				if cupd != nil {
					nreq++
					ch := make(chan error, 1)
					go func() {
						err, _ := cupd.Wait()
						ch <- err
					}()
					e.W.Quiesce()
					select {
					case err := <-ch:
						e.Tr.Event("pcreate-conn", cname, err != nil)
						if err == nil {
							acc++
							u.Conn.MboxNames[cid] = []string{cname}
							remote[cname] = cid
							e.R.Create(cname, string(cid))
						} else {
							refusedN++
						}
					default:
						e.Fail("update-ack", "MailboxCreated submitted together with %d CREATE commands was not acknowledged", len(ps))
						return
					}
					e.St.Probes["connector_create_among_parallel_creates"]++
				}
				if parMissing {
					// the shared parent takes one place
					e.St.Probes["parallel_creates_below_missing_parent"]++
					if acc > 0 {
						room--
					}
					if acc < len(ps) && len(ps)+1 <= room {
						e.Fail("fits-refused", "%d sessions sent CREATE for siblings below the missing parent %q at the same time (%d mailboxes existing, limit %d) and only %d were accepted", len(ps), par, nBoxes()-acc-1, maxBoxes, acc)
						return
					}
				}
				if acc > max(room, 0) {
					e.Fail("limit-concurrent", "%d CREATE requests (sessions and remote) at the same time with %d mailboxes existing (limit %d) and %d were accepted: room for %d", nreq, nBoxes()-acc, maxBoxes, acc, max(room, 0))
					return
				}
				// (the hidden recovery mailbox may count against the limit: refusing is judged with it)
				if !parMissing && acc < min(nreq, max(room-1, 0)) {
					e.Fail("fits-refused", "%d CREATE requests (sessions and remote) at the same time with %d mailboxes existing (limit %d) and only %d were accepted: room for %d", nreq, nBoxes()-acc, maxBoxes, acc, room-1)
					return
				}
				refreshRemote()
			case "copy", "move":
				if len(box.Members) == 0 {
					continue
				}
				dest := e.R.Boxes[ns[abs(a.Arg(1))%len(ns)]]
				if dest == box {
					continue
				}
				if !sel(box.Name) {
					e.Fail("content", "SELECT %q failed", box.Name)
					break
				}
				lo := 1 + abs(a.Arg(2))%len(box.Members)
				hi := lo + abs(a.Arg(3))%(len(box.Members)-lo+1)
				var objs []*model.Obj
				nNew := 0
				for q := lo; q <= hi; q++ {
					o := box.Members[q-1].Obj
					objs = append(objs, o)
					if dest.Index(o) < 0 {
						nNew++
					}
				}
				verb := strings.ToUpper(a.K)
				r := s.Cmd("%s %d:%d %s", verb, lo, hi, Quote(dest.Name))
				e.Tr.Event(a.K, box.Name, dest.Name, lo, hi, r.Status)
				// re-added members get new UIDs as well: all of them consume UIDs
				ok := len(dest.Members)+nNew <= maxMsgs && int(dest.UIDNext)-1+len(objs) <= maxUID
				if r.OK() {
					for _, o := range objs {
						if a.K == "move" && sc.C("labels") == 0 {
							box.Remove(o)
						}
						dest.Add(o, false)
					}
				} else {
					refusedN++
					if ok {
						e.Fail("fits-refused", "%s %d:%d from %q to %q (dest %d messages next UID %d; limits %d messages, UID %d) answered %s %s%s", verb, lo, hi, box.Name, dest.Name, len(dest.Members), dest.UIDNext, maxMsgs, maxUID, r.Status, r.Text, exact(dest, len(objs)))
					}
				}
				s.Cmd("UNSELECT")
				s.M.Unselect()
			case "expunge":
				if len(box.Members) == 0 || !sel(box.Name) {
					continue
				}
				q := 1 + abs(a.Arg(1))%len(box.Members)
				if s.Cmd("STORE %d +FLAGS.SILENT (\\Deleted)", q).OK() && s.Cmd("EXPUNGE").OK() {
					box.Members[q-1].Deleted = true
					box.Expunge(nil)
				}
				s.Cmd("UNSELECT")
				s.M.Unselect()
			case "create":
				// with implicit parents: a CREATE that would cross the limit part-way must
				// create nothing
				depth := 1 + abs(a.Arg(1))%3
				if sc.C("deepcreate") == 0 {
					depth = 1 // finding F17: implicit parents are not counted against the limit
				}
				segs := []string{fmt.Sprintf("n%d", a.Arg(2)%4)}
				for d := 1; d < depth; d++ {
					segs = append(segs, fmt.Sprintf("s%d", (a.Arg(3)+d)%3))
				}
				name := strings.Join(segs, "/")
				var missing []string
				for d := 1; d <= len(segs); d++ {
					p := strings.Join(segs[:d], "/")
					if e.R.Boxes[p] == nil {
						missing = append(missing, p)
					}
				}
				r := s.Cmd("CREATE %s", Quote(name))
				e.Tr.Event("create", name, len(missing), r.Status)
				if r.OK() {
					for _, p := range missing {
						e.R.Create(p, "")
					}
					if nBoxes() >= maxBoxes-1 {
						acceptedAtLimit++
					}
				} else {
					refusedN++
					if len(missing) == 1 {
						learnCap(r.Text)
					}
					if len(missing) > 0 && nBoxes()+1+len(missing) <= maxBoxes {
						e.Fail("fits-refused", "CREATE %q (%d new mailboxes, %d exist, limit %d) answered %s %s", name, len(missing), nBoxes(), maxBoxes, r.Status, r.Text)
					}
				}
				refreshRemote()
			case "delete":
				if box.Name == "INBOX" {
					continue
				}
				hasKids := false
				for n := range e.R.Boxes {
					if strings.HasPrefix(n, box.Name+"/") {
						hasKids = true
					}
				}
				if hasKids {
					continue
				}
				if s.Cmd("DELETE %s", Quote(box.Name)).OK() {
					delete(e.R.Boxes, box.Name)
				}
			case "rename":
				if box.Name == "INBOX" || strings.Contains(box.Name, "/") {
					continue
				}
				hasKids := false
				for n := range e.R.Boxes {
					if strings.HasPrefix(n, box.Name+"/") {
						hasKids = true
					}
				}
				if hasKids {
					continue
				}
				parent := fmt.Sprintf("p%d", a.Arg(1)%3)
				if parent == box.Name {
					continue // a mailbox cannot move below itself (refused whatever the limits)
				}
				if sc.C("deepcreate") == 0 && e.R.Boxes[parent] == nil {
					continue
				}
				nn := parent + "/" + box.Name + "x"
				if e.R.Boxes[nn] != nil {
					continue
				}
				newParents := 0
				if e.R.Boxes[parent] == nil {
					newParents = 1
				}
				r := s.Cmd("RENAME %s %s", Quote(box.Name), Quote(nn))
				e.Tr.Event("rename", box.Name, nn, r.Status)
				if r.OK() {
					if newParents == 1 {
						e.R.Create(parent, "")
					}
					delete(e.R.Boxes, box.Name)
					box.Name = nn
					e.R.Boxes[nn] = box
				} else {
					refusedN++
					if nBoxes()+1+newParents <= maxBoxes {
						e.Fail("fits-refused", "RENAME %q to %q (%d new parent, %d mailboxes exist, limit %d) answered %s %s", box.Name, nn, newParents, nBoxes(), maxBoxes, r.Status, r.Text)
					}
				}
				refreshRemote()
			case "conn.batch":
				rid, ok := remote[box.Name]
				if !ok {
					continue
				}
				n := 1 + abs(a.Arg(1))%4
				var batch []*imap.MessageCreated
				var objs []*model.Obj
				for j := 0; j < n; j++ {
					g := e.NewMessage(a.Arg(2)+j, gen.Opts{})
					id := u.Conn.NewMessageID()
					parsed, _ := imap.NewParsedMessage(g.Bytes)
					u.Conn.RememberLiteral(id, g.Bytes, imap.NewFlagSet(), world.SimStart)
					batch = append(batch, &imap.MessageCreated{Message: imap.Message{ID: id, Flags: imap.NewFlagSet(), Date: world.SimStart}, Literal: g.Bytes, MailboxIDs: []imap.MailboxID{rid}, ParsedMessage: parsed})
					o, _ := model.NewObj(g.Marker, g.Bytes, nil)
					o.Remote = string(id)
					objs = append(objs, o)
				}
				r := e.W.Submit(u, imap.NewMessagesCreated(false, batch...))
				e.Tr.Event("conn.batch", box.Name, n, r.Done, r.Err != nil)
				if !r.Done {
					e.Fail("update-ack", "MessagesCreated not acknowledged")
					break
				}
				if r.Err == nil {
					for _, o := range objs {
						box.Add(o, false)
					}
				} else {
					refusedN++
					if fits(box, n) {
						e.Fail("fits-refused", "connector MessagesCreated of %d messages into %q (%d messages, next UID %d; limits %d, %d) completed with error %v%s", n, box.Name, len(box.Members), box.UIDNext, maxMsgs, maxUID, r.Err, exact(box, n))
					}
				}
			case "conn.mbox":
				name := fmt.Sprintf("r%d", a.Arg(1)%5)
				if e.R.Boxes[name] != nil {
					continue
				}
				id := u.Conn.NewMailboxID()
				tmpl := u.Conn.MailboxTemplate(id, []string{name})
				if a.Arg(2)%2 == 0 {
					// special-use mailboxes take other code paths on APPEND
					tmpl.Attributes = imap.NewFlagSet(imap.AttrDrafts)
					e.St.Probes["drafts_mailbox"]++
				}
				r := e.W.Submit(u, imap.NewMailboxCreated(tmpl))
				e.Tr.Event("conn.mbox", name, r.Done, r.Err != nil)
				if !r.Done {
					e.Fail("update-ack", "MailboxCreated not acknowledged")
					break
				}
				if r.Err == nil {
					u.Conn.MboxNames[id] = []string{name}
					remote[name] = id
					e.R.Create(name, string(id))
				} else {
					refusedN++
					learnCap(r.Err.Error())
					if nBoxes()+2 <= maxBoxes {
						e.Fail("fits-refused", "connector MailboxCreated %q (%d mailboxes exist, limit %d) completed with error %v", name, nBoxes(), maxBoxes, r.Err)
					}
				}
			case "conn.boxes":
				// put an existing remote message into another mailbox
				var o *model.Obj
				for _, mm := range box.Members {
					if mm.Obj.Remote != "" {
						o = mm.Obj
					}
				}
				dest := e.R.Boxes[ns[abs(a.Arg(1))%len(ns)]]
				rid, ok := remote[dest.Name]
				srcID, ok2 := remote[box.Name]
				if o == nil || dest == box || !ok || !ok2 || dest.Index(o) >= 0 {
					continue
				}
				r := e.W.Submit(u, imap.NewMessageMailboxesUpdated(imap.MessageID(o.Remote), []imap.MailboxID{srcID, rid}, imap.NewFlagSet()))
				e.Tr.Event("conn.boxes", o.Remote, dest.Name, r.Done, r.Err != nil)
				if !r.Done {
					e.Fail("update-ack", "MessageMailboxesUpdated not acknowledged")
					break
				}
				if r.Err == nil {
					// mailboxes become exactly {box, dest}
					for _, b := range e.R.Boxes {
						if b != box && b != dest {
							b.Remove(o)
						}
					}
					dest.Add(o, false)
					o.Flags = map[string]bool{}
				} else {
					refusedN++
					if fits(dest, 1) {
						e.Fail("fits-refused", "connector MessageMailboxesUpdated adding a message to %q (%d messages, next UID %d) completed with error %v%s", dest.Name, len(dest.Members), dest.UIDNext, r.Err, exact(dest, 1))
					}
				}
			}
			echoRemote()
			e.CheckPanics()
			invariants()
			if e.Failed() {
				return
			}
		}
		e.St.Nontrivial = refusedN > 0 && acceptedAtLimit > 0
		e.St.Probes["refused_by_limit"] += refusedN
		e.St.Probes["limit_reached_exactly"] += acceptedAtLimit
	})
}
