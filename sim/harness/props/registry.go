package props

import "verifharness/core"

var Registry = map[string]core.Property{}

func register(p core.Property) { Registry[p.ID()] = p }

func init() {
	register(C01{})
	register(C02{})
	register(C03{})
	register(C04{})
	register(C05{})
	register(C06{})
	register(C07{})
	register(C17{})
	register(C18{})
	register(C19{})
	register(C20{})
}
