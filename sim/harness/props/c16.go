package props

import (
	"fmt"
	"sort"
	"strings"

	"verifharness/core"
	"verifharness/model"
	"verifharness/wire"
	"verifharness/world"
)

// C16 — message sets select exactly the messages RFC 3501 says, or the command fails.
//
// One subject session S keeps a mailbox selected and issues commands that carry a
// message set; a disturber session D appends to / expunges from / re-flags the same
// mailbox, and (scheduling mode M) the resulting state updates wait at S's gate until a
// 'deliver' action lets some of them through, so S works on fresh, partly updated and
// stale views.  The view the oracle computes against is S's client-side mirror as it
// stood when the command was sent.  A third session R takes authoritative reads
// (EXAMINE + FETCH 1:*) of the source and destination mailboxes.
type C16 struct{}

func (C16) ID() string { return "C16" }

const (
	c16Fetch = iota
	c16Store
	c16Copy
	c16Move
	c16Search
	c16UIDExpunge
	c16Mark
	c16Cmds
)

var c16CmdNames = []string{"FETCH", "STORE", "COPY", "MOVE", "SEARCH", "UID EXPUNGE", "STORE(\\Deleted)"}

func (C16) Generate(r *core.Rand, tier string, idx int) *core.Scenario {
	sc := &core.Scenario{Property: "C16", Cfg: map[string]int{}}
	sc.Cfg["nopar"] = r.Intn(2)
	// input classes whose defects were repaired (see known_findings.json): each in half of the runs
	//   wrap32          numbers >= 2^32 (narrowing to 32 bits on resolution)
	//   wrap64          numbers >= 2^64 (ParseNumber overflow)
	//   searchbeyond    SEARCH sequence-set key with numbers beyond the count / empty mailbox
	//   uidsearchempty  SEARCH UID key against an empty view
	for _, k := range []string{"wrap32", "wrap64", "searchbeyond", "uidsearchempty"} {
		if r.P(1, 2) {
			sc.Cfg[k] = 1
		}
	}
	if r.P(1, 2) {
		sc.Cfg["dupset"] = 1 // COPY/MOVE with a set that names a message twice (finding F03, repaired)
	}
	if r.P(1, 8) {
		sc.Cfg["samedst"] = 1 // COPY and MOVE share their destination mailbox
	}
	nmsg := []int{0, 1, 1, 2, 3, 3, 4, 5, 5, 6, 7, 8, 9, 10, 11, 12}[r.Intn(16)]
	for i := 0; i < nmsg; i++ {
		sc.Actions = append(sc.Actions, core.Action{K: "add", A: []int{r.Intn(1000)}})
	}
	if nmsg > 1 {
		for i, g := 0, r.Intn(4); i < g; i++ {
			sc.Actions = append(sc.Actions, core.Action{K: "gap", A: []int{r.Intn(1000)}})
		}
	}
	sc.Actions = append(sc.Actions, core.Action{K: "select"})
	nops := r.Range(18, 32)
	//               set add gap dflag deliver noop select
	weights := []int{72, 6, 5, 2, 9, 2, 4}
	kinds := []string{"set", "add", "gap", "dflag", "deliver", "noop", "select"}
	for i := 0; i < nops; i++ {
		k := kinds[r.Weighted(weights)]
		a := core.Action{K: k}
		switch k {
		case "set":
			a.A = c16GenSet(r, sc)
		case "deliver":
			a.A = []int{r.Intn(10), r.Intn(2)}
		default:
			a.A = []int{r.Intn(1000)}
		}
		sc.Actions = append(sc.Actions, a)
	}
	return sc
}

// c16GenSet draws one set command: [cmd, form, nitems-1, variant, (type, kindA, xA, kindB, xB) x4].
func c16GenSet(r *core.Rand, sc *core.Scenario) []int {
	//                  fetch store copy move search uidexp mark
	cmd := r.Weighted([]int{28, 16, 10, 8, 22, 7, 9})
	a := []int{cmd, r.Intn(4), 0, r.Intn(10)}
	nitems := 1 + r.Weighted([]int{50, 30, 15, 5})
	a[2] = nitems - 1
	// class of the set: 0 only numbers that address the view, 1 one number just outside
	// (0, top+1, top+k), 2 one large number below 2^32 or in 2^63..2^64, 3 one number that
	// does not fit 32 / 64 bits (only when the run enables the class)
	class := r.Weighted([]int{55, 17, 14, 14})
	valid := []int{c16Ref, c16Ref, c16Ref, c16Top, c16First, c16Gap, c16One}
	var odd []int
	switch class {
	case 1:
		odd = []int{c16Top1, c16Top1, c16TopMore, c16Zero}
	case 2:
		odd = []int{c16K31m1, c16K31, c16K32m1, c16K63, c16K63Ref}
	case 3:
		if sc.Cfg["wrap32"] == 1 {
			odd = append(odd, c16K32, c16K32Ref, c16K32Ref, c16K32mRef)
		}
		if sc.Cfg["wrap64"] == 1 {
			odd = append(odd, c16K64, c16K64Ref, c16K64Ref, c16K64mRef, c16K40Ref)
		}
	}
	oddAt := -1
	if len(odd) > 0 {
		oddAt = r.Intn(nitems * 2)
	}
	for i := 0; i < 4; i++ {
		//                   single range star n:* *:n *:*
		typ := r.Weighted([]int{38, 32, 5, 12, 10, 3})
		ka, kb := valid[r.Intn(len(valid))], valid[r.Intn(len(valid))]
		if oddAt == 2*i {
			ka = odd[r.Intn(len(odd))]
			if typ == c16Star || typ == c16StarStar {
				typ = c16Single
			}
		}
		if oddAt == 2*i+1 {
			kb = odd[r.Intn(len(odd))]
			typ = c16Range
		}
		a = append(a, typ, ka, r.Intn(1000), kb, r.Intn(1000))
	}
	return a
}

type c16run struct {
	e        *Env
	S, D, R  *world.Sess
	src      string
	cp, mv   string // destinations of COPY and of MOVE
	selected bool
	unknown  bool // S's mirror has entries whose UID or flags could not be learned
	aSrc     []model.Row
	aDst     map[string][]model.Row
	markerOf map[uint32]int // UID in the source mailbox -> marker (from APPENDUID)
	mark     int
	kw       int
	judged   int
	accepted int
	refused  int
	srcDirty bool // the source mailbox changed since the last authoritative read
	lastCmd  string
}

// syncAuth refreshes the authoritative picture of the source mailbox if the disturber
// changed it since the last read.
func (c *c16run) syncAuth() {
	if c.srcDirty && !c.e.Failed() {
		c.aSrc = c.readAuth(c.src)
		c.srcDirty = false
	}
}

func (C16) Execute(sc *core.Scenario, keepLog bool) *core.Result {
	cfg := world.Config{
		Users:              []world.UserCfg{{Names: []string{"user"}, Password: "pass"}},
		DisableParallelism: sc.C("nopar") == 1,
		Gate:               true,
	}
	return RunInBubble("C16", sc, keepLog, cfg, func(e *Env) {
		// COPY and MOVE go to different mailboxes: moving a message into a mailbox that
		// already holds a copy of it is a separately reported defect (cfg samedst)
		c := &c16run{e: e, src: "box1", cp: "box2", mv: "box3", aDst: map[string][]model.Row{}, markerOf: map[uint32]int{}}
		if sc.C("samedst") == 1 {
			c.mv = c.cp
		}
		u := e.W.Users[0]
		u.Conn.MoveRemovesSource = true
		for _, p := range []**world.Sess{&c.S, &c.D, &c.R} {
			s, err := e.W.Connect()
			if err != nil {
				e.Infra = err
				return
			}
			if r := s.Cmd("LOGIN %s %s", u.Cfg.Names[0], u.Cfg.Password); !r.OK() {
				e.Infra = fmt.Errorf("LOGIN failed: %s %s", r.Status, r.Text)
				return
			}
			s.User = 0
			*p = s
		}
		for _, b := range []string{c.src, "box2", "box3"} {
			if r := c.D.Cmd("CREATE %s", b); !r.OK() {
				e.Infra = fmt.Errorf("CREATE %s failed: %s %s", b, r.Status, r.Text)
				return
			}
		}
		for i, a := range sc.Actions {
			e.Step = i + 1
			c.exec(a)
			c.checkPanics()
			if e.Failed() {
				return
			}
		}
		e.St.Nontrivial = c.judged >= 5 && c.accepted >= 1
	})
}

func (c *c16run) exec(a core.Action) {
	e := c.e
	switch a.K {
	case "add":
		c.mark++
		lit := []byte(fmt.Sprintf("Date: 1 Jan 2020 00:00:00 +0000\r\nFrom: c16@example.com\r\nSubject: m%d\r\nX-Sim-Marker: <%d>\r\n\r\nb%d\r\n", c.mark, c.mark, a.Arg(0)%10))
		r := c.D.Do(wire.WithLiteral(fmt.Sprintf("APPEND %s ", c.src), lit, ""))
		e.Tr.Event("add", c.mark, r.Status)
		if !r.OK() {
			e.Fail("setup", "APPEND to %s answered %s %s", c.src, r.Status, r.Text)
			return
		}
		var uv, uid uint32
		if _, err := fmt.Sscanf(r.Code, "APPENDUID %d %d", &uv, &uid); err != nil {
			e.Fail("setup", "APPEND OK without APPENDUID code: %q", r.Code)
			return
		}
		c.markerOf[uid] = c.mark
		c.srcDirty = true
	case "gap", "dflag":
		c.syncAuth()
		if len(c.aSrc) == 0 {
			return
		}
		uid := c.aSrc[abs(a.Arg(0))%len(c.aSrc)].UID
		c.D.ReleaseUpdates(-1)
		c.D.M.Reset(c.src, false)
		if r := c.D.Cmd("SELECT %s", c.src); !r.OK() {
			e.Fail("setup", "disturber SELECT answered %s %s", r.Status, r.Text)
			return
		}
		if a.K == "gap" {
			r1 := c.D.Cmd("UID STORE %d +FLAGS.SILENT (\\Deleted)", uid)
			r2 := c.D.Cmd("UID EXPUNGE %d", uid)
			e.Tr.Event("gap", uid, r1.Status, r2.Status)
			if !r1.OK() || !r2.OK() {
				e.Fail("setup", "disturber expunge of UID %d answered %s / %s", uid, r1.Status, r2.Status)
			}
			e.St.Probes["foreign_expunges"]++
		} else {
			r1 := c.D.Cmd("UID STORE %d +FLAGS.SILENT (\\Flagged)", uid)
			e.Tr.Event("dflag", uid, r1.Status)
		}
		c.D.Cmd("UNSELECT")
		c.D.M.Unselect()
		if e.Failed() {
			return
		}
		c.aSrc = c.readAuth(c.src)
	case "select":
		c.reselect()
	case "deliver":
		if !c.selected || c.S.C.Dead {
			return
		}
		k := 1 + abs(a.Arg(0))%3
		if abs(a.Arg(0))%5 == 4 {
			k = -1
		}
		n := c.S.ReleaseUpdates(k)
		e.Tr.Event("deliver", n)
		if n > 0 {
			e.St.Faults["update_delay"] += n
		}
		if a.Arg(1)%2 == 1 {
			c.sCmd("NOOP")
			c.learn()
		}
	case "noop":
		if !c.selected || c.S.C.Dead {
			return
		}
		c.sCmd("NOOP")
		c.learn()
	case "set":
		c.setOp(a)
	}
}

// sCmd sends a command of the subject session and folds the stream checks in.
func (c *c16run) sCmd(format string, args ...any) *wire.Result {
	r := c.S.Cmd(format, args...)
	c.afterS(r, fmt.Sprintf(format, args...))
	return r
}

// checkPanics reports a panic of a server goroutine (with the default panic handler the
// process would have died).  The stack is reduced to function names so that the
// violation text is the same in every process.
func (c *c16run) checkPanics() {
	e := c.e
	if e.W == nil || len(e.W.Panics) == 0 || e.V != nil {
		return
	}
	lines := strings.Split(e.W.Panics[0], "\n")
	var frames []string
	for _, l := range lines[1:] {
		if l == "" || strings.HasPrefix(l, "\t") || strings.HasPrefix(l, "goroutine ") {
			continue
		}
		if i := strings.LastIndexByte(l, '('); i > 0 {
			l = l[:i]
		}
		if strings.Contains(l, "gluon/internal/") || strings.Contains(l, "gluon/imap") || strings.Contains(l, "gluon/rfcparser") {
			frames = append(frames, l[strings.LastIndexByte(l, '/')+1:])
		}
		if len(frames) >= 6 {
			break
		}
	}
	e.FailSig("panic", strings.TrimPrefix(core.NormSig("panic", lines[0]), "panic: "), "server goroutine panicked while handling `%s`: %s [%s]", c.lastCmd, lines[0], strings.Join(frames, " < "))
}

func (c *c16run) afterS(r *wire.Result, what string) {
	e := c.e
	c.lastCmd = what
	c.checkPanics()
	if r.Err != nil {
		e.Fail("protocol", "%s: %v", what, r.Err)
	}
	for _, v := range c.S.Viol {
		e.Fail("stream", "%s: %s", what, v)
	}
	if r.Bye || r.Closed {
		c.S.C.Dead = true
		c.selected = false
	}
}

func (c *c16run) reselect() {
	e := c.e
	if c.S.C.Dead {
		return
	}
	// updates queued before SELECT would be applied to the new snapshot (finding F09)
	c.S.ReleaseUpdates(-1)
	c.S.M.Reset(c.src, false)
	r := c.sCmd("SELECT %s", c.src)
	e.Tr.Event("select", r.Status, c.S.M.Count())
	if !r.OK() {
		c.S.M.Unselect()
		c.selected = false
		e.Fail("setup", "SELECT %s answered %s %s", c.src, r.Status, r.Text)
		return
	}
	c.selected = true
	c.unknown = false
	c.learn()
}

// learn is client behaviour: ask for UID and flags of messages the client has been told
// exist but knows nothing about yet.
func (c *c16run) learn() {
	e := c.e
	if !c.selected || c.S.C.Dead || e.Failed() {
		return
	}
	lo, hi := 0, 0
	for i, m := range c.S.M.Msgs {
		if m.UID == 0 || !m.FlagsKnown {
			if lo == 0 {
				lo = i + 1
			}
			hi = i + 1
		}
	}
	if lo == 0 {
		c.unknown = false
		return
	}
	r := c.sCmd("FETCH %d:%d (UID FLAGS)", lo, hi)
	e.Tr.Event("learn", lo, hi, r.Status)
	c.unknown = false
	for _, m := range c.S.M.Msgs {
		if m.UID == 0 || !m.FlagsKnown {
			c.unknown = true
			e.St.Probes["view_not_learnable"]++
		}
	}
}

// readAuth takes an authoritative read of a mailbox through the reader session.
func (c *c16run) readAuth(box string) []model.Row {
	e := c.e
	if e.Failed() {
		return nil
	}
	c.R.ReleaseUpdates(-1)
	rows, _, _, err := e.readMailbox(c.R, box, false)
	if err != nil {
		e.Fail("auth-read", "authoritative read of %q failed: %v", box, err)
		return nil
	}
	for _, v := range c.R.Viol {
		e.Fail("stream", "reader: %s", v)
	}
	return rows
}

func c16RowsText(rows []model.Row) string {
	parts := make([]string, len(rows))
	for i, r := range rows {
		parts[i] = fmt.Sprintf("%d<%d>(%s)", r.UID, r.Marker, strings.Join(r.Flags, " "))
	}
	return "[" + strings.Join(parts, " ") + "]"
}

func c16ViewText(es []wire.Entry) string {
	parts := make([]string, len(es))
	for i, m := range es {
		parts[i] = fmt.Sprintf("%d:%d", i+1, m.UID)
	}
	return "[" + strings.Join(parts, " ") + "]"
}

func c16HasFlag(flags []string, f string) bool {
	for _, x := range flags {
		if x == f {
			return true
		}
	}
	return false
}

func (c *c16run) tameKind(k int) int {
	k = abs(k) % c16NumKinds
	switch c16KindClass(k) {
	case 1:
		if c.e.Sc.C("wrap32") == 0 {
			return c16Ref
		}
	case 2:
		if c.e.Sc.C("wrap64") == 0 {
			return c16Ref
		}
	}
	return k
}

func (c *c16run) setOp(a core.Action) {
	e := c.e
	sc := e.Sc
	if !c.selected || c.S.C.Dead {
		return
	}
	if c.unknown {
		c.reselect()
		if c.unknown || e.Failed() || !c.selected {
			return
		}
	}
	c.syncAuth()
	if e.Failed() {
		return
	}
	cmd := abs(a.Arg(0)) % c16Cmds
	form := abs(a.Arg(1))
	uidForm := form&1 == 1
	uidResult := form&2 == 2 // SEARCH only: UID SEARCH
	if cmd == c16UIDExpunge {
		uidForm = true
	}
	before := copyEntries(c.S.M.Msgs)
	n := len(before)
	uidsOfView := make([]uint32, n)
	for i, m := range before {
		uidsOfView[i] = m.UID
	}
	var uids []uint32
	if uidForm {
		uids = uidsOfView
	}
	nitems := 1 + abs(a.Arg(2))%4
	var items []c16Item
	for i := 0; i < nitems; i++ {
		b := 4 + 5*i
		items = append(items, c16MakeItem(a.Arg(b),
			c16Number(c.tameKind(a.Arg(b+1)), a.Arg(b+2), n, uids),
			c16Number(c.tameKind(a.Arg(b+3)), a.Arg(b+4), n, uids)))
	}
	wantOf := func() c16Want {
		if uidForm {
			return c16WantUID(items, uids)
		}
		return c16WantSeq(items, n)
	}
	want := wantOf()
	if (cmd == c16Copy || cmd == c16Move) && want.Overlap && sc.C("dupset") == 0 {
		// a message named twice makes COPY/MOVE fail with a UNIQUE constraint error
		// (finding F03, reported separately)
		items = items[:1]
		want = wantOf()
	}
	if cmd == c16Search {
		if !uidForm && want.Refuse && sc.C("searchbeyond") == 0 {
			cmd = c16Fetch
		}
		if uidForm && n == 0 && sc.C("uidsearchempty") == 0 {
			cmd = c16Fetch
		}
	}
	set := c16SetText(items)
	live := map[uint32]bool{}
	for _, r := range c.aSrc {
		live[r.UID] = true
	}
	hasGone := false
	for _, q := range c16UnionInts(want.Sel, want.Opt) {
		if !live[before[q-1].UID] {
			hasGone = true
		}
	}
	if hasGone {
		e.St.Probes["set_names_foreign_expunged"]++
	}
	if len(c.aSrc) != n || hasGone {
		e.St.Probes["stale_view_sets"]++
	} else {
		stale := false
		for i, r := range c.aSrc {
			if r.UID != before[i].UID {
				stale = true
			}
		}
		if stale {
			e.St.Probes["stale_view_sets"]++
		}
	}

	// ---- send ----
	verb := ""
	if uidForm {
		verb = "UID "
	}
	var text string
	var kwFlags []string // lower-cased flags a STORE adds
	negate := false
	hasGot := true // the command's own responses tell which messages it selected
	mutating := true
	switch cmd {
	case c16Fetch:
		text = fmt.Sprintf("%sFETCH %s (UID INTERNALDATE)", verb, set)
		mutating = false
	case c16Store, c16Mark:
		c.kw++
		kw := fmt.Sprintf("c16k%d", c.kw)
		kwFlags = []string{kw}
		fl := kw
		if cmd == c16Mark {
			kwFlags = []string{`\deleted`, kw}
			fl = `\Deleted ` + kw
		}
		text = fmt.Sprintf("%sSTORE %s +FLAGS (%s)", verb, set, fl)
	case c16Copy:
		text = fmt.Sprintf("%sCOPY %s %s", verb, set, c.cp)
		hasGot = false
	case c16Move:
		text = fmt.Sprintf("%sMOVE %s %s", verb, set, c.mv)
		hasGot = false
	case c16Search:
		key := set
		if uidForm {
			key = "UID " + set
		}
		if abs(a.Arg(3))%5 == 4 && !want.Refuse && !want.MayRefuse && !want.Unjudged && len(want.Opt) == 0 {
			negate = true
			key = "NOT " + key
			in := c16IntSet(want.Sel)
			var comp []int
			for q := 1; q <= n; q++ {
				if !in[q] {
					comp = append(comp, q)
				}
			}
			want.Sel = comp
		}
		sv := "SEARCH"
		if uidResult {
			sv = "UID SEARCH"
		}
		text = sv + " " + key
		mutating = false
	case c16UIDExpunge:
		text = "UID EXPUNGE " + set
		hasGot = false
	}
	_ = negate
	r := c.S.Cmd("%s", text)
	c.judged++
	e.St.Checks++
	e.St.Probes["cmd_"+strings.ReplaceAll(c16CmdNames[cmd], " ", "_")]++
	if uidForm {
		e.St.Probes["uid_form"]++
	} else {
		e.St.Probes["seq_form"]++
	}
	if n == 0 {
		e.St.Probes["empty_view_sets"]++
	}
	c.afterS(r, text)
	if e.Failed() {
		return
	}
	ctx := fmt.Sprintf("`%s` against the view %s", text, c16ViewText(before))

	// ---- which messages answered ----
	gotSet := map[int]bool{}
	dups := 0
	switch cmd {
	case c16Fetch, c16Store, c16Mark:
		for _, l := range r.Lines {
			if _, kw, ok := l.Num(); !ok || kw != "FETCH" {
				continue
			}
			fd, err := wire.ParseFetch(l)
			if err != nil {
				e.Fail("protocol", "%s: %v", ctx, err)
				return
			}
			mine := false
			if cmd == c16Fetch {
				_, mine = fd.Items["INTERNALDATE"]
			} else {
				mine = fd.HasFlags && c16HasFlag(fd.Flags, kwFlags[len(kwFlags)-1])
			}
			if !mine {
				continue
			}
			q := int(fd.Seq)
			if q < 1 || q > n {
				e.Fail("select-outside-view", "%s: FETCH response for sequence number %d, the view has %d messages", ctx, q, n)
				return
			}
			if fd.HasUID && fd.UID != before[q-1].UID {
				e.Fail("select-outside-view", "%s: FETCH response %d carries UID %d, the view has UID %d there", ctx, q, fd.UID, before[q-1].UID)
				return
			}
			if gotSet[q] {
				dups++
			}
			gotSet[q] = true
		}
	case c16Search:
		ids, cnt, err := wire.SearchIDs(r.Lines)
		if err != nil {
			e.Fail("protocol", "%s: %v", ctx, err)
			return
		}
		if r.OK() && cnt != 1 {
			e.Fail("protocol", "%s: %d SEARCH responses", ctx, cnt)
			return
		}
		for _, id := range ids {
			q := int(id)
			if uidResult {
				q = 0
				for i, m := range before {
					if m.UID == id {
						q = i + 1
					}
				}
				if q == 0 {
					e.Fail("select-outside-view", "%s: result names UID %d which is not in the view", ctx, id)
					return
				}
			} else if q < 1 || q > n {
				e.Fail("select-outside-view", "%s: result names sequence number %d, the view has %d messages", ctx, q, n)
				return
			}
			if gotSet[q] {
				dups++
			}
			gotSet[q] = true
		}
	}
	if dups > 0 {
		e.St.Probes["message_answered_twice"]++
	}
	got := c16SortedInts(gotSet)
	e.Tr.Event("set", text, r.Status, fmt.Sprint(got))

	// ---- judge status and selection ----
	refusedNow := r.Status == "BAD" || r.Status == "NO"
	formName := "seq"
	if uidForm {
		formName = "uid"
	}
	var cands [][]int // selections whose effect is acceptable
	switch {
	case want.Refuse:
		if !refusedNow {
			what := "and addressed no message"
			if hasGot && len(got) > 0 {
				what = fmt.Sprintf("and addressed sequence numbers %v", got)
			}
			if mutating {
				// look at the effect to tell what it did
				if _, d := c.effectDiff(cmd, before, [][]int{{}}, kwFlags); d != "" {
					what += "; it changed the mailboxes: " + d
				} else if !hasGot {
					what = "and changed nothing"
				}
			}
			e.FailSig(formName+"-not-refused", fmt.Sprintf("%s %s", c16CmdNames[cmd], c16WhyClass(want.Why)),
				"%s answered %s %s; %s, the command must be refused", ctx, r.Status, what, want.Why)
			return
		}
		c.refused++
		e.St.Probes["refused_"+r.Status]++
		if r.Status == "NO" {
			e.St.Probes["refused_NO_"+strings.ReplaceAll(c16CmdNames[cmd], " ", "_")]++
		}
		if len(got) > 0 {
			e.Fail(formName+"-select", "%s was refused (%s) after answering for sequence numbers %v", ctx, r.Status, got)
			return
		}
		cands = [][]int{{}}
	case refusedNow:
		ok := false
		switch {
		case want.MayRefuse:
			ok = true
			e.St.Probes["refused_outside_grammar"]++
		case want.Unjudged:
			ok = true
		case hasGone && r.Status == "NO":
			// RFC 2180 4.1: NO for a message another session has expunged
			ok = true
			e.St.Probes["refused_foreign_expunged"]++
		}
		if !ok {
			e.FailSig(formName+"-refused", c16CmdNames[cmd]+" "+r.Status,
				"%s answered %s %s; every number of the set is valid in this view, RFC 3501 selects %v", ctx, r.Status, r.Text, want.Sel)
			return
		}
		for _, q := range got {
			if !c16IntSet(want.Sel)[q] && !c16IntSet(want.Opt)[q] {
				e.Fail(formName+"-select", "%s (refused %s) answered for sequence number %d, outside the RFC 3501 selection %v", ctx, r.Status, q, want.Sel)
				return
			}
		}
		cands = [][]int{{}}
	default:
		c.accepted++
		if len(want.Opt) > 0 {
			e.St.Probes["uid_range_above_top_unjudged"]++
		}
		if hasGot {
			gs, ss, os := c16IntSet(got), c16IntSet(want.Sel), c16IntSet(want.Opt)
			var extra, missing []int
			for _, q := range got {
				if !ss[q] && !os[q] {
					extra = append(extra, q)
				}
			}
			for _, q := range want.Sel {
				if !gs[q] {
					missing = append(missing, q)
				}
			}
			if len(extra) > 0 || len(missing) > 0 {
				sig := c16CmdNames[cmd]
				if len(extra) > 0 {
					sig += " selects messages outside the set"
				} else {
					sig += " misses messages of the set"
				}
				if want.MayRefuse {
					sig += " (number beyond 32 bits)"
				}
				e.FailSig(formName+"-select", sig,
					"%s answered OK for sequence numbers %v; RFC 3501 selects %v (outside the set: %v, missing: %v)", ctx, got, want.Sel, extra, missing)
				if mutating {
					c.effect(cmd, ctx, before, [][]int{got}, kwFlags, false)
				}
				return
			}
			cands = [][]int{got}
		} else {
			cands = [][]int{want.Sel}
			if len(want.Opt) > 0 {
				cands = append(cands, c16UnionInts(want.Sel, want.Opt))
			}
		}
		if len(want.Sel) > 0 {
			e.St.Probes["selected_some"]++
		}
	}
	if mutating {
		chosen := c.effect(cmd, ctx, before, cands, kwFlags, refusedNow)
		if !e.Failed() && r.OK() && (cmd == c16Move || cmd == c16UIDExpunge) && chosen != nil {
			// what left the mailbox must have left the view (EXPUNGE before the completion)
			now := map[uint32]bool{}
			for _, m := range c.S.M.Msgs {
				now[m.UID] = true
			}
			for _, q := range chosen {
				m := before[q-1]
				if cmd == c16UIDExpunge && !c16HasFlag(m.Flags, `\deleted`) {
					continue
				}
				if live[m.UID] && now[m.UID] {
					e.Fail("view-after", "%s answered OK, UID %d left the mailbox but is still in the session's view %s", ctx, m.UID, c16ViewText(c.S.M.Msgs))
				}
			}
		}
	}
	if !e.Failed() {
		c.learn()
	}
}

func c16WhyClass(why string) string {
	switch {
	case strings.Contains(why, "beyond"):
		return "number beyond the count"
	case strings.Contains(why, "empty"):
		return "'*' in an empty mailbox"
	}
	return "number 0"
}

// effect reads both mailboxes authoritatively and compares them with what the command
// may have done: the effect of one of the candidate selections (sequence numbers of the
// view as it stood), nothing else.  Returns the candidate that matched.
func (c *c16run) effect(cmd int, ctx string, before []wire.Entry, cands [][]int, kwFlags []string, refused bool) []int {
	chosen, diff := c.effectDiff(cmd, before, cands, kwFlags)
	if diff == "" || c.e.Failed() {
		return chosen
	}
	if refused {
		c.e.FailSig("refused-but-changed", c16CmdNames[cmd], "%s: the command must leave everything as it was, but %s", ctx, diff)
	} else {
		c.e.FailSig("effect", c16CmdNames[cmd], "%s: %s", ctx, diff)
	}
	return nil
}

// effectDiff returns the candidate selection whose effect the mailboxes show, or a
// description of the difference to the first candidate.
func (c *c16run) effectDiff(cmd int, before []wire.Entry, cands [][]int, kwFlags []string) ([]int, string) {
	e := c.e
	dst := ""
	switch cmd {
	case c16Copy:
		dst = c.cp
	case c16Move:
		dst = c.mv
	}
	oldSrc, oldDst := c.aSrc, c.aDst[dst]
	newSrc := c.readAuth(c.src)
	var newDst []model.Row
	if dst != "" {
		newDst = c.readAuth(dst)
	}
	if e.Failed() {
		return nil, ""
	}
	c.aSrc = newSrc
	if dst != "" {
		c.aDst[dst] = newDst
	}
	liveSrc := map[uint32]bool{}
	for _, r := range oldSrc {
		liveSrc[r.UID] = true
	}
	e.St.Checks++
	var firstDiff string
	for _, cand := range cands {
		selUID := map[uint32]bool{}
		delUID := map[uint32]bool{}
		for _, q := range cand {
			selUID[before[q-1].UID] = true
			if c16HasFlag(before[q-1].Flags, `\deleted`) {
				delUID[before[q-1].UID] = true
			}
		}
		var wantSrc []model.Row
		wantDst := map[int]bool{}
		// messages of the stale view that another session has expunged meanwhile may or may
		// not reach the destination (RFC 2180 leaves it open)
		optDst := map[int]bool{}
		for _, r := range oldDst {
			wantDst[r.Marker] = true
		}
		if cmd == c16Copy || cmd == c16Move {
			for u := range selUID {
				if m, ok := c.markerOf[u]; ok && !liveSrc[u] {
					optDst[m] = true
				}
			}
		}
		for _, r := range oldSrc {
			row := model.Row{UID: r.UID, Marker: r.Marker, Flags: append([]string(nil), r.Flags...)}
			if !selUID[r.UID] {
				wantSrc = append(wantSrc, row)
				continue
			}
			switch cmd {
			case c16Store, c16Mark:
				for _, f := range kwFlags {
					if !c16HasFlag(row.Flags, f) {
						row.Flags = append(row.Flags, f)
					}
				}
				sort.Strings(row.Flags)
				wantSrc = append(wantSrc, row)
			case c16Copy:
				wantDst[r.Marker] = true
				wantSrc = append(wantSrc, row)
			case c16Move:
				wantDst[r.Marker] = true
			case c16UIDExpunge:
				if !delUID[r.UID] {
					wantSrc = append(wantSrc, row)
				}
			default:
				wantSrc = append(wantSrc, row)
			}
		}
		d := ""
		if a, b := c16RowsText(wantSrc), c16RowsText(newSrc); a != b {
			d = fmt.Sprintf("mailbox %s should hold %s, holds %s (before: %s)", c.src, a, b, c16RowsText(oldSrc))
		} else if dst != "" {
			gotDst := map[int]bool{}
			for _, r := range newDst {
				gotDst[r.Marker] = true
			}
			bad := false
			for m := range wantDst {
				if !gotDst[m] {
					bad = true
				}
			}
			for m := range gotDst {
				if !wantDst[m] && !optDst[m] {
					bad = true
				}
			}
			if bad {
				d = fmt.Sprintf("mailbox %s should hold the messages %v, holds %v (before: %s)", dst, c16SortedInts(wantDst), c16SortedInts(gotDst), c16RowsText(oldDst))
			}
		}
		if d == "" {
			return cand, ""
		}
		if firstDiff == "" {
			firstDiff = fmt.Sprintf("for the selection %v %s", cand, d)
		}
	}
	return nil, firstDiff
}
