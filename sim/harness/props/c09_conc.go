package props

import (
	"bytes"
	"encoding/binary"
	"fmt"
	"io"
	"sync"
	"time"

	"github.com/anishathalye/porcupine"

	"verifharness/core"
)

// C09 part 2: concurrent Get/Set/Delete on 1-2 IDs under harness-controlled overlap.
//
// Every operation runs in its own goroutine.  The reader handed to Set stops at
// scenario-chosen byte offsets until the controller releases it; Get and Delete cannot be
// paused and either run to completion or park on the store's locks.  The controller
// performs ONE thing per step (invoke one operation, or release one stopped reader up to
// its next stop), then waits until every goroutine is parked (c09Settle) and records which
// operations returned.  Invocations and returns are stamped with the controller's step
// counter; the history is checked with porcupine against a register per ID.

const c09MaxOps = 24

func c09GenConc(r *core.Rand, sc *core.Scenario) {
	sc.Cfg["nids"] = r.Range(1, 2)
	sc.Cfg["nthr"] = r.Range(2, 4)
	nops := r.Range(6, c09MaxOps)
	// a first value so that reads have something to find
	for i := 0; i < sc.Cfg["nids"]; i++ {
		if r.P(2, 3) {
			sc.Actions = append(sc.Actions, core.Action{K: "c.inv", S: 0, A: []int{1, i, r.Intn(6), r.Intn(100000), 0, 0, 0}})
			nops--
		}
	}
	for nops > 0 {
		if r.P(3, 5) {
			// op: 0 get, 1 set, 2 delete
			op := r.Weighted([]int{5, 5, 2})
			id := 0
			if r.P(1, 4) {
				id = 1
			}
			// sets stop once or twice in two of three cases
			a := core.Action{K: "c.inv", S: r.Intn(4), A: []int{op, id, r.Intn(6), r.Intn(100000), []int{0, 1, 1, 2, 1, 2}[r.Intn(6)], r.Intn(1 << 20), r.Intn(1 << 20)}}
			sc.Actions = append(sc.Actions, a)
			nops--
		} else {
			sc.Actions = append(sc.Actions, core.Action{K: "c.rel", A: []int{r.Intn(4)}})
		}
	}
}

// c09Gate is a reader that stops at given offsets.
type c09Gate struct {
	data   []byte
	off    int
	stops  []int // ascending offsets not yet reached
	mu     *sync.Mutex
	op     *c09Op
	resume chan struct{}
}

func (g *c09Gate) Read(p []byte) (int, error) {
	if len(g.stops) > 0 && g.off == g.stops[0] {
		g.stops = g.stops[1:]
		g.mu.Lock()
		g.op.stopped = true
		g.op.stopAt = g.off
		g.mu.Unlock()
		<-g.resume
	}
	if g.off >= len(g.data) {
		return 0, io.EOF
	}
	lim := len(g.data)
	if len(g.stops) > 0 && g.stops[0] < lim {
		lim = g.stops[0]
	}
	n := copy(p, g.data[g.off:lim])
	g.off += n
	return n, nil
}

type c09Op struct {
	n       int // number in the history
	thr     int
	kind    int // 0 get 1 set 2 delete
	id      int
	val     int // value number written (set)
	call    int64
	ret     int64
	done    bool
	stopped bool
	stopAt  int
	gate    *c09Gate
	// result
	err    error
	pan    string
	got    []byte
	retVal int
	nf     bool
	seenDn bool
}

type c09In struct {
	Kind, ID, Val int
}
type c09Out struct {
	Val      int
	NotFound bool
}

var c09Model = porcupine.Model{
	Partition: func(h []porcupine.Operation) [][]porcupine.Operation {
		m := map[int][]porcupine.Operation{}
		var keys []int
		for _, o := range h {
			id := o.Input.(c09In).ID
			if _, ok := m[id]; !ok {
				keys = append(keys, id)
			}
			m[id] = append(m[id], o)
		}
		var out [][]porcupine.Operation
		for _, k := range keys {
			out = append(out, m[k])
		}
		return out
	},
	Init: func() interface{} { return 0 },
	Step: func(state, input, output interface{}) (bool, interface{}) {
		s := state.(int)
		in := input.(c09In)
		out := output.(c09Out)
		switch in.Kind {
		case 0:
			if out.NotFound {
				return s == 0, s
			}
			return s == out.Val, s
		case 1:
			return true, in.Val
		default:
			if out.NotFound {
				return s == 0, s
			}
			return s != 0, 0
		}
	},
	Equal: func(a, b interface{}) bool { return a.(int) == b.(int) },
	DescribeOperation: func(input, output interface{}) string {
		in := input.(c09In)
		out := output.(c09Out)
		switch in.Kind {
		case 0:
			if out.NotFound {
				return fmt.Sprintf("get(id%d) -> not found", in.ID)
			}
			return fmt.Sprintf("get(id%d) -> v%d", in.ID, out.Val)
		case 1:
			return fmt.Sprintf("set(id%d, v%d)", in.ID, in.Val)
		}
		if out.NotFound {
			return fmt.Sprintf("delete(id%d) -> not found", in.ID)
		}
		return fmt.Sprintf("delete(id%d) -> ok", in.ID)
	},
}

var c09ConcSizes = []int{40, 1500, 70000, 300000, 600000, 262144}

func c09ConcValue(seed uint64, val int, sizeSel, comp int) []byte {
	n := c09ConcSizes[((sizeSel%len(c09ConcSizes))+len(c09ConcSizes))%len(c09ConcSizes)]
	c := []int{5, 3, 4}[((comp%3)+3)%3]
	b := c09Content(core.Mix(seed, uint64(val)), n, c)
	// every value unique and recognisable
	binary.LittleEndian.PutUint64(b[0:], 0xC09C09C09C09C09)
	binary.LittleEndian.PutUint64(b[8:], uint64(val))
	return b
}

type c09Conc struct {
	sc    *core.Scenario
	tr    *core.Tracer
	st    *core.Stats
	w     *c09World
	mu    sync.Mutex
	ops   []*c09Op
	busy  []*c09Op // per thread: the operation in flight
	ev    int64
	vals  map[uint64]int // content hash -> value number
	vlen  map[int]int
	v     *core.Violation
	infra error
	step  int
	base  map[int64]bool
}

func (x *c09Conc) fail(oracle, sigDetail, format string, args ...any) {
	if x.v != nil {
		return
	}
	d := fmt.Sprintf(format, args...)
	x.v = &core.Violation{Property: "C09", Oracle: oracle, Detail: d, Sig: oracle + ": " + sigDetail, Step: x.step}
	x.tr.Event("VIOLATION", oracle, d)
}

func c09ExecConc(sc *core.Scenario, keepLog bool) *core.Result {
	res := &core.Result{Stats: core.NewStats()}
	tr := &core.Tracer{Keep: keepLog}
	w, err := c09NewWorld(sc)
	if err != nil {
		res.Infra = err
		return res
	}
	defer w.destroy()
	nids := min(max(sc.C("nids"), 1), 2)
	nthr := min(max(sc.C("nthr"), 2), 4)
	ids, err := c09MkIDs(nids)
	if err != nil {
		res.Infra = err
		return res
	}
	x := &c09Conc{sc: sc, tr: tr, st: &res.Stats, w: w, busy: make([]*c09Op, nthr), vals: map[uint64]int{}, vlen: map[int]int{}, base: map[int64]bool{}}
	gs, ok := c09Settle()
	if !ok {
		res.Infra = fmt.Errorf("c09: goroutines of an earlier run never parked")
		return res
	}
	for _, g := range gs {
		x.base[g.id] = true
	}
	tr.Event("cfg", 2, nids, nthr, sc.C("sem"))

	invoke := func(a core.Action) {
		if len(x.ops) >= c09MaxOps {
			return
		}
		var idle []int
		for t, o := range x.busy {
			if o == nil {
				idle = append(idle, t)
			}
		}
		if len(idle) == 0 {
			return
		}
		thr := idle[c09abs(a.S)%len(idle)]
		op := &c09Op{n: len(x.ops), thr: thr, kind: c09abs(a.Arg(0)) % 3, id: c09abs(a.Arg(1)) % nids}
		x.ops = append(x.ops, op)
		x.busy[thr] = op
		op.call = x.ev
		x.ev++
		id := ids[op.id]
		switch op.kind {
		case 1:
			op.val = op.n + 1
			data := c09ConcValue(sc.Seed, op.val, a.Arg(2), a.Arg(3))
			x.vals[c09Hash(data)] = op.val
			x.vlen[op.val] = len(data)
			var stops []int
			ns := c09abs(a.Arg(4)) % 3
			for k := 0; k < ns; k++ {
				s := c09abs(a.Arg(5+k)) % (len(data) + 1)
				if s%5 == 0 && k == 0 {
					s = 0
				}
				stops = append(stops, s)
			}
			if len(stops) == 2 {
				if stops[0] > stops[1] {
					stops[0], stops[1] = stops[1], stops[0]
				}
				if stops[0] == stops[1] {
					stops = stops[:1]
				}
			}
			op.gate = &c09Gate{data: data, stops: stops, mu: &x.mu, op: op, resume: make(chan struct{})}
			x.tr.Event("invoke", op.n, thr, "set", op.id, op.val, len(data), stops)
			go c09RunSet(x, op, func() error { return x.w.wc.Set(id, op.gate) })
		case 0:
			x.tr.Event("invoke", op.n, thr, "get", op.id)
			go c09RunOp(x, op, func() error {
				b, err := x.w.wc.Get(id)
				op.got = b
				return err
			})
		default:
			x.tr.Event("invoke", op.n, thr, "delete", op.id)
			go c09RunOp(x, op, func() error { return x.w.wc.Delete(id) })
		}
	}
	release := func(sel int) bool {
		var st []*c09Op
		x.mu.Lock()
		for _, o := range x.busy {
			if o != nil && o.stopped {
				st = append(st, o)
			}
		}
		x.mu.Unlock()
		if len(st) == 0 {
			return false
		}
		o := st[c09abs(sel)%len(st)]
		x.mu.Lock()
		o.stopped = false
		x.mu.Unlock()
		x.tr.Event("release", o.n, o.stopAt)
		x.st.Probes["reader_released"]++
		o.gate.resume <- struct{}{}
		return true
	}
	// settle waits for quiescence and records returns.
	settle := func() bool {
		gs, ok := c09Settle()
		if !ok {
			x.infra = fmt.Errorf("c09: goroutines did not park: %+v", gs)
			return false
		}
		x.mu.Lock()
		defer x.mu.Unlock()
		any := false
		var status []string
		for t, o := range x.busy {
			if o == nil {
				status = append(status, "-")
				continue
			}
			switch {
			case o.done:
				o.ret = x.ev
				any = true
				x.busy[t] = nil
				x.judgeReturn(o)
				status = append(status, fmt.Sprintf("ret%d", o.n))
			case o.stopped:
				status = append(status, fmt.Sprintf("stop%d@%d", o.n, o.stopAt))
				if !o.seenDn {
					o.seenDn = true
					x.st.Probes["set_paused_mid_stream"]++
				}
			default:
				status = append(status, fmt.Sprintf("wait%d", o.n))
				x.st.Probes["op_waiting_for_lock"]++
			}
		}
		if any {
			x.ev++
		}
		x.tr.Event("settled", status)
		return true
	}

	for i, a := range sc.Actions {
		x.step = i + 1
		switch a.K {
		case "c.inv":
			invoke(a)
		case "c.rel":
			if !release(a.Arg(0)) {
				continue
			}
		default:
			continue
		}
		if !settle() || x.v != nil {
			break
		}
	}
	// drain: release stopped readers (lowest thread first) until nothing is in flight
	for x.v == nil && x.infra == nil {
		x.step = len(sc.Actions) + 1
		inflight := 0
		for _, o := range x.busy {
			if o != nil {
				inflight++
			}
		}
		if inflight == 0 {
			break
		}
		if !release(0) {
			var names []string
			for _, o := range x.busy {
				if o != nil {
					names = append(names, fmt.Sprintf("op%d(%s id%d)", o.n, []string{"get", "set", "delete"}[o.kind], o.id))
				}
			}
			x.fail("conc-stuck", "operations never return", "every goroutine is parked, no reader is waiting for the harness, but %v never returned", names)
			break
		}
		if !settle() {
			break
		}
	}
	if x.v == nil && x.infra == nil {
		x.checkLinearizable()
	}
	if x.v == nil && x.infra == nil {
		gs, ok := c09Settle()
		if ok {
			if l := c09StoreGoroutines(gs, x.base); len(l) > 0 {
				x.fail("goroutine-leak", "concurrent", "%d goroutine(s) of the store still blocked after every operation returned: [%s] in %s", len(l), l[0].state, l[0].top)
			}
		}
	}
	res.V = x.v
	res.Infra = x.infra
	res.Stats.Actions = len(x.ops)
	res.Stats.TraceHash = tr.Hash()
	res.Stats.Nontrivial = len(x.ops) >= 3 && res.Stats.Probes["overlapping_operations"] > 0
	if keepLog {
		res.Log = tr.Log
	}
	return res
}

func c09RunOp(x *c09Conc, op *c09Op, f func() error) {
	var err error
	pan := c09Call(func() { err = f() })
	x.mu.Lock()
	op.err, op.pan, op.done = err, pan, true
	x.mu.Unlock()
}

func c09RunSet(x *c09Conc, op *c09Op, f func() error) { c09RunOp(x, op, f) }

// judgeReturn classifies the result of a finished operation (x.mu held).
func (x *c09Conc) judgeReturn(o *c09Op) {
	x.st.Checks++
	name := []string{"get", "set", "delete"}[o.kind]
	if o.pan != "" {
		x.fail("panic", "concurrent "+name, "%s(id%d) panicked: %s", name, o.id, o.pan)
		return
	}
	switch o.kind {
	case 1:
		if o.err != nil {
			x.fail("conc-error", "set failed", "op%d set(id%d, v%d) failed without an injected fault: %s", o.n, o.id, o.val, x.w.clean(o.err))
		}
	case 2:
		if o.err != nil {
			if c09NotExist(o.err) {
				o.nf = true
			} else {
				x.fail("conc-error", "delete failed", "op%d delete(id%d) failed without an injected fault: %s", o.n, o.id, x.w.clean(o.err))
			}
		}
	case 0:
		if o.err != nil {
			if c09NotExist(o.err) {
				o.nf = true
			} else {
				x.fail("conc-error", "get failed", "op%d get(id%d) failed without an injected fault (a reader saw an incomplete file?): %s", o.n, o.id, x.w.clean(o.err))
				return
			}
			break
		}
		v, ok := x.vals[c09Hash(o.got)]
		if !ok {
			what := "bytes that are no value ever written"
			if len(o.got) >= 16 && binary.LittleEndian.Uint64(o.got) == 0xC09C09C09C09C09 {
				if pv := int(binary.LittleEndian.Uint64(o.got[8:])); x.vlen[pv] != 0 {
					what = fmt.Sprintf("an INCOMPLETE or mixed value: starts like v%d (%d bytes) but has %d bytes", pv, x.vlen[pv], len(o.got))
				}
			} else if len(o.got) == 0 {
				what = "an EMPTY value"
			}
			x.fail("conc-torn", "incomplete value", "op%d get(id%d) returned %s", o.n, o.id, what)
			return
		}
		o.retVal = v
	}
	x.tr.Event("return", o.n, name, o.id, o.retVal, o.nf)
}

func (x *c09Conc) checkLinearizable() {
	var h []porcupine.Operation
	overlap := false
	for _, o := range x.ops {
		h = append(h, porcupine.Operation{ClientId: o.thr, Input: c09In{Kind: o.kind, ID: o.id, Val: o.val}, Call: o.call, Output: c09Out{Val: o.retVal, NotFound: o.nf}, Return: o.ret})
		for _, p := range x.ops {
			if p != o && p.id == o.id && p.call < o.ret && o.call < p.ret && (p.kind != 0 || o.kind != 0) {
				overlap = true
			}
		}
	}
	if overlap {
		x.st.Probes["overlapping_operations"]++
	}
	x.st.Checks++
	r := porcupine.CheckOperationsTimeout(c09Model, h, 5*time.Second)
	switch r {
	case porcupine.Ok:
	case porcupine.Unknown:
		x.st.Probes["linearizability_inconclusive"]++
	case porcupine.Illegal:
		var lines []string
		for _, o := range x.ops {
			lines = append(lines, fmt.Sprintf("[%d..%d] t%d %s", o.call, o.ret, o.thr, c09Model.DescribeOperation(c09In{Kind: o.kind, ID: o.id, Val: o.val}, c09Out{Val: o.retVal, NotFound: o.nf})))
		}
		x.fail("conc-linearizability", "history not linearizable", "no linearization of the history exists against a register per ID:\n%s", bytes.Join(c09Bytes(lines), []byte("\n")))
	}
}

func c09Bytes(s []string) [][]byte {
	out := make([][]byte, len(s))
	for i := range s {
		out[i] = []byte(s[i])
	}
	return out
}
