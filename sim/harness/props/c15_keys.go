package props

import (
	"bytes"
	"fmt"
	"strings"
	"time"
)

// tri is a three-valued truth value: a key is Unknown for a message when the property
// statement does not fix the answer (transfer-encoded body, needle that spans a fold,
// message the harness has no record of).
type tri int8

const (
	triF tri = iota
	triT
	triU
)

func triOf(b bool) tri {
	if b {
		return triT
	}
	return triF
}

func triNot(a tri) tri {
	switch a {
	case triT:
		return triF
	case triF:
		return triT
	}
	return triU
}

func triAnd(a, b tri) tri {
	if a == triF || b == triF {
		return triF
	}
	if a == triT && b == triT {
		return triT
	}
	return triU
}

func triOr(a, b tri) tri {
	if a == triT || b == triT {
		return triT
	}
	if a == triF && b == triF {
		return triF
	}
	return triU
}

// c15Row is what the searching session has been told about one sequence number.
type c15Row struct {
	Seq      int
	UID      uint32
	Flags    map[string]bool // lower-cased, without \recent
	Recent   bool
	Y, M, D  int // INTERNALDATE as told (the server always reports it in +0000)
	Instant  time.Time
	Size     int
	Marker   int
	IDLine   string // the server's ID header line, CRLF included
	Msg      *c15Msg
	complete bool
}

// c15Seg is a piece of command text or a literal.
type c15Seg struct {
	Text  string
	Lit   []byte
	IsLit bool
}

// c15Key is a node of a search-key tree.
type c15Key struct {
	Kind string // upper-case key name, "SEQ" for a bare sequence set, "LIST" for ( ... )
	Segs []c15Seg
	Kids []*c15Key
	Eval func(v *c15View, r *c15Row) tri
}

// c15View is the view a search is judged against.
type c15View struct {
	Rows []c15Row
}

func (v *c15View) maxUID() uint32 {
	if len(v.Rows) == 0 {
		return 0
	}
	return v.Rows[len(v.Rows)-1].UID
}

func (k *c15Key) segs() []c15Seg { return k.Segs }

// text renders the key without literals (for logs).
func (k *c15Key) String() string {
	var sb strings.Builder
	for _, s := range k.Segs {
		if s.IsLit {
			fmt.Fprintf(&sb, "{%d}%q", len(s.Lit), s.Lit)
		} else {
			sb.WriteString(s.Text)
		}
	}
	return sb.String()
}

func c15Text(t string) []c15Seg { return []c15Seg{{Text: t}} }

func c15Join(parts ...[]c15Seg) []c15Seg {
	var out []c15Seg
	for _, p := range parts {
		for _, s := range p {
			if !s.IsLit && len(out) > 0 && !out[len(out)-1].IsLit {
				out[len(out)-1].Text += s.Text
			} else {
				out = append(out, s)
			}
		}
	}
	return out
}

// ---- tree builder ----

// c15Gen turns the integers of an action into a key tree over the current view.
type c15Gen struct {
	a        []int
	c        int
	v        *c15View
	lit      bool // literals allowed
	nodes    int
	hdrEmpty bool // HEADER with an empty string allowed
	uidAbove bool // n:* with n above the highest UID allowed (not judged)
	kinds    map[string]int
}

func (g *c15Gen) next() int {
	if g.c < len(g.a) {
		x := g.a[g.c]
		g.c++
		if x < 0 {
			x = -x
		}
		return x
	}
	g.c++
	return 0
}

func c15CaseVar(s string, mode int) string {
	switch mode % 4 {
	case 1:
		return strings.ToLower(s)
	case 2:
		b := []byte(strings.ToLower(s))
		for i := 0; i < len(b); i += 2 {
			b[i] = byte(strings.ToUpper(string(b[i]))[0])
		}
		return string(b)
	}
	return s
}

var c15FlagKeys = []struct {
	name string
	flag string
	want bool
}{
	{"SEEN", `\seen`, true}, {"UNSEEN", `\seen`, false},
	{"DELETED", `\deleted`, true}, {"UNDELETED", `\deleted`, false},
	{"FLAGGED", `\flagged`, true}, {"UNFLAGGED", `\flagged`, false},
	{"ANSWERED", `\answered`, true}, {"UNANSWERED", `\answered`, false},
	{"DRAFT", `\draft`, true}, {"UNDRAFT", `\draft`, false},
}

// c15KindTable weights the key kinds (see build); entry 0 is ALL so that a zeroed
// scenario integer gives the simplest key.  The first c15LeafSlots entries are leaves.
var c15KindTable = []int{0, 1, 1, 1, 2, 2, 3, 3, 4, 4, 4, 5, 5, 5, 6, 6, 6, 7, 7, 8, 8, 9, 9, 10, 10, 11, 11, 12, 12, 13, 13, 14, 14}

const c15LeafSlots = 27

func (g *c15Gen) build(depth int) *c15Key {
	g.nodes++
	x := g.next()
	kind := c15KindTable[x%len(c15KindTable)]
	if (depth >= 3 || g.nodes > 12) && kind >= 12 {
		kind = c15KindTable[(x/7)%c15LeafSlots] // a leaf instead
	}
	cv := g.next() // letter case of the key word / misc variation
	kw := func(s string) string { return c15CaseVar(s, cv) }
	var k *c15Key
	switch kind {
	case 0:
		k = &c15Key{Kind: "ALL", Segs: c15Text(kw("ALL")), Eval: func(*c15View, *c15Row) tri { return triT }}
	case 1:
		f := c15FlagKeys[g.next()%len(c15FlagKeys)]
		k = &c15Key{Kind: f.name, Segs: c15Text(kw(f.name)), Eval: func(_ *c15View, r *c15Row) tri { return triOf(r.Flags[f.flag] == f.want) }}
	case 2:
		switch g.next() % 3 {
		case 0:
			k = &c15Key{Kind: "RECENT", Segs: c15Text(kw("RECENT")), Eval: func(_ *c15View, r *c15Row) tri { return triOf(r.Recent) }}
		case 1:
			k = &c15Key{Kind: "OLD", Segs: c15Text(kw("OLD")), Eval: func(_ *c15View, r *c15Row) tri { return triOf(!r.Recent) }}
		default:
			k = &c15Key{Kind: "NEW", Segs: c15Text(kw("NEW")), Eval: func(_ *c15View, r *c15Row) tri { return triOf(r.Recent && !r.Flags[`\seen`]) }}
		}
	case 3:
		p := g.next()
		names := []string{"custom", "$Fwd", "nosuchkw", "Custom", "$FWD", "custo"}
		name := names[p%len(names)]
		lower := strings.ToLower(name)
		if (p/len(names))%2 == 0 {
			k = &c15Key{Kind: "KEYWORD", Segs: c15Text(kw("KEYWORD") + " " + name), Eval: func(_ *c15View, r *c15Row) tri { return triOf(r.Flags[lower]) }}
		} else {
			k = &c15Key{Kind: "UNKEYWORD", Segs: c15Text(kw("UNKEYWORD") + " " + name), Eval: func(_ *c15View, r *c15Row) tri { return triOf(!r.Flags[lower]) }}
		}
	case 4:
		names := []string{"FROM", "TO", "CC", "BCC", "SUBJECT"}
		name := names[g.next()%len(names)]
		field := strings.ToLower(name)
		needle := g.needle(func(m *c15Msg) string { return c15FirstValue(m, field) }, name == "SUBJECT")
		k = &c15Key{Kind: name, Segs: c15Join(c15Text(kw(name)+" "), g.astring(needle)), Eval: func(_ *c15View, r *c15Row) tri {
			if r.Msg == nil {
				return triU
			}
			return c15HeaderMatch(r.Msg.Hdr[field], needle)
		}}
	case 5:
		fields := []string{"X-Tag", "Subject", "From", "X-Sim-Marker", "Message-Id", "X-Absent", "Date", "x-tag", "TO", "Content-Type"}
		fname := fields[g.next()%len(fields)]
		field := strings.ToLower(fname)
		var needle string
		if g.hdrEmpty && g.peek()%7 == 6 {
			g.next()
			g.next()
			g.next()
			needle = ""
		} else {
			needle = g.needle(func(m *c15Msg) string { return c15AnyValue(m, field, cv) }, true)
		}
		k = &c15Key{Kind: "HEADER", Segs: c15Join(c15Text(kw("HEADER")+" "), g.astring(fname), c15Text(" "), g.astring(needle)), Eval: func(_ *c15View, r *c15Row) tri {
			if r.Msg == nil {
				return triU
			}
			vals := r.Msg.Hdr[field]
			if needle == "" {
				// RFC 3501: a zero-length string matches every message that has a header
				// line with the field name
				return triOf(len(vals) > 0)
			}
			return c15HeaderMatch(vals, needle)
		}}
	case 6:
		isBody := g.next()%2 == 0
		fromHeader := !isBody && cv%3 == 0
		needle := g.needle(func(m *c15Msg) string {
			if fromHeader {
				return string(m.HeaderRaw)
			}
			return string(m.TextOnly)
		}, true)
		if isBody {
			k = &c15Key{Kind: "BODY", Segs: c15Join(c15Text(kw("BODY")+" "), g.astring(needle)), Eval: func(_ *c15View, r *c15Row) tri {
				if r.Msg == nil || !r.Msg.BodyJudged {
					return triU
				}
				raw := c15Contains(r.Msg.Body, needle)
				if r.Msg.Multipart && raw != c15Contains(r.Msg.TextOnly, needle) {
					return triU // the needle is only in MIME structure (or only across it)
				}
				return triOf(raw)
			}}
		} else {
			k = &c15Key{Kind: "TEXT", Segs: c15Join(c15Text(kw("TEXT")+" "), g.astring(needle)), Eval: func(_ *c15View, r *c15Row) tri {
				if r.Msg == nil || r.IDLine == "" {
					return triU
				}
				m := r.Msg
				hdr := append([]byte(r.IDLine), m.HeaderRaw...)
				inHdr := c15Contains(hdr, needle)
				// a needle with white space could span a fold
				unfolded := bytes.ReplaceAll(bytes.ReplaceAll(hdr, []byte("\r\n "), []byte(" ")), []byte("\r\n\t"), []byte("\t"))
				if c15Contains(unfolded, needle) != inHdr {
					return triU
				}
				if inHdr {
					return triT
				}
				if !m.BodyJudged {
					return triU
				}
				raw := c15Contains(m.Body, needle)
				if m.Multipart && raw != c15Contains(m.TextOnly, needle) {
					return triU
				}
				whole := append(append([]byte(nil), hdr...), m.Body...)
				if c15Contains(whole, needle) != raw {
					return triU // only across the header/body border
				}
				return triOf(raw)
			}}
		}
	case 7:
		larger := g.next()%2 == 0
		n := 0
		if row := g.row(g.next()); row != nil {
			n = row.Size
		} else {
			n = c15Sizes[g.peek()%len(c15Sizes)]
		}
		n += []int{0, -1, 1, 0, -100, 100}[g.next()%6]
		if n < 0 {
			n = 0
		}
		if larger {
			k = &c15Key{Kind: "LARGER", Segs: c15Text(fmt.Sprintf("%s %d", kw("LARGER"), n)), Eval: func(_ *c15View, r *c15Row) tri { return triOf(r.Size > n) }}
		} else {
			k = &c15Key{Kind: "SMALLER", Segs: c15Text(fmt.Sprintf("%s %d", kw("SMALLER"), n)), Eval: func(_ *c15View, r *c15Row) tri { return triOf(r.Size < n) }}
		}
	case 8, 9:
		sent := kind == 9
		which := g.next() % 3
		y, mo, d := c15Base.Year(), int(c15Base.Month()), c15Base.Day()
		if row := g.row(g.next()); row != nil {
			if sent && row.Msg != nil && !row.Msg.SentBad {
				y, mo, d = row.Msg.SentY, row.Msg.SentM, row.Msg.SentD
			} else if !sent {
				y, mo, d = row.Y, row.M, row.D
			}
		}
		p := g.next()
		t := time.Date(y, time.Month(mo), d, 0, 0, 0, 0, time.UTC).AddDate(0, 0, []int{0, -1, 1}[p%3])
		cy, cm, cd := t.Year(), int(t.Month()), t.Day()
		txt := fmt.Sprintf("%02d-%s-%04d", cd, c15CaseVar(c15Months[cm-1], p/3), cy)
		if cd < 10 && (p/12)%2 == 1 {
			txt = txt[1:] // date-day = 1*2DIGIT
		}
		if (p/24)%3 == 0 {
			txt = `"` + txt + `"`
		}
		k = c15MkDate(sent, which, cy, cm, cd, txt, kw)
	case 10, 11:
		uid := kind == 10
		k = g.set(uid, kw)
	case 12:
		sub := g.build(depth + 1)
		k = &c15Key{Kind: "NOT", Kids: []*c15Key{sub}, Segs: c15Join(c15Text(kw("NOT")+" "), sub.Segs), Eval: func(v *c15View, r *c15Row) tri { return triNot(sub.Eval(v, r)) }}
	case 13:
		a := g.build(depth + 1)
		b := g.build(depth + 1)
		k = &c15Key{Kind: "OR", Kids: []*c15Key{a, b}, Segs: c15Join(c15Text(kw("OR")+" "), a.Segs, c15Text(" "), b.Segs), Eval: func(v *c15View, r *c15Row) tri { return triOr(a.Eval(v, r), b.Eval(v, r)) }}
	default:
		n := 1 + cv%3
		var kids []*c15Key
		parts := [][]c15Seg{c15Text("(")}
		for i := 0; i < n; i++ {
			c := g.build(depth + 1)
			kids = append(kids, c)
			if i > 0 {
				parts = append(parts, c15Text(" "))
			}
			parts = append(parts, c.Segs)
		}
		parts = append(parts, c15Text(")"))
		k = &c15Key{Kind: "LIST", Kids: kids, Segs: c15Join(parts...), Eval: func(v *c15View, r *c15Row) tri {
			res := triT
			for _, c := range kids {
				res = triAnd(res, c.Eval(v, r))
			}
			return res
		}}
	}
	if g.kinds != nil {
		g.kinds[k.Kind]++
	}
	return k
}

func (g *c15Gen) peek() int {
	if g.c < len(g.a) {
		x := g.a[g.c]
		if x < 0 {
			x = -x
		}
		return x
	}
	return 0
}

func (g *c15Gen) row(i int) *c15Row {
	if len(g.v.Rows) == 0 {
		return nil
	}
	return &g.v.Rows[i%len(g.v.Rows)]
}

// set builds a UID or sequence-set key whose numbers come from the view.
func (g *c15Gen) set(uid bool, kw func(string) string) *c15Key {
	mode, x, y, dv := g.next(), g.next(), g.next(), g.next()
	n := len(g.v.Rows)
	if n == 0 {
		// no valid sequence number exists for an empty view; a UID key is still legal
		if !uid {
			return &c15Key{Kind: "ALL", Segs: c15Text("ALL"), Eval: func(*c15View, *c15Row) tri { return triT }}
		}
		u := uint32(1 + x%5)
		return &c15Key{Kind: "UID", Segs: c15Text(fmt.Sprintf("%s %d", kw("UID"), u)), Eval: func(*c15View, *c15Row) tri { return triF }}
	}
	val := func(seq int, delta int) uint32 {
		if !uid {
			return uint32(seq)
		}
		u := int(g.v.Rows[seq-1].UID) + delta
		if u < 1 {
			u = 1
		}
		return uint32(u)
	}
	a, b := 1+x%n, 1+y%n
	d1, d2 := 0, 0
	if uid {
		d1, d2 = []int{0, 0, 1, -1}[dv%4], []int{0, 1, 0, -1}[(dv/4)%4]
	}
	top := uint32(n)
	if uid {
		top = g.v.maxUID()
	}
	type iv struct{ lo, hi uint32 }
	var ivs []iv
	var txt string
	add := func(p, q uint32) {
		if p > q {
			p, q = q, p
		}
		ivs = append(ivs, iv{p, q})
	}
	unjudgedAbove := false
	switch mode % 8 {
	case 0:
		v := val(a, d1)
		txt = fmt.Sprint(v)
		add(v, v)
	case 1:
		p, q := val(a, d1), val(b, d2)
		txt = fmt.Sprintf("%d:%d", p, q)
		add(p, q)
	case 2:
		txt = "1:*"
		add(1, top)
	case 3:
		txt = "*"
		add(top, top)
	case 4, 6:
		p := val(a, 0)
		if uid && g.uidAbove && dv%5 == 4 {
			p = top + 1 + uint32(dv%3)
			unjudgedAbove = true
		}
		if mode%8 == 4 {
			txt = fmt.Sprintf("%d:*", p)
		} else {
			txt = fmt.Sprintf("*:%d", p)
		}
		add(p, top)
	case 5:
		p, q := val(a, d1), val(b, d2)
		txt = fmt.Sprintf("%d,%d", p, q)
		add(p, p)
		add(q, q)
	default:
		p, q, r := val(a, d1), val(b, d2), val(1+(x+y)%n, 0)
		txt = fmt.Sprintf("%d:%d,%d", p, q, r)
		add(p, q)
		add(r, r)
	}
	if !uid {
		// a sequence number above the message count is an error by the grammar's
		// semantics (judged by C16): keep every number inside 1..count
		for _, i := range ivs {
			if i.hi > top {
				return &c15Key{Kind: "SEQ", Segs: c15Text("1:*"), Eval: func(*c15View, *c15Row) tri { return triT }}
			}
		}
	}
	eval := func(v *c15View, r *c15Row) tri {
		x := uint32(r.Seq)
		if uid {
			x = r.UID
		}
		for _, i := range ivs {
			if x >= i.lo && x <= i.hi {
				if unjudgedAbove {
					return triU
				}
				return triT
			}
		}
		if unjudgedAbove && x == top {
			return triU
		}
		return triF
	}
	if uid {
		return &c15Key{Kind: "UID", Segs: c15Text(kw("UID") + " " + txt), Eval: eval}
	}
	return &c15Key{Kind: "SEQ", Segs: c15Text(txt), Eval: eval}
}

// ---- needles ----

func c15FirstValue(m *c15Msg, field string) string {
	if vs := m.Hdr[field]; len(vs) > 0 {
		s, _ := c15Unfold(vs[0])
		return s
	}
	return ""
}

func c15AnyValue(m *c15Msg, field string, pick int) string {
	if vs := m.Hdr[field]; len(vs) > 0 {
		s, _ := c15Unfold(vs[pick%len(vs)])
		return s
	}
	return ""
}

func c15Tokens(s string) []string {
	return strings.FieldsFunc(s, func(r rune) bool {
		return r == ' ' || r == '\t' || r == '\r' || r == '\n' || r == '<' || r == '>' || r == ',' || r == '"' || r == ';'
	})
}

func c15IsASCII(s string) bool {
	for i := 0; i < len(s); i++ {
		if s[i] < 0x20 || s[i] > 0x7e {
			return false
		}
	}
	return true
}

// needle derives a search string from a message of the view: a token of the value, a
// piece of it, the same in another letter case, or a near miss.
func (g *c15Gen) needle(value func(*c15Msg) string, pairs bool) string {
	mi, tv, variant := g.next(), g.next(), g.next()
	var src string
	if row := g.row(mi); row != nil && row.Msg != nil {
		src = value(row.Msg)
	}
	toks := c15Tokens(src)
	var ascii []string
	for _, t := range toks {
		if c15IsASCII(t) && t != "" {
			ascii = append(ascii, t)
		}
	}
	if len(ascii) == 0 {
		ascii = []string{c15BodyWord[tv%len(c15BodyWord)], c15Names[tv%len(c15Names)], c15SubjWord[tv%len(c15SubjWord)]}
	}
	tok := ascii[tv%len(ascii)]
	out := tok
	if on, ok := c15OverlapNeedle[strings.ToLower(tok)]; ok && variant%2 == 0 {
		if variant%4 == 0 {
			on = strings.ToUpper(on)
		}
		return on
	}
	switch variant % 10 {
	case 0, 1:
	case 2:
		out = strings.ToUpper(tok)
	case 3:
		out = c15CaseVar(tok, 2)
	case 4:
		out = tok + "q" // near miss
	case 5:
		if len(tok) > 1 {
			out = tok[:len(tok)-1]
		}
	case 6:
		if len(tok) > 2 {
			st := (variant / 10) % (len(tok) - 1)
			ln := 1 + (variant/100)%(len(tok)-st)
			out = tok[st : st+ln]
		}
	case 7:
		if len(tok) > 1 {
			out = "q" + tok[1:] // near miss
		}
	case 8:
		// two adjacent tokens as they stand in the value (single space between them)
		if pairs {
			i := tv % len(ascii)
			if i+1 < len(ascii) {
				if p := ascii[i] + " " + ascii[i+1]; strings.Contains(src, p) {
					out = p
				}
			}
		}
	default:
		out = strings.ToLower(tok)
	}
	if out == "" {
		out = "a"
	}
	return out
}

func c15Contains(hay []byte, needle string) bool {
	return bytes.Contains(bytes.ToLower(hay), bytes.ToLower([]byte(needle)))
}

// c15HeaderMatch: does one of the occurrences of a field contain the needle.
func c15HeaderMatch(vals []string, needle string) tri {
	res := triF
	nl := strings.ToLower(needle)
	for _, raw := range vals {
		strict, lenient := c15Unfold(raw)
		a := strings.Contains(strings.ToLower(strict), nl)
		b := strings.Contains(strings.ToLower(lenient), nl)
		if a != b {
			res = triOr(res, triU)
		} else {
			res = triOr(res, triOf(a))
		}
	}
	return res
}

// astring renders a string argument: quoted, atom (when possible) or literal.
func (g *c15Gen) astring(s string) []c15Seg {
	mode := g.next() % 6
	atomOK := s != ""
	for i := 0; i < len(s); i++ {
		c := s[i]
		if !(c >= 'a' && c <= 'z' || c >= 'A' && c <= 'Z' || c >= '0' && c <= '9' || c == '-' || c == '_' || c == '.' || c == '@' || c == '$' || c == ':') {
			atomOK = false
		}
	}
	switch {
	case mode == 1 && atomOK:
		return c15Text(s)
	case mode == 2 && g.lit && s != "":
		return []c15Seg{{IsLit: true, Lit: []byte(s)}}
	}
	q := strings.ReplaceAll(s, `\`, `\\`)
	q = strings.ReplaceAll(q, `"`, `\"`)
	return c15Text(`"` + q + `"`)
}

// c15MkDate builds one of BEFORE ON SINCE (or SENT...) for the date cy-cm-cd written as txt.
func c15MkDate(sent bool, which, cy, cm, cd int, txt string, kw func(string) string) *c15Key {
	name := []string{"BEFORE", "ON", "SINCE"}[which]
	if sent {
		name = "SENT" + name
	}
	cmp := func(yy, mm, dd int) int {
		a, b := yy*10000+mm*100+dd, cy*10000+cm*100+cd
		switch {
		case a < b:
			return -1
		case a > b:
			return 1
		}
		return 0
	}
	return &c15Key{Kind: name, Segs: c15Text(kw(name) + " " + txt), Eval: func(_ *c15View, r *c15Row) tri {
		var c int
		if sent {
			if r.Msg == nil || r.Msg.SentBad {
				return triU
			}
			c = cmp(r.Msg.SentY, r.Msg.SentM, r.Msg.SentD)
		} else {
			c = cmp(r.Y, r.M, r.D)
		}
		switch which {
		case 0:
			return triOf(c < 0)
		case 1:
			return triOf(c == 0)
		}
		return triOf(c >= 0)
	}}
}

// dateTriple builds BEFORE d, ON d and SINCE d (or the SENT forms) for one date taken
// from the view (or a day next to it).
func (g *c15Gen) dateTriple() [3]*c15Key {
	sent := g.next()%2 == 1
	y, mo, d := c15Base.Year(), int(c15Base.Month()), c15Base.Day()
	if row := g.row(g.next()); row != nil {
		if sent && row.Msg != nil && !row.Msg.SentBad {
			y, mo, d = row.Msg.SentY, row.Msg.SentM, row.Msg.SentD
		} else if !sent {
			y, mo, d = row.Y, row.M, row.D
		}
	}
	p := g.next()
	t := time.Date(y, time.Month(mo), d, 0, 0, 0, 0, time.UTC).AddDate(0, 0, []int{0, -1, 1}[p%3])
	cy, cm, cd := t.Year(), int(t.Month()), t.Day()
	txt := fmt.Sprintf("%02d-%s-%04d", cd, c15Months[cm-1], cy)
	var out [3]*c15Key
	for i := 0; i < 3; i++ {
		out[i] = c15MkDate(sent, i, cy, cm, cd, txt, func(s string) string { return s })
		if g.kinds != nil {
			g.kinds[out[i].Kind]++
		}
	}
	return out
}
