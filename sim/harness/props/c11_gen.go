package props

// C11 stream generator: every "g" action of a scenario stands for the bytes of one
// mutated command.  The bytes are a pure function of the action's integers (and of the
// scenario's knobs), they are never stored in the scenario:
//
//	A[0] base command kind      A[1] seed of the base command (arguments, encodings)
//	A[2] mutation kind          A[3] seed of the mutation
//	A[4] size parameter (nesting depth / line length class, see c11Size)
//	A[5] disconnect class (0 none)  A[6] disconnect position seed  A[7] how (0 EOF, 1 reset)
//
// Zero everywhere = "tag NOOP\r\n", so the generic shrinker (delete actions, zero and
// halve integers) always leaves a valid, smaller stream.

import (
	"bytes"
	"fmt"
	"regexp"
	"strings"
	"unicode/utf8"

	"verifharness/core"
)

// c11Knobs are the scenario switches for input classes that hit recorded defects.
type c11Knobs struct {
	lit0      bool // allow the empty literal {0}
	openquote bool // allow a quoted string left open at the end of a line
	barelf    bool // allow LF not preceded by CR
	deep      bool // allow deep *well-formed* search nesting (quadratic logging cost)
	starttls  bool // allow STARTTLS
	listutf8  bool // allow invalid UTF-8 in LIST / LSUB lines
	stackdeep bool // allow recursion depths that overflow the goroutine stack (kills the process)
	user      string
	pass      string
}

const c11SafeDepth = 150000

const (
	c11NBase = 34
	c11NMut  = 15
)

var c11Boxes = []string{"INBOX", "inbox", "box", "box/sub", "Trash", "tmp", "x y", "d\xc3\xa9j\xc3\xa0", "a&b", "INBOX/in"}

// c11Str encodes a string argument as atom / quoted / literal.
func c11Str(r *core.Rand, v string) string {
	safe := v != ""
	for i := 0; i < len(v); i++ {
		c := v[i]
		if !(c >= 'a' && c <= 'z' || c >= 'A' && c <= 'Z' || c >= '0' && c <= '9' || c == '/' || c == '.' || c == '-' || c == '_' || c == '@') {
			safe = false
		}
	}
	quotable := true
	for i := 0; i < len(v); i++ {
		if v[i] == '\r' || v[i] == '\n' || v[i] == 0 || v[i] >= 0x80 {
			quotable = false
		}
	}
	switch k := r.Intn(10); {
	case k < 6 && safe:
		return v
	case k < 9 && quotable, v == "" && quotable:
		return `"` + strings.NewReplacer(`\`, `\\`, `"`, `\"`).Replace(v) + `"`
	}
	if v == "" {
		return `""`
	}
	return fmt.Sprintf("{%d}\r\n%s", len(v), v)
}

func c11Pick(r *core.Rand, xs []string) string { return xs[r.Intn(len(xs))] }

func c11Set(r *core.Rand) string {
	return c11Pick(r, []string{"1", "1:*", "1,2", "2:1", "*", "1:3", "2", "1:2,3", "4:*", "1,3:*"})
}

func c11Message(r *core.Rand) string {
	n := 0
	switch k := r.Intn(20); {
	case k < 14:
		n = r.Intn(200)
	case k < 19:
		n = 200 + r.Intn(8000)
	default:
		n = 20000 + r.Intn(200000)
	}
	var sb strings.Builder
	fmt.Fprintf(&sb, "Date: Mon, 1 Jan 2024 10:00:%02d +0000\r\nFrom: g%d@example.com\r\nTo: you@example.com\r\nSubject: garbage %d\r\n\r\n", r.Intn(60), r.Intn(100), r.Intn(1000))
	for sb.Len() < n {
		sb.WriteString("the quick brown fox jumps over the lazy dog 0123456789\r\n")
	}
	return sb.String()
}

var c11SearchKeys = []string{"ALL", "SEEN", "UNSEEN", "DELETED", "SUBJECT garbage", `FROM "example"`, "BODY fox", "SINCE 1-Jan-2020", "BEFORE 31-Dec-2030",
	"LARGER 10", "SMALLER 100000", "NOT SEEN", "OR SEEN DELETED", "(SEEN FLAGGED)", "UID 1:*", "1:3", "HEADER Subject garbage", "KEYWORD foo", "TEXT dog", "(OR (SEEN) (NOT DELETED)) ALL"}

var c11FetchItems = []string{"FLAGS", "UID", "ALL", "FAST", "FULL", "ENVELOPE", "BODYSTRUCTURE", "BODY", "RFC822.SIZE", "INTERNALDATE", "BODY[]", "BODY.PEEK[HEADER]",
	"BODY[TEXT]<0.10>", "BODY[1]", "BODY.PEEK[HEADER.FIELDS (Subject From)]", "BODY.PEEK[HEADER.FIELDS.NOT (To)]", "RFC822", "RFC822.HEADER", "RFC822.TEXT", "BODY[1.MIME]", "BODY.PEEK[]<5.100>",
	// partials at the edges of the integer types
	"BODY.PEEK[]<9223372036854775807.5>", "BODY.PEEK[]<9223372036854775808.1>", "BODY.PEEK[]<9223372036854775809.1>", "BODY.PEEK[]<1.9223372036854775808>",
	"BODY.PEEK[]<4294967295.4294967295>", "BODY.PEEK[]<4294967296.1>", "BODY.PEEK[TEXT]<18446744073709551615.1>", "BODY.PEEK[]<2147483648.2147483648>"}

// c11Valid builds one well-formed command (with its tag and CRLF).
func c11Valid(kind int, r *core.Rand, tag string, kn c11Knobs) []byte {
	kind = abs(kind) % c11NBase
	box := func() string { return c11Str(r, c11Pick(r, c11Boxes)) }
	var s string
	switch kind {
	case 0:
		s = "NOOP"
	case 1:
		s = "CAPABILITY"
	case 2:
		s = "LOGIN " + c11Str(r, kn.user) + " " + c11Str(r, kn.pass)
	case 3:
		s = "LOGIN " + c11Str(r, c11Pick(r, []string{"nobody", kn.user, "", "user one"})) + " " + c11Str(r, "wrong")
	case 4:
		s = "SELECT " + box()
	case 5:
		s = "EXAMINE " + box()
	case 6:
		s = "CREATE " + box()
	case 7:
		s = "DELETE " + box()
	case 8:
		s = "RENAME " + box() + " " + box()
	case 9:
		s = "SUBSCRIBE " + box()
	case 10:
		s = "UNSUBSCRIBE " + box()
	case 11, 12:
		s = []string{"LIST ", "LSUB "}[kind-11] + c11Pick(r, []string{`""`, `"box/"`, "box", `"INBOX"`}) + " " + c11Pick(r, []string{`"*"`, "*", "%", `"%"`, "INBOX", "box/%", `""`, "b*x"})
	case 13:
		items := []string{"MESSAGES", "RECENT", "UIDNEXT", "UIDVALIDITY", "UNSEEN"}
		n := 1 + r.Intn(len(items))
		s = "STATUS " + box() + " (" + strings.Join(items[:n], " ") + ")"
	case 14:
		s = "APPEND " + box()
		if r.P(1, 2) {
			s += " " + c11Pick(r, []string{"()", `(\Seen)`, `(\Seen \Flagged)`, `(foo \Draft)`})
		}
		if r.P(1, 3) {
			s += ` "01-Jan-2024 10:00:00 +0000"`
		}
		m := c11Message(r)
		s += fmt.Sprintf(" {%d}\r\n%s", len(m), m)
	case 15:
		s = "CHECK"
	case 16:
		s = "CLOSE"
	case 17:
		s = "EXPUNGE"
	case 18:
		s = "UNSELECT"
	case 19:
		n := 1 + r.Intn(3)
		var ks []string
		for i := 0; i < n; i++ {
			ks = append(ks, c11Pick(r, c11SearchKeys))
		}
		s = "SEARCH "
		if r.P(1, 6) {
			s += "CHARSET UTF-8 "
		}
		s += strings.Join(ks, " ")
	case 20:
		n := 1 + r.Intn(3)
		var it []string
		for i := 0; i < n; i++ {
			it = append(it, c11Pick(r, c11FetchItems))
		}
		if n == 1 && r.P(1, 2) {
			s = "FETCH " + c11Set(r) + " " + it[0]
		} else {
			s = "FETCH " + c11Set(r) + " (" + strings.Join(it, " ") + ")"
		}
	case 21:
		s = "STORE " + c11Set(r) + " " + c11Pick(r, []string{"FLAGS", "+FLAGS", "-FLAGS", "+FLAGS.SILENT", "-FLAGS.SILENT", "FLAGS.SILENT"}) + " " +
			c11Pick(r, []string{`(\Seen)`, `(\Flagged \Answered)`, `(foo)`, `\Seen`, `()`, `(\Deleted)`})
	case 22:
		s = "COPY " + c11Set(r) + " " + box()
	case 23:
		s = "MOVE " + c11Set(r) + " " + box()
	case 24:
		s = "UID " + c11Pick(r, []string{"FETCH 1:* (FLAGS)", "FETCH 1 BODY.PEEK[]", "SEARCH ALL", "SEARCH UID 1:* NOT DELETED", `STORE 1:* +FLAGS (\Seen)`, "COPY 1 box", "MOVE 1 tmp", "EXPUNGE 1:*", "FETCH 4294967295 UID"})
	case 25:
		s = "ID " + c11Pick(r, []string{"NIL", `("name" "c11")`, `("name" "c11" "version" "1.0" "os" NIL)`})
	case 26:
		s = "IDLE"
	case 27:
		if r.P(1, 4) {
			s = "LOGOUT"
		} else {
			s = "NOOP"
		}
	case 28:
		if kn.starttls {
			s = "STARTTLS"
		} else {
			s = "CAPABILITY"
		}
	case 29:
		if r.P(1, 2) {
			return []byte("DONE\r\n")
		}
		s = "CHECK"
	case 33:
		// a mailbox name whose modified UTF-7 decodes to CR LF followed by text shaped like
		// a response: whatever the server does with the decoded name, it must not reach the
		// wire as lines of their own
		inj := c11Pick(r, []string{tag + " OK [READ-WRITE] SELECT completed", "* 9 EXISTS", tag + " BAD injected", "* BYE injected", "x"})
		name := c11Pick(r, []string{"nope", "INBOX", "keep/x"}) + "&AA0ACg-" + inj
		switch r.Intn(7) {
		case 0, 1:
			s = "SELECT \"" + name + "\""
		case 2:
			s = "EXAMINE \"" + name + "\""
		case 3:
			s = "STATUS \"" + name + "\" (MESSAGES)"
		case 4:
			s = "DELETE \"" + name + "\""
		case 5:
			s = c11Pick(r, []string{"SUBSCRIBE", "UNSUBSCRIBE"}) + " \"" + name + "\""
		default:
			s = "RENAME \"" + name + "\" \"other\""
		}
	case 32:
		// a mailbox that holds messages
		s = c11Pick(r, []string{"SELECT", "SELECT", "EXAMINE"}) + " " + c11Pick(r, []string{"INBOX", "inbox"}) // (not the bystander's mailbox: that one must stay as it is)
	case 30, 31:
		// numbers at the edges of the integer types where a message set, a partial or a
		// size is expected (all syntactically numbers)
		edge := func() string {
			return c11Pick(r, []string{"2147483647", "2147483648", "4294967295", "4294967296", "9223372036854775807", "9223372036854775808", "9223372036854775809", "18446744073709551615", "18446744073709551616"})
		}
		switch r.Intn(5) {
		case 0:
			s = "FETCH 1:* (BODY.PEEK[]<" + edge() + "." + c11Pick(r, []string{"1", "100", edge()}) + ">)"
		case 1:
			s = "FETCH 1 (BODY.PEEK[TEXT]<" + c11Pick(r, []string{"0", "1", edge()}) + "." + edge() + ">)"
		case 2:
			s = "UID FETCH 1:" + edge() + " (FLAGS)"
		case 3:
			s = "SEARCH " + c11Pick(r, []string{"LARGER", "SMALLER", "UID", ""}) + " " + edge()
		default:
			s = "FETCH " + edge() + " (FLAGS)"
		}
	}
	return []byte(tag + " " + s + "\r\n")
}

// c11Size maps the size integer to a nesting depth / length.  class 0..99:
// most values are small, a few are very large.
func c11Size(v int, small, mid, big, huge int) int {
	v = abs(v)
	c := v % 100
	x := v / 100
	switch {
	case c < 70:
		return 1 + x%small
	case c < 90:
		return small + x%mid
	case c < 98:
		return mid + x%big
	}
	return big + x%huge
}

func c11Digits(r *core.Rand, kn c11Knobs) string {
	switch r.Intn(8) {
	case 0:
		return "4294967295"
	case 1:
		return "4294967296"
	case 2:
		return "9223372036854775807"
	case 3:
		return "9223372036854775808"
	case 4:
		return "18446744073709551615"
	case 5:
		return "31457280" // the literal cap
	}
	n := 11 + r.Intn(30)
	b := make([]byte, n)
	for i := range b {
		b[i] = byte('0' + r.Intn(10))
	}
	if b[0] == '0' {
		b[0] = '7'
	}
	// keep clear of values that wrap to a small number modulo 2^64 by accident: a
	// 20+ digit random number lands in (0, 30 MiB) with probability 2^-39
	return string(b)
}

var c11Junk = []byte{0x00, 0x80, 0xff, 0xc3, 0x01, 0x1b, 0x7f, 0x08, 0xfe, 0x0b, 0x0c, 0x16, '\t'}

// c11Nest builds a deeply nested (or very long) command.
func c11Nest(form int, d int, tag string, kn c11Knobs) []byte {
	form = abs(form) % 12
	quad := form <= 3 // well-formed search nests: logging them costs O(d^2)
	if quad && !kn.deep && d > 300 {
		d = 300
	}
	if quad && kn.deep && d > 40000 {
		d = 40000
	}
	if recursive := form <= 5 || form == 7 || form == 11; recursive && !kn.stackdeep && d > c11SafeDepth {
		// recorded defect: the search-key parser recurses once per nesting level
		// without a bound; around 10^6 levels the goroutine stack passes Go's 1 GB
		// limit and the runtime ends the whole process
		d = c11SafeDepth
	}
	if form == 10 && d > 100000 {
		d = 100000 // one FETCH response per element when a mailbox is selected
	}
	var sb strings.Builder
	sb.WriteString(tag)
	switch form {
	case 0:
		sb.WriteString(" SEARCH " + strings.Repeat("(", d) + "ALL" + strings.Repeat(")", d))
	case 1:
		sb.WriteString(" SEARCH " + strings.Repeat("NOT ", d) + "SEEN")
	case 2:
		sb.WriteString(" SEARCH " + strings.Repeat("OR SEEN ", d) + "SEEN")
	case 3:
		sb.WriteString(" SEARCH " + strings.Repeat("(NOT ", d) + "SEEN" + strings.Repeat(")", d))
	case 4:
		sb.WriteString(" SEARCH " + strings.Repeat("(", d)) // never closed
	case 5:
		sb.WriteString(" SEARCH " + strings.Repeat("NOT ", d)) // no operand
	case 6:
		sb.WriteString(" FETCH 1 BODY[" + strings.Repeat("1.", d) + "TEXT]")
	case 7:
		sb.WriteString(" FETCH 1 " + strings.Repeat("(", d))
	case 8:
		sb.WriteString(" ID (" + strings.Repeat(`"k" "v" `, d) + `"k" "v")`)
	case 9:
		sb.WriteString(" STORE 1 +FLAGS (" + strings.Repeat(`\Seen `, d) + "foo)")
	case 10:
		sb.WriteString(" FETCH " + strings.Repeat("1,", d) + "1 FLAGS")
	case 11:
		sb.WriteString(" SEARCH " + strings.Repeat("OR (", d) + "ALL") // unbalanced mixture
	}
	sb.WriteString("\r\n")
	return []byte(sb.String())
}

// c11Mutate applies one mutation to a well-formed command.
func c11Mutate(b []byte, mut int, r *core.Rand, size int, tag string, kn c11Knobs) []byte {
	mut = abs(mut) % c11NMut
	body := func() int { // length without the final CRLF
		if bytes.HasSuffix(b, []byte("\r\n")) {
			return len(b) - 2
		}
		return len(b)
	}
	switch mut {
	case 0:
		return b
	case 1: // truncate anywhere
		b = b[:r.Intn(len(b)+1)]
		if r.P(1, 2) {
			b = append(append([]byte(nil), b...), '\r', '\n')
		}
		return b
	case 2: // splice with another command
		o := c11Valid(r.Intn(c11NBase), r, tag+"s", kn)
		return append(append([]byte(nil), b[:r.Intn(len(b)+1)]...), o[r.Intn(len(o)):]...)
	case 3: // oversize numbers
		var runs [][2]int
		for i := 0; i < len(b); {
			if b[i] >= '0' && b[i] <= '9' {
				j := i
				for j < len(b) && b[j] >= '0' && b[j] <= '9' {
					j++
				}
				if i > len(tag) {
					runs = append(runs, [2]int{i, j})
				}
				i = j
			} else {
				i++
			}
		}
		if len(runs) == 0 {
			n := body()
			return append(append(append([]byte(nil), b[:n]...), (" "+c11Digits(r, kn))...), b[n:]...)
		}
		x := runs[r.Intn(len(runs))]
		return append(append(append([]byte(nil), b[:x[0]]...), c11Digits(r, kn)...), b[x[1]:]...)
	case 4: // nesting depth
		return c11Nest(r.Intn(12), c11Size(size, 64, 5000, 100000, 900000), tag, kn)
	case 5: // quoted string games
		n := body()
		pos := len(tag) + r.Intn(n-len(tag)+1)
		ins := c11Pick(r, []string{`"`, `"abc`, `\"`, `"\`, `"a\x`, `""`, `"\\`})
		return append(append(append([]byte(nil), b[:pos]...), ins...), b[pos:]...)
	case 6: // literal games
		var lit string
		data := strings.Repeat("z", 1+r.Intn(40))
		switch r.Intn(14) {
		case 0:
			if kn.lit0 {
				lit = "{0}\r\n"
			} else {
				lit = "{1}\r\nz"
			}
		case 1:
			lit = "{" + c11Digits(r, kn) + "}\r\n" + data
		case 2:
			lit = "{-1}\r\n" + data
		case 3:
			lit = fmt.Sprintf("{%d+}\r\n%s", len(data), data)
		case 4:
			lit = fmt.Sprintf("{%d\r\n%s", len(data), data)
		case 5:
			lit = fmt.Sprintf("{%d}%s", len(data), data)
		case 6:
			lit = fmt.Sprintf("{%d}\rX%s", len(data), data)
		case 7: // announces more than follows: the next lines are swallowed
			lit = fmt.Sprintf("{%d}\r\n%s", len(data)+1+r.Intn(300), data)
		case 8: // announces less
			lit = fmt.Sprintf("{%d}\r\n%s", 1+r.Intn(len(data)), data)
		case 9: // large but legal
			n := 100000 + r.Intn(1900000)
			lit = fmt.Sprintf("{%d}\r\n%s", n, strings.Repeat("y", n))
		case 10: // just under the cap, nothing follows
			lit = fmt.Sprintf("{%d}\r\n", 30*1024*1024-1-r.Intn(1000))
		case 11: // at / over the cap
			lit = fmt.Sprintf("{%d}\r\n%s", 30*1024*1024+r.Intn(2), data)
		case 12:
			lit = "{}\r\n" + data
		case 13:
			lit = fmt.Sprintf("{%d}}\r\n%s", len(data), data)
		}
		switch r.Intn(6) {
		case 0:
			return []byte(tag + " LOGIN " + lit + " pass\r\n")
		case 1:
			return []byte(tag + " APPEND INBOX " + lit + "\r\n")
		case 2:
			return []byte(tag + " SELECT " + lit + "\r\n")
		case 3:
			return []byte(tag + " SEARCH SUBJECT " + lit + " ALL\r\n")
		case 4:
			return []byte(tag + " LOGIN user " + lit + "\r\n")
		}
		return []byte(tag + " CREATE " + lit + "\r\n")
	case 7: // NUL / 8-bit / control bytes
		out := append([]byte(nil), b...)
		for k := 1 + r.Intn(4); k > 0; k-- {
			pos := r.Intn(body() + 1)
			j := c11Junk[r.Intn(len(c11Junk))]
			if r.P(1, 2) && pos < len(out)-2 {
				out[pos] = j
			} else {
				out = append(out[:pos], append([]byte{j}, out[pos:]...)...)
			}
		}
		return out
	case 8: // TLS-looking input
		hdr := [][]byte{{0x16, 0x03, 0x01}, {0x16, 0x03, 0x03}, {0x16, 0x03, 0x04}, {0x16, 0x03, 0x02}, {0x16, 0x00, 0x00}}[r.Intn(5)]
		out := append([]byte(nil), hdr...)
		n := r.Intn(300)
		for i := 0; i < n; i++ {
			c := byte(r.Intn(256))
			if c == '\n' || c == '"' {
				c = 0x01
			}
			out = append(out, c)
		}
		switch r.Intn(4) {
		case 0: // in the middle of a line: an ordinary error
			return append(append([]byte(tag+" NOOP "), out...), '\r', '\n')
		case 1: // no line end: the following line completes it
			return out
		}
		return append(out, '\r', '\n')
	case 9: // very long lines
		n := c11Size(size, 4096, 65536, 500000, 3500000)
		pad := strings.Repeat(string(rune('a'+r.Intn(26))), n)
		switch r.Intn(8) {
		case 0:
			return []byte(tag + " LOGIN " + pad + " pass\r\n")
		case 1:
			return []byte(tag + ` LOGIN "` + pad + `" pass` + "\r\n")
		case 2:
			return []byte(tag + pad + " NOOP\r\n")
		case 3:
			return []byte(tag + " " + pad + "\r\n")
		case 4:
			return []byte(tag + " SEARCH SUBJECT " + pad + "\r\n")
		case 5:
			return []byte(tag + " NOOP" + strings.Repeat(" ", n) + "\r\n")
		case 6:
			return []byte(tag + " CREATE " + pad) // no line end
		}
		return []byte(tag + " FETCH 1 (" + strings.Repeat("FLAGS ", n/6) + "UID)\r\n")
	case 10: // line end games
		n := body()
		end := c11Pick(r, []string{"\n", "\r", "\n\r", "\r\r\n", "\r\n\r\n", "", " \r\n", "\r\n\n"})
		return append(append([]byte(nil), b[:n]...), end...)
	case 11: // random bytes
		n := 1 + r.Intn(300)
		out := make([]byte, n)
		for i := range out {
			out[i] = byte(r.Intn(256))
		}
		if r.P(3, 4) {
			out = append(out, '\r', '\n')
		}
		return out
	case 12: // delete / duplicate / overwrite a range
		n := len(b)
		i := r.Intn(n)
		j := i + r.Intn(n-i+1)
		switch r.Intn(3) {
		case 0:
			return append(append([]byte(nil), b[:i]...), b[j:]...)
		case 1:
			return append(append(append([]byte(nil), b[:j]...), b[i:j]...), b[j:]...)
		}
		out := append([]byte(nil), b...)
		for k := i; k < j && k < n-2; k++ {
			out[k] = c11Pick(r, []string{"(", ")", "[", "]", "{", "}", " ", "*", "%", "\\", "<", ">", ".", ",", ":"})[0]
		}
		return out
	case 13: // tag games
		rest := b[len(tag):]
		t := c11Pick(r, []string{"", "*", "+", "+x", "a+b", "(", ")", "{1}", "%", "\\", "]", "a b", " ", "\x80\xff", "1", "."})
		return append([]byte(t), rest...)
	case 14: // a keyword in place of an argument, an argument in place of a keyword
		words := bytes.Split(b[:body()], []byte(" "))
		if len(words) > 1 {
			i := 1 + r.Intn(len(words)-1)
			words[i] = []byte(c11Pick(r, []string{"NIL", "()", "(", "BODY[", "BODY[]<", "<1.2>", "1:", ":*", "*:*", "1,,2", "\\", "\\Seen", "CHARSET", "UID", "{", "[", "]", "%", "~"}))
		}
		return append(bytes.Join(words, []byte(" ")), '\r', '\n')
	}
	return b
}

// c11Build returns the bytes of one "g" action.
func c11Build(a core.Action, step int, kn c11Knobs) []byte {
	tag := fmt.Sprintf("g%d", step)
	rb := core.NewRand(core.Mix(uint64(a.Arg(1)), 0xC11))
	b := c11Valid(a.Arg(0), rb, tag, kn)
	if m := abs(a.Arg(2)) % c11NMut; m != 0 {
		rm := core.NewRand(core.Mix(uint64(a.Arg(3)), 0xC11B))
		b = c11Mutate(b, m, rm, a.Arg(4), tag, kn)
	}
	if !kn.lit0 {
		b = c11NoZeroLiteral(b)
	}
	if !kn.listutf8 && c11ListRe.Match(b) && !utf8.Valid(b) {
		// recorded defect: LIST / LSUB arguments that are not UTF-8 reach
		// regexp.MustCompile and panic
		b = append([]byte(nil), b...)
		for i, c := range b {
			if c >= 0x80 {
				b[i] = 'u'
			}
		}
	}
	return b
}

var c11ListRe = regexp.MustCompile(`(?i)(LIST|LSUB)`)

// c11NoZeroLiteral rewrites "{0" (any number of zeros) followed by a non-digit to "{1".
func c11NoZeroLiteral(b []byte) []byte {
	var out []byte
	for i := 0; i < len(b); i++ {
		if b[i] != '{' {
			continue
		}
		j := i + 1
		for j < len(b) && b[j] == '0' {
			j++
		}
		if j > i+1 && (j >= len(b) || b[j] < '0' || b[j] > '9') {
			if out == nil {
				out = append([]byte(nil), b...)
			}
			out[j-1] = '1'
		}
	}
	if out != nil {
		return out
	}
	return b
}

// c11CutPos chooses where the disconnect happens inside the bytes of an action.
func c11CutPos(b []byte, class, seed int) int {
	seed = abs(seed)
	any := func() int { return seed % (len(b) + 1) }
	switch abs(class) % 8 {
	case 1:
		return any()
	case 2: // right after "{n}\r\n"
		if i := bytes.Index(b, []byte("}\r\n")); i >= 0 {
			return i + 3
		}
	case 3: // inside the literal
		if i := bytes.Index(b, []byte("}\r\n")); i >= 0 && i+3 < len(b) {
			return i + 3 + 1 + seed%(len(b)-i-3)
		}
	case 4: // inside a quoted string
		if i := bytes.IndexByte(b, '"'); i >= 0 {
			j := bytes.IndexByte(b[i+1:], '"')
			if j < 0 {
				j = len(b) - i - 1
			}
			return i + 1 + seed%(j+1)
		}
	case 5: // between CR and LF
		if i := bytes.Index(b, []byte("\r\n")); i >= 0 {
			return i + 1
		}
	case 6: // inside the first keyword
		if i := bytes.IndexByte(b, ' '); i >= 0 && i+2 < len(b) {
			return i + 1 + seed%3
		}
	case 7: // after the complete action
		return len(b)
	}
	return any()
}
