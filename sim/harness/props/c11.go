package props

// C11 — arbitrary client bytes never crash, hang or bloat the server.
//
// One "garbage" connection at a time receives a byte stream built from mutated
// commands (c11_gen.go), delivered on the raw simulated transport with scenario-chosen
// fragmentation, client-side pacing and disconnect faults.  A well-behaved session of
// the same user and one of another user run alongside.  The judge is a client-side
// matcher that only uses what a client can know: the bytes it sent and the responses
// it got (continuation requests tell it which literals the server accepted).
//
// Oracles (names as they appear in violations):
//   panic            the server's panic handler was called
//   hang / bloat     quiescence not reached within the real-time watchdog, or the heap
//                    exploding while waiting for it (process exits with status 3; see
//                    c11_watch.go)
//   no-completion    a complete line got neither a completion nor a continuation request
//   quoted-spans-lines  as above, and a lone '"' sent afterwards released the answer:
//                    the server was reading the line end as part of a quoted string
//   extra-completion more than one completion for one line / unsolicited completion
//   completion-tag   the completion does not carry the line's tag
//   response-syntax  the server sent a line that is not an IMAP response
//   continuation     a continuation request nothing asked for, or for a literal over
//                    the cap
//   unusable         a fresh NOOP after the garbage is not answered OK
//   close-*          the server closed the connection without one of the reasons the
//                    property allows
//   bystander        a well-behaved session was disturbed
//   goroutine-leak   goroutines left after the garbage connection ended
//   memory / alloc-total  heap after GC, or bytes allocated, out of proportion to the
//                    bytes received

import (
	"bytes"
	"fmt"
	"hash/fnv"
	"os"
	"regexp"
	"runtime"
	"strconv"
	"strings"

	"verifharness/core"
	"verifharness/gen"
	"verifharness/simnet"
	"verifharness/wire"
	"verifharness/world"
)

type C11 struct{}

func (C11) ID() string { return "C11" }

const c11LiteralCap = 30 * 1024 * 1024

func c11KnobsOf(sc *core.Scenario) c11Knobs {
	return c11Knobs{
		lit0: sc.C("lit0") == 1, openquote: sc.C("openquote") == 1, barelf: sc.C("barelf") == 1,
		deep: sc.C("deep") == 1, starttls: sc.C("starttls") == 1, listutf8: sc.C("listutf8") == 1, stackdeep: sc.C("stackdeep") == 1,
		user: "user0", pass: "pass0",
	}
}

func (C11) Generate(r *core.Rand, tier string, idx int) *core.Scenario {
	sc := &core.Scenario{Property: "C11", Cfg: map[string]int{}}
	c11CurIdx = idx
	sc.Cfg["frag"] = r.Intn(5)
	if r.P(1, 2) {
		sc.Cfg["burst"] = 1
	}
	if r.P(1, 4) {
		sc.Cfg["chunk"] = 1
	}
	sc.Cfg["nopar"] = r.Intn(2)
	// input classes that hit recorded defects: each in a small share of the runs
	if r.P(1, 2) {
		sc.Cfg["pipeend"] = 1 // bursts may continue behind a LOGOUT or the error that ends the session
	}
	// input classes whose defects were repaired: each in half of the runs
	for _, k := range []string{"lit0", "openquote", "barelf", "emptytag", "listutf8", "starttls", "firstbad"} {
		if r.P(1, 2) {
			sc.Cfg[k] = 1
		}
	}
	if r.P(1, 40) {
		sc.Cfg["deep"] = 1
	}
	big := r.P(1, 50) // a run that sends tens of MiB: what is kept per byte received shows
	if big {
		sc.Cfg["big"] = 1
	}
	// the disconnect inside a quoted string makes the server spin: the run ends with
	// the watchdog killing the worker, so it is confined to a known, thin set of runs
	fatal := idx%251 == 250 && os.Getenv("VERIF_C11_NOFATAL") == ""
	if fatal {
		sc.Cfg["eofquote"] = 1
		sc.Cfg["wd"] = 8
	}
	// nesting deep enough to overflow the goroutine stack ends the process (no record
	// can be written afterwards): confined to another thin set of runs; the scenario
	// is written to the replay directory before the bytes are sent
	crash := idx%251 == 125 && os.Getenv("VERIF_C11_NOFATAL") == ""
	if crash {
		sc.Cfg["stackdeep"] = 1
	}
	n := r.Range(8, 40)
	fresh := true
	for i := 0; i < n; i++ {
		switch k := r.Intn(40); {
		case k == 0 || k == 1:
			sc.Actions = append(sc.Actions, core.Action{K: "by"})
			continue
		case k == 2 || k == 3 || k == 4:
			sc.Actions = append(sc.Actions, core.Action{K: "probe"})
			continue
		case k == 5:
			sc.Actions = append(sc.Actions, core.Action{K: "close", A: []int{r.Intn(2)}})
			fresh = true
			continue
		}
		if fresh {
			fresh = false
			if r.P(2, 3) { // authenticate first (well-formed), so that the garbage also meets the later states
				sc.Actions = append(sc.Actions, core.Action{K: "g", A: []int{2, r.Intn(1000), 0, 0, 0, 0, 0, 0}})
				if r.P(2, 3) {
					sel := 4 // SELECT of some name
					if r.P(1, 2) {
						sel = 32 // SELECT / EXAMINE of a mailbox that holds messages
					}
					sc.Actions = append(sc.Actions, core.Action{K: "g", A: []int{sel, r.Intn(4) * 2, 0, 0, 0, 0, 0, 0}})
				}
			}
		}
		a := core.Action{K: "g", A: make([]int, 8)}
		a.A[0] = r.Intn(c11NBase)
		a.A[1] = r.Intn(1 << 20)
		if !r.P(1, 4) {
			a.A[2] = 1 + r.Intn(c11NMut-1)
		}
		a.A[3] = r.Intn(1 << 20)
		a.A[4] = r.Intn(1 << 24)
		if big && r.P(1, 3) {
			a.A[2] = 9                      // very long line
			a.A[4] = 98 + 100*r.Intn(1<<16) // of the largest size class
		}
		if r.P(1, 12) || (fatal && i == n-1) {
			a.A[5] = 1 + r.Intn(7)
			if fatal && i == n-1 {
				a.A[0], a.A[2], a.A[5] = 2, 0, 4 // LOGIN "user0" "pass0" cut inside a quoted string
				a.A[1] = c11QuotedLoginSeed
			}
			a.A[6] = r.Intn(1 << 20)
			a.A[7] = r.Intn(2)
			fresh = true
		}
		sc.Actions = append(sc.Actions, a)
	}
	if crash {
		// "tag SEARCH OR (OR (OR ( ..." about 10^6 levels deep
		sc.Actions = append(sc.Actions, core.Action{K: "g", A: []int{0, 0, 4, c11NestSeed3, 99 + 100*899000, 0, 0, 0}})
	}
	return sc
}

// c11NestSeed3 is a mutation seed for which the nesting mutation picks form 11 ("OR (" repeated, never closed).
var c11NestSeed3 = func() int {
	for s := 0; ; s++ {
		if core.NewRand(core.Mix(uint64(s), 0xC11B)).Intn(12) == 11 {
			return s
		}
	}
}()

// c11QuotedLoginSeed is a base seed for which LOGIN's user name is sent quoted.
var c11QuotedLoginSeed = func() int {
	for s := 0; ; s++ {
		b := c11Valid(2, core.NewRand(core.Mix(uint64(s), 0xC11)), "g", c11Knobs{user: "user0", pass: "pass0"})
		if bytes.HasPrefix(b, []byte(`g LOGIN "user0" `)) {
			return s
		}
	}
}()

func (C11) Execute(sc *core.Scenario, keepLog bool) *core.Result {
	wd := c11StartWatch(sc)
	defer wd.Stop()
	cfg := world.Config{
		Users:              []world.UserCfg{{Names: []string{"user0"}, Password: "pass0"}, {Names: []string{"user1"}, Password: "pass1"}},
		DisableParallelism: sc.C("nopar") == 1,
	}
	return RunInBubble("C11", sc, keepLog, cfg, func(e *Env) {
		x := &c11X{e: e, sc: sc, kn: c11KnobsOf(sc), wd: wd}
		defer x.teardown()
		x.run()
	})
}

// ---------------------------------------------------------------- the run

type c11X struct {
	e  *Env
	sc *core.Scenario
	kn c11Knobs
	wd *c11Watch

	by      [2]*world.Sess // long-lived bystanders: same user, other user
	byBox   [2]string
	byMsgs  [2][]*gen.Message
	g       *c11G
	all     []*c11G
	nG      int
	sent    int64 // bytes sent on garbage connections
	heap0   uint64
	allocG  uint64 // bytes allocated (process-wide) while garbage connections were being served
	lits    int    // literals the server accepted (each may allocate up to the cap at once)
	gorBase int
	gorSet  map[string]string
	recvd   int64 // bytes received on garbage connections
	lines   int
	comps   int
	rounds  int
}

var c11LiveTrace = os.Getenv("VERIF_C11_TRACE") != ""

func (x *c11X) logf(format string, args ...any) {
	if x.e.W.Cfg.Trace {
		x.e.W.Tracef(format, args...)
		if c11LiveTrace { // a run that hangs never returns its log
			fmt.Fprintf(os.Stderr, format+"\n", args...)
		}
	}
}

// burst: pipelined delivery.  (While the defects that let a line end be swallowed were
// open - open quoted string, bare LF - runs with those input classes stayed in lock step
// to tell the defects apart; both are repaired.)
func (x *c11X) burst() bool {
	return x.sc.C("burst") == 1
}

func (x *c11X) quiesce(phase string) {
	x.wd.Phase(phase)
	x.e.W.Quiesce()
	x.wd.Phase("")
}

func (x *c11X) run() {
	e := x.e
	if !x.setup() {
		return
	}
	x.quiesce("baseline")
	x.heap0, _ = c11Mem(true)
	for i, a := range x.sc.Actions {
		e.Step = i + 1
		_, t0 := c11Mem(false)
		switch a.K {
		case "g":
			x.garbage(a, i+1)
		case "raw":
			// hand-written reproducers (regress files): X holds the bytes with Go
			// escapes, sent as they are; A[0] = 1: then EOF, 2: then reset.  Never
			// generated.
			x.raw(a)
		case "by":
			x.bystanders()
			_, t0 = c11Mem(false)
		case "probe":
			if x.g != nil && !x.g.dead {
				x.g.probe()
			}
		case "close":
			if x.g != nil && !x.g.dead {
				x.g.probe()
				if !e.Failed() {
					x.g.disconnect(a.Arg(0)%2, "close")
				}
			}
		}
		_, t1 := c11Mem(false)
		x.allocG += t1 - t0
		e.CheckPanics()
		if e.Failed() {
			return
		}
	}
	e.Step = len(x.sc.Actions) + 1
	_, t0 := c11Mem(false)
	if x.g != nil && !x.g.dead {
		x.g.flushBurst()
		if !e.Failed() {
			x.g.probe()
		}
		_, t1 := c11Mem(false)
		x.allocG += t1 - t0
		if !e.Failed() {
			x.memCheck("after the garbage, connection open")
		}
		if !e.Failed() && !x.g.dead {
			x.g.disconnect(0, "final")
		}
	}
	if e.Failed() {
		return
	}
	x.memCheck("after the last disconnect")
	x.bystanders()
	e.CheckPanics()
	e.St.Nontrivial = x.lines >= 5 && x.comps >= 1 && x.rounds >= 1
}

// c11Goroutines lists the live goroutines of the synctest bubble (id -> header and
// creator).  runtime.NumGoroutine is not used: a goroutine that has just ended leaves
// the bubble's books (so synctest.Wait returns) before it reaches the free list that
// NumGoroutine subtracts.
func c11Goroutines() map[string]string {
	buf := make([]byte, 1<<18)
	for {
		n := runtime.Stack(buf, true)
		if n < len(buf) {
			buf = buf[:n]
			break
		}
		buf = make([]byte, 2*len(buf))
	}
	out := map[string]string{}
	for _, blk := range strings.Split(string(buf), "\n\n") {
		hdr, _, _ := strings.Cut(blk, "\n")
		if !strings.HasPrefix(hdr, "goroutine ") || !strings.Contains(hdr, "synctest bubble") {
			continue
		}
		id := strings.Fields(hdr)[1]
		desc := hdr
		if i := strings.LastIndex(blk, "created by "); i >= 0 {
			c, _, _ := strings.Cut(blk[i:], "\n")
			desc += " " + c
		}
		lines := strings.Split(blk, "\n")
		if len(lines) > 1 {
			desc += " at " + strings.TrimSpace(lines[1])
		}
		out[id] = desc
	}
	return out
}

func c11Mem(gc bool) (heap, total uint64) {
	if gc {
		runtime.GC()
	}
	var m runtime.MemStats
	runtime.ReadMemStats(&m)
	return m.HeapAlloc, m.TotalAlloc
}

// failMeasured records a violation whose detail holds measured quantities: they stay
// out of the trace hash (the same run measures slightly different numbers each time).
func (x *c11X) failMeasured(oracle, sig, format string, args ...any) {
	e := x.e
	if e.V != nil {
		return
	}
	e.V = &core.Violation{Property: e.Prop, Oracle: oracle, Detail: fmt.Sprintf(format, args...), Sig: oracle + ": " + sig, Step: e.Step}
	e.Tr.Event("VIOLATION", oracle, sig)
}

func (x *c11X) memCheck(where string) {
	x.quiesce("memcheck")
	heap, _ := c11Mem(true)
	x.e.St.Checks++
	const slack = 64 << 20
	if heap > x.heap0+8*uint64(x.sent)+slack {
		x.failMeasured("memory", "heap after GC out of proportion", "%s: HeapAlloc after GC %d MiB, baseline %d MiB, %d bytes sent (bound: baseline + 8 x sent + 64 MiB)",
			where, heap>>20, x.heap0>>20, x.sent)
		return
	}
	if bound := 1024*uint64(x.sent) + 256*uint64(x.recvd) + slack + uint64(x.lits)*(32<<20); x.allocG > bound {
		x.failMeasured("alloc-total", "allocation out of proportion", "%s: %d MiB allocated while serving the garbage connections for %d bytes sent, %d bytes answered and %d accepted literals (bound: 1024 x sent + 256 x answered + 64 MiB + 32 MiB per accepted literal)",
			where, x.allocG>>20, x.sent, x.recvd, x.lits)
	}
}

func (x *c11X) setup() bool {
	e := x.e
	x.byBox = [2]string{"keep", "INBOX"}
	for u := 0; u < 2; u++ {
		s, err := e.W.Connect()
		if err != nil {
			e.Infra = err
			return false
		}
		x.by[u] = s
		uc := e.W.Users[u].Cfg
		if r := s.Cmd("LOGIN %s %s", uc.Names[0], uc.Password); !r.OK() {
			e.Infra = fmt.Errorf("bystander LOGIN: %s %s", r.Status, r.Text)
			return false
		}
		if u == 0 {
			if r := s.Cmd("CREATE keep"); !r.OK() {
				e.Infra = fmt.Errorf("bystander CREATE: %s %s", r.Status, r.Text)
				return false
			}
		}
		boxes := []string{x.byBox[u]}
		if u == 0 {
			boxes = append(boxes, "INBOX", "INBOX")
		}
		for k, box := range append(boxes, x.byBox[u]) {
			m := e.NewMessage(u*10+k, gen.Opts{MaxDepth: 1})
			if r := s.Do(wire.WithLiteral("APPEND "+box+" ", m.Bytes, "")); !r.OK() {
				e.Infra = fmt.Errorf("bystander APPEND: %s %s", r.Status, r.Text)
				return false
			}
			if box == x.byBox[u] {
				x.byMsgs[u] = append(x.byMsgs[u], m)
			}
		}
		s.M.Reset(x.byBox[u], false)
		if r := s.Cmd("SELECT %s", x.byBox[u]); !r.OK() {
			e.Infra = fmt.Errorf("bystander SELECT: %s %s", r.Status, r.Text)
			return false
		}
	}
	return true
}

// bystanders: the long-lived sessions are still served and see their mailbox
// unchanged; a new session of each user completes LOGIN / SELECT / FETCH.
func (x *c11X) bystanders() {
	e := x.e
	if e.Failed() {
		return
	}
	if x.g != nil {
		x.g.flushBurst()
		if e.Failed() {
			return
		}
	}
	for u := 0; u < 2; u++ {
		x.wd.Phase("bystander")
		old := x.by[u]
		if !x.byRound(old, u, "long-lived") {
			return
		}
		s, err := e.W.Connect()
		if err != nil {
			e.Fail("bystander", "user %d: a new connection was not greeted: %v", u, err)
			return
		}
		uc := e.W.Users[u].Cfg
		if r := s.Cmd("LOGIN %s %s", uc.Names[0], uc.Password); !r.OK() {
			e.Fail("bystander", "user %d: LOGIN on a new connection: %q %s (%v)", u, r.Status, r.Text, r.Err)
			return
		}
		s.M.Reset(x.byBox[u], false)
		if r := s.Cmd("SELECT %s", x.byBox[u]); !r.OK() {
			e.Fail("bystander", "user %d: SELECT on a new connection: %q %s (%v)", u, r.Status, r.Text, r.Err)
			return
		}
		if !x.byRound(s, u, "new") {
			return
		}
		r := s.Cmd("LOGOUT")
		s.C.Dead = true
		if !r.OK() {
			e.Fail("bystander", "user %d: LOGOUT: %q %s (%v)", u, r.Status, r.Text, r.Err)
			return
		}
	}
	x.wd.Phase("")
	x.rounds++
	e.Tr.Event("bystanders ok")
}

func (x *c11X) byRound(s *world.Sess, u int, what string) bool {
	e := x.e
	e.St.Checks++
	if r := s.Cmd("NOOP"); !r.OK() {
		e.Fail("bystander", "user %d (%s session): NOOP: %q %s (%v)", u, what, r.Status, r.Text, r.Err)
		return false
	}
	r := s.Cmd("FETCH 1:* (UID BODY.PEEK[])")
	if !r.OK() {
		e.Fail("bystander", "user %d (%s session): FETCH: %q %s (%v)", u, what, r.Status, r.Text, r.Err)
		return false
	}
	n := 0
	for _, l := range r.Lines {
		if _, kw, ok := l.Num(); !ok || kw != "FETCH" {
			continue
		}
		fd, err := wire.ParseFetch(l)
		if err != nil {
			e.Fail("bystander", "user %d (%s session): %v", u, what, err)
			return false
		}
		body, _, _ := gen.StripID([]byte(fd.Items["BODY[]"].Str))
		k := int(fd.Seq) - 1
		if k < 0 || k >= len(x.byMsgs[u]) || !bytes.Equal(body, x.byMsgs[u][k].Bytes) {
			e.Fail("bystander", "user %d (%s session): message %d of %q differs from what was appended", u, what, fd.Seq, x.byBox[u])
			return false
		}
		n++
	}
	if n != len(x.byMsgs[u]) {
		e.Fail("bystander", "user %d (%s session): FETCH 1:* returned %d messages, mailbox %q holds %d", u, what, n, x.byBox[u], len(x.byMsgs[u]))
		return false
	}
	if len(s.Viol) > 0 {
		e.Fail("bystander", "user %d (%s session): %s", u, what, s.Viol[0])
		return false
	}
	return true
}

// ---------------------------------------------------------------- garbage session

const (
	c11Line = iota // at a line start or inside a line
	c11Lit         // the server accepted a literal: litRemain bytes are data
	c11Idle        // the server answered "+" to IDLE: the next line ends the command
)

type c11Item struct {
	kind   int // 0 data, 1 completion, 2 continuation, 3 not a response
	tag    string
	status string
	text   string
	why    string
}

type c11G struct {
	x    *c11X
	s    *world.Sess
	conn *simnet.Conn
	n    int
	rng  *core.Rand

	rbuf       []byte
	q          []c11Item
	bye        bool
	byeInvalid bool

	// what the server has been sent and not been matched yet (burst mode)
	pend []byte

	// sanitiser state (physical lines)
	sInq, sEsc, sCR bool
	sWin            uint32
	sList           bool

	// the current logical line (bytes outside accepted literals)
	head     []byte
	cont     []byte // first bytes of the line after IDLE's continuation request
	tail     []byte
	lineLen  int
	inq, esc bool
	tlsLine  bool
	bigLit   bool
	zeroLit  bool
	state    int
	litN     int64
	idleTag  string

	consecBad  int
	lastStatus string
	lastLogout bool
	dead       bool
	eofSent    bool
	loggedIn   bool
	any        bool // something has been sent
	firstBad   bool // the first byte sent was not a tag character
	nLines     int  // lines completed on this connection
	stepping   bool // the matcher runs in lock step with the delivery
	burstLines int
	bPrevCR    bool
	credit     int // burst mode: continuation requests seen ahead of their line
	bLit       int64
}

func (x *c11X) open() *c11G {
	e := x.e
	x.quiesce("open")
	x.gorSet = c11Goroutines()
	x.gorBase = len(x.gorSet)
	s, err := e.W.Connect()
	if err != nil {
		e.Fail("bystander", "a new connection was not greeted: %v", err)
		return nil
	}
	g := &c11G{x: x, s: s, conn: s.C.Conn, n: x.nG, rng: core.NewRand(core.Mix(x.sc.Seed, 0xF4A6+uint64(x.nG)))}
	x.nG++
	x.all = append(x.all, g)
	fr := core.NewRand(core.Mix(x.sc.Seed, 0xF4A7+uint64(g.n)))
	flip := false
	switch x.sc.C("frag") % 5 {
	case 1:
		g.conn.Frag = func(avail int) int { return 1 }
	case 2:
		g.conn.Frag = func(avail int) int { return 1 + fr.Intn(min(avail, 16)) }
	case 3:
		g.conn.Frag = func(avail int) int { return 1 + fr.Intn(avail) }
	case 4:
		g.conn.Frag = func(avail int) int {
			flip = !flip
			if flip {
				return 1
			}
			return avail
		}
	}
	x.logf("-- garbage connection %s opened (goroutines before: %d)", s.Label, x.gorBase)
	e.Tr.Event("open", s.Label)
	return g
}

func (x *c11X) garbage(a core.Action, step int) {
	if x.g == nil || x.g.dead {
		x.g = x.open()
		if x.g == nil {
			return
		}
	}
	g := x.g
	b := c11Build(a, step, x.kn)
	if x.kn.stackdeep && len(b) > c11SafeDepth {
		x.wd.PreWrite("crash-stack-overflow", "the process ended while the server parsed a deeply nested command (Go runtime: goroutine stack exceeds the 1 GB limit); this file was written before the bytes were sent")
		defer x.wd.PreWriteDone()
	}
	cut := abs(a.Arg(5)) % 8
	if cut != 0 {
		if cut == 4 && !x.kn.openquote && x.sc.C("eofquote") != 1 {
			cut = 1
		}
		b = b[:c11CutPos(b, cut, a.Arg(6))]
	}
	b = g.sanitise(b)
	if cut != 0 {
		b = append(b, g.sanFlush()...)
	}
	if !g.any && len(b) > 0 {
		g.any = true
		if c := b[0]; x.sc.C("firstbad") != 1 && !(c >= 'a' && c <= 'z' || c >= 'A' && c <= 'Z' || c >= '0' && c <= '9') {
			// recorded defect: the very first byte of a connection not being a tag
			// character makes the server drop the connection
			b = append([]byte{'f'}, b...)
		} else if !c11GluonTagChar(c) {
			g.firstBad = true
		}
	}
	g.deliver(b)
	if cut != 0 && !g.dead && !x.e.Failed() {
		g.flushBurst()
		if !g.dead && !x.e.Failed() {
			switch {
			case g.state == c11Lit:
				x.e.St.Probes["cut_in_literal"]++
			case g.lineLen > 0:
				x.e.St.Probes["cut_in_line"]++
			default:
				x.e.St.Probes["cut_at_line_start"]++
			}
			g.disconnect(a.Arg(7)%2, "cut")
		}
	}
}

// c11Unescape reads \r \n \t \\ \" and \xNN; every other byte stands for itself.
func c11Unescape(s string) ([]byte, error) {
	var out []byte
	for i := 0; i < len(s); i++ {
		c := s[i]
		if c != '\\' {
			out = append(out, c)
			continue
		}
		i++
		if i >= len(s) {
			return nil, fmt.Errorf("dangling backslash")
		}
		switch s[i] {
		case 'r':
			out = append(out, '\r')
		case 'n':
			out = append(out, '\n')
		case 't':
			out = append(out, '\t')
		case '\\', '"':
			out = append(out, s[i])
		case 'x':
			if i+2 >= len(s) {
				return nil, fmt.Errorf("short \\x escape")
			}
			v, err := strconv.ParseUint(s[i+1:i+3], 16, 8)
			if err != nil {
				return nil, err
			}
			out = append(out, byte(v))
			i += 2
		default:
			return nil, fmt.Errorf("unknown escape \\%c", s[i])
		}
	}
	return out, nil
}

func (x *c11X) raw(a core.Action) {
	b, err := c11Unescape(a.X)
	if err != nil {
		x.e.Infra = fmt.Errorf("raw action: %v", err)
		return
	}
	if x.g == nil || x.g.dead {
		if x.g = x.open(); x.g == nil {
			return
		}
	}
	g := x.g
	if !g.any && len(b) > 0 && !c11GluonTagChar(b[0]) {
		g.firstBad = true
	}
	g.any = true
	for _, c := range []byte(b) { // keep the trackers of the sanitiser in step
		switch {
		case c == '\n':
			g.sInq, g.sEsc = false, false
		case g.sInq && g.sEsc:
			g.sEsc = false
		case g.sInq && c == '\\':
			g.sEsc = true
		case c == '"':
			g.sInq = !g.sInq
		}
	}
	g.deliver([]byte(b))
	if how := a.Arg(0); how != 0 && !g.dead && !x.e.Failed() {
		g.flushBurst()
		if !g.dead && !x.e.Failed() {
			g.disconnect((how-1)%2, "raw")
		}
	}
}

// sanitise removes the input classes that are behind knobs from the stream of one
// connection: a quoted string left open at a line end (knob openquote) and LF without
// CR / lone CR (knob barelf).  It works on physical lines; what a line is for the server
// differs when a literal ends inside one, those rare cases are told apart at run time
// by the diagnosis in unanswered().  A trailing CR is held back until its successor is
// known (sanFlush releases it).
func (g *c11G) sanitise(b []byte) []byte {
	kn := g.x.kn
	if kn.openquote && kn.barelf && kn.listutf8 {
		return b
	}
	out := make([]byte, 0, len(b)+8)
	endLine := func(hasCR bool) {
		g.sWin, g.sList = 0, false
		if !kn.openquote && g.sInq {
			if g.sEsc {
				out = append(out, 'x')
			}
			out = append(out, '"')
		}
		if hasCR || !kn.barelf {
			out = append(out, '\r')
		}
		out = append(out, '\n')
		g.sInq, g.sEsc = false, false
	}
	track := func(c byte) {
		if !kn.listutf8 {
			// recorded defect: LIST / LSUB arguments that are not UTF-8 panic in
			// regexp.MustCompile: behind the keyword, 8-bit bytes are replaced
			g.sWin = g.sWin<<8 | uint32(c&^0x20)
			if g.sWin == 0x4c495354 || g.sWin == 0x4c535542 { // "LIST", "LSUB"
				g.sList = true
			}
			if g.sList && c >= 0x80 {
				c = 'u'
			}
		}
		switch {
		case g.sInq && g.sEsc:
			g.sEsc = false
		case g.sInq && c == '\\':
			g.sEsc = true
		case c == '"':
			g.sInq = !g.sInq
		}
		out = append(out, c)
	}
	for _, c := range b {
		if g.sCR {
			g.sCR = false
			if c == '\n' {
				endLine(true)
				continue
			}
			if !kn.barelf {
				endLine(true) // a lone CR becomes a line end
			} else {
				track('\r')
			}
		}
		switch c {
		case '\r':
			g.sCR = true
		case '\n':
			endLine(false)
		default:
			track(c)
		}
	}
	return out
}

func (g *c11G) sanFlush() []byte {
	if g.sCR {
		g.sCR = false
		return []byte{'\r'}
	}
	return nil
}

func c11Hash(b []byte) uint64 {
	h := fnv.New64a()
	h.Write(b)
	return h.Sum64()
}

func c11Show(b []byte) string {
	const lim = 160
	var sb strings.Builder
	for i, c := range b {
		if i >= lim {
			fmt.Fprintf(&sb, "...(%d bytes)", len(b))
			break
		}
		switch {
		case c == '\r':
			sb.WriteString(`\r`)
		case c == '\n':
			sb.WriteString(`\n`)
		case c < 0x20 || c >= 0x7f:
			fmt.Fprintf(&sb, `\x%02x`, c)
		default:
			sb.WriteByte(c)
		}
	}
	return sb.String()
}

// send hands bytes to the transport, in one piece or in scenario-chosen pieces with
// quiescence in between.
func (g *c11G) send(b []byte) {
	if len(b) == 0 {
		return
	}
	x := g.x
	x.sent += int64(len(b))
	x.e.Tr.Event("send", len(b), c11Hash(b))
	x.logf("C %s: %s", g.s.Label, c11Show(b))
	if x.sc.C("chunk") == 1 && len(b) > 1 {
		for k := g.rng.Intn(4); k > 0 && len(b) > 1; k-- {
			n := 1 + g.rng.Intn(len(b)-1)
			g.conn.ClientSend(b[:n])
			x.quiesce("deliver")
			b = b[n:]
		}
	}
	g.conn.ClientSend(b)
}

// deliver sends the bytes of one action.  Step mode: one physical line at a time,
// matched at once.  Burst mode: everything is queued for the server first; matching
// happens when the burst is flushed.
func (g *c11G) deliver(b []byte) {
	if g.dead || len(b) == 0 {
		return
	}
	if g.x.burst() {
		// pipelined: lines are queued for the server without waiting for answers, up
		// to and including a line that may draw a continuation request (literal
		// announcement, IDLE): there the burst is flushed and matched, so that inside
		// a burst at most the last line can be answered by "+".
		for len(b) > 0 && !g.dead && !g.x.e.Failed() {
			if len(g.pend) == 0 { // nothing unmatched: the matcher's state is exact
				g.bLit = 0
				if g.state == c11Lit {
					g.bLit = g.litN
				}
			}
			if g.bLit > 0 {
				n := min(g.bLit, int64(len(b)))
				g.send(b[:n])
				g.pend = append(g.pend, b[:n]...)
				g.bLit -= n
				b = b[n:]
				g.bPrevCR = false
				continue
			}
			i := bytes.IndexByte(b, '\n')
			if i < 0 {
				g.send(b)
				g.pend = append(g.pend, b...)
				g.bPrevCR = b[len(b)-1] == '\r'
				break
			}
			seg := b[:i+1]
			b = b[i+1:]
			g.send(seg)
			g.pend = append(g.pend, seg...)
			bareLF := !g.bPrevCR
			if len(seg) >= 2 {
				bareLF = seg[len(seg)-2] != '\r'
			}
			g.bPrevCR = false
			g.burstLines++
			// A burst also ends where the server may close the connection on its own
			// (LOGOUT, the 20th error in a row): when it closes while its command reader
			// is inside a quoted string of the following line, the reader spins
			// (recorded defect), and whether it is there at that moment is a race.
			pt := g.pend[max(0, len(g.pend)-64):]
			if len(g.pend) < 64 && len(g.head) > 0 && g.lineLen == len(g.head) {
				// the line may have been begun by an earlier (unpipelined) action: what ends
				// here is that line, not just the bytes of this burst
				pt = append(append([]byte{}, g.head[max(0, len(g.head)-64):]...), g.pend...)
			}
			// Since that defect is repaired (d3e4ccf), half of the runs (cfg pipeend) keep the
			// burst going: lines pipelined behind the end of the session are part of the
			// quantifier, and the reader that parsed them must not outlive the session.
			endsSession := c11LogoutTailRe.Match(pt) || g.consecBad+g.burstLines >= 19
			if g.x.sc.C("pipeend") == 1 {
				endsSession = false
			}
			if c11LitRe.Match(pt) || c11IdleTailRe.Match(pt) || endsSession || bareLF || len(g.pend) > 1<<20 {
				g.flushBurst()
			}
		}
		return
	}
	g.match(b, true)
}

func (g *c11G) flushBurst() {
	if g.dead || len(g.pend) == 0 {
		return
	}
	b := g.pend
	g.pend = nil
	g.burstLines = 0
	g.x.quiesce("deliver")
	g.pull()
	g.match(b, false)
	if !g.dead && !g.x.e.Failed() && g.credit > 0 {
		g.credit = 0
		g.x.e.Fail("continuation", "connection %s: continuation request nothing asked for (line so far: %s)", g.s.Label, c11Show(g.head))
	}
	if !g.dead && !g.x.e.Failed() {
		g.noExtra()
		g.checkClosed()
	}
	g.bLit = 0
	if g.state == c11Lit {
		g.bLit = g.litN
	}
}

// match walks over client bytes and the server's answers together.
func (g *c11G) match(b []byte, sendNow bool) {
	e := g.x.e
	g.stepping = sendNow
	for len(b) > 0 && !g.dead && !e.Failed() {
		if g.state == c11Lit {
			n := int64(len(b))
			if n > g.litN {
				n = g.litN
			}
			if sendNow {
				g.send(b[:n])
			}
			g.litN -= n
			b = b[n:]
			if g.litN == 0 {
				g.state = c11Line
				g.tail = g.tail[:0]
			}
			continue
		}
		i := bytes.IndexByte(b, '\n')
		if i < 0 {
			if sendNow {
				g.send(b)
			}
			g.note(b)
			break
		}
		seg := b[:i+1]
		b = b[i+1:]
		if sendNow {
			g.send(seg)
		}
		g.note(seg)
		if sendNow {
			g.x.quiesce("deliver")
			g.pull()
		}
		g.lineEnd()
		if sendNow && !g.dead && !e.Failed() {
			g.noExtra()
			g.checkClosed()
		}
	}
	if sendNow && !g.dead && !e.Failed() {
		// bytes without a line end (or literal data) were sent: nothing may come back
		g.x.quiesce("deliver")
		g.pull()
		g.noExtra()
		g.checkClosed()
	}
}

var c11LitRe = regexp.MustCompile(`\{([0-9]+)\}\r\n$`)

// note folds bytes of the current logical line (outside literals) into its summary.
func (g *c11G) note(seg []byte) {
	if g.lineLen == 0 {
		g.head = g.head[:0]
	}
	if room := 256 - len(g.head); room > 0 {
		g.head = append(g.head, seg[:min(room, len(seg))]...)
	}
	if len(seg) >= 48 {
		g.tail = append(g.tail[:0], seg[len(seg)-48:]...)
	} else {
		g.tail = append(g.tail, seg...)
		if len(g.tail) > 48 {
			g.tail = g.tail[len(g.tail)-48:]
		}
	}
	if g.state == c11Idle {
		// the line that ends IDLE is read as a command of its own
		if room := 3 - len(g.cont); room > 0 {
			g.cont = append(g.cont, seg[:min(room, len(seg))]...)
		}
		if h := g.cont; len(h) >= 3 && h[0] == 0x16 && ((h[1] == 0x03 && h[2] >= 1 && h[2] <= 4) || (h[1] == 0 && h[2] == 0)) {
			g.tlsLine = true
		}
	}
	if !g.tlsLine && len(g.head) >= 3 && g.head[0] == 0x16 && ((g.head[1] == 0x03 && g.head[2] >= 1 && g.head[2] <= 4) || (g.head[1] == 0 && g.head[2] == 0)) {
		g.tlsLine = true
	}
	g.lineLen += len(seg)
	for i := 0; i < len(seg); i++ {
		c := seg[i]
		switch {
		case g.inq && g.esc:
			g.esc = false
		case g.inq && c == '\\':
			g.esc = true
		case c == '"':
			g.inq = !g.inq
		case c == '{':
			j := i + 1
			zero := true
			for j < len(seg) && seg[j] >= '0' && seg[j] <= '9' {
				if seg[j] != '0' {
					zero = false
				}
				j++
			}
			if d := j - i - 1; d > 0 {
				if zero {
					g.zeroLit = true
				} else if d > 8 || c11Atoi(seg[i+1:j]) >= c11LiteralCap {
					g.bigLit = true
				}
			}
		}
	}
}

func c11Atoi(b []byte) int64 {
	var v int64
	for _, c := range b {
		v = v*10 + int64(c-'0')
		if v > 1<<40 {
			return v
		}
	}
	return v
}

func (g *c11G) resetLine() {
	g.lineLen = 0
	g.head = g.head[:0]
	g.cont = g.cont[:0]
	g.tail = g.tail[:0]
	g.inq, g.esc = false, false
	g.tlsLine, g.bigLit, g.zeroLit = false, false, false
	g.state = c11Line
	g.idleTag = ""
}

// pull frames and classifies what the server has written.
func (g *c11G) pull() {
	b := g.conn.ClientTake()
	if len(b) > 0 {
		g.rbuf = append(g.rbuf, b...)
		g.x.recvd += int64(len(b))
	}
	// The trace must not depend on the order in which the server's goroutines reached
	// the socket: continuation requests are written by the command reader, which works
	// one command ahead of the responses, and FETCH lines by parallel workers.
	conts, datas, dataLen := 0, 0, 0
	for {
		f, ok := c11Frame(&g.rbuf)
		if !ok {
			break
		}
		it := c11Classify(f)
		g.x.logf("S %s: %s", g.s.Label, c11Show(f))
		switch it.kind {
		case 0:
			datas++
			dataLen += len(f)
			if it.status == "BYE" {
				g.bye = true
				if t := strings.ToLower(string(f)); strings.Contains(t, "mailbox was deleted") || strings.Contains(t, "state is inconsistent") {
					// the session's selected mailbox was deleted (here: by itself): gluon
					// ends such a session with BYE; not an answer to garbage
					g.byeInvalid = true
				}
			}
			continue
		case 2:
			conts++
		default:
			g.x.e.Tr.Event("recv", it.kind, it.tag, it.status, len(f))
		}
		g.q = append(g.q, it)
	}
	if conts+datas > 0 {
		g.x.e.Tr.Event("recv+", conts, datas, dataLen)
	}
	g.x.e.CheckPanics() // a handler that panicked never answers: report the panic, not its consequences
}

func c11LitSuffix(b []byte) (int, bool) {
	if len(b) < 3 || b[len(b)-1] != '}' {
		return 0, false
	}
	j := bytes.LastIndexByte(b, '{')
	if j < 0 || len(b)-j-2 < 1 || len(b)-j-2 > 9 {
		return 0, false
	}
	n := 0
	for _, c := range b[j+1 : len(b)-1] {
		if c < '0' || c > '9' {
			return 0, false
		}
		n = n*10 + int(c-'0')
	}
	return n, true
}

func c11StatusWord(b []byte) (tag, status, text string, ok bool) {
	f := bytes.SplitN(b, []byte(" "), 3)
	if len(f) < 2 {
		return "", "", "", false
	}
	switch w := strings.ToUpper(string(f[1])); w {
	case "OK", "NO", "BAD", "BYE", "PREAUTH":
		if len(f) == 3 {
			text = string(f[2])
		}
		return string(f[0]), w, text, true
	}
	return "", "", "", false
}

func c11Frame(buf *[]byte) ([]byte, bool) {
	b := *buf
	pos := 0
	for {
		i := bytes.Index(b[pos:], []byte("\r\n"))
		if i < 0 {
			return nil, false
		}
		end := pos + i
		if n, ok := c11LitSuffix(b[pos:end]); ok {
			if _, _, _, st := c11StatusWord(b[:end]); !st && !(len(b) > 0 && b[0] == '+') {
				need := end + 2 + n
				if len(b) < need {
					return nil, false
				}
				pos = need
				continue
			}
		}
		f := b[:end+2]
		*buf = b[end+2:]
		return f, true
	}
}

func c11Classify(f []byte) c11Item {
	body := f[:len(f)-2]
	if len(body) > 0 && body[0] == '+' && (len(body) == 1 || body[1] == ' ') {
		return c11Item{kind: 2, tag: "+"}
	}
	if tag, status, text, ok := c11StatusWord(body); ok {
		switch {
		case tag == "":
			return c11Item{kind: 3, tag: "", status: status, text: text, why: "status response with an empty tag"}
		case tag == "*":
			if status == "BAD" {
				return c11Item{kind: 1, tag: tag, status: status, text: text}
			}
			return c11Item{kind: 0, tag: tag, status: status}
		case status == "OK" || status == "NO" || status == "BAD":
			return c11Item{kind: 1, tag: tag, status: status, text: text}
		}
		return c11Item{kind: 3, tag: tag, status: status, why: "tagged " + status}
	}
	// anything else must be well-formed untagged data
	if why := c11DataOK(body); why != "" {
		return c11Item{kind: 3, why: why, text: c11Show(f)}
	}
	return c11Item{kind: 0, tag: "*"}
}

// c11DataOK checks the lexical shape of an untagged data response: "* " in front,
// balanced parentheses, closed quoted strings without line breaks, literals of the
// announced length, no control characters outside literals.
func c11DataOK(b []byte) string {
	if len(b) < 3 || b[0] != '*' || b[1] != ' ' || b[2] == ' ' {
		return "not an untagged response"
	}
	depth := 0
	for i := 2; i < len(b); i++ {
		switch c := b[i]; {
		case c == '"':
			i++
			for ; i < len(b) && b[i] != '"'; i++ {
				if b[i] == '\\' {
					i++
				}
				if i < len(b) && (b[i] == '\r' || b[i] == '\n') {
					return "line break inside a quoted string"
				}
			}
			if i >= len(b) {
				return "quoted string not closed"
			}
		case c == '(':
			depth++
		case c == ')':
			depth--
			if depth < 0 {
				return "unbalanced )"
			}
		case c == '{':
			j := i + 1
			n := 0
			for j < len(b) && b[j] >= '0' && b[j] <= '9' && j-i < 11 {
				n = n*10 + int(b[j]-'0')
				j++
			}
			if j > i+1 && j+2 < len(b) && b[j] == '}' && b[j+1] == '\r' && b[j+2] == '\n' {
				if j+3+n > len(b) {
					return "literal longer than the response"
				}
				i = j + 2 + n
			}
		case c == '\r' || c == '\n' || c == 0:
			return fmt.Sprintf("control character %#x in a data response", c)
		}
	}
	if depth != 0 {
		return "unbalanced ("
	}
	return ""
}

func (g *c11G) pop() *c11Item {
	if len(g.q) == 0 {
		return nil
	}
	it := g.q[0]
	g.q = g.q[1:]
	return &it
}

// c11GluonTagChar: what gluon accepts as the first character of a tag.
func c11GluonTagChar(c byte) bool {
	if c >= 0x80 || c == 0 || c == 0x7f {
		return true
	}
	return c > 0x20 && !strings.ContainsRune(`(){%*"\+[`, rune(c))
}

func c11TagChar(c byte) bool {
	if c <= 0x20 || c >= 0x7f {
		return false
	}
	return !strings.ContainsRune(`(){%*"\+[`, rune(c)) // '[' is legal but gluon rejects it (recorded for C10)
}

// lineTag returns the bytes in front of the first space (or line end) of the logical
// line and whether they form a tag.
func (g *c11G) lineTag() (string, bool) {
	h := g.head
	n := len(h)
	for i, c := range h {
		if c == ' ' || c == '\r' || c == '\n' {
			n = i
			break
		}
	}
	p := string(h[:n])
	if n == 0 || (n == len(h) && len(h) >= 256) {
		return p, false
	}
	for i := 0; i < n; i++ {
		if !c11TagChar(h[i]) {
			return p, false
		}
	}
	if strings.EqualFold(p, "done") {
		return p, false
	}
	return p, true
}

var c11LogoutTailRe = regexp.MustCompile(`(?i)LOGOUT\r\n$`)
var c11IdleTailRe = regexp.MustCompile(`(?i) IDLE\r\n$`)
var c11IdleRe = regexp.MustCompile(`(?i)^[^ ]+ IDLE\r\n$`)
var c11LogoutRe = regexp.MustCompile(`(?i)^[^ ]+ LOGOUT\r\n$`)
var c11StartTLSRe = regexp.MustCompile(`(?i)^[^ ]+ STARTTLS\r\n$`)
var c11LoginRe = regexp.MustCompile(`(?i)^[^ ]+ LOGIN `)

// lineEnd is called when a line end outside a literal has been sent and the server is
// quiescent (step mode) or has answered the whole burst (burst mode).
func (g *c11G) lineEnd() {
	x, e := g.x, g.x.e
	x.lines++
	e.St.Checks++
	if p, _ := g.lineTag(); p == "*" && g.lineLen == len(g.head) {
		// gluon takes "*" for a tag (the list wildcards are missing from its atom
		// specials: C10's business) and answers "* OK ...", which no client can tell
		// from untagged data: the connection cannot be judged any further
		e.St.Probes["star_tag_line"]++
		g.abandon()
		return
	}
	mayCont := c11LitRe.Match(g.tail) || (c11IdleRe.Match(g.head) && g.lineLen == len(g.head))
	it := g.pop()
	for it != nil && it.kind == 2 && !mayCont && len(g.pend) == 0 && x.burst() && g.state != c11Lit {
		// burst mode: the command reader works one command ahead of the responses, so
		// the "+" for the last line of the burst may overtake earlier completions
		g.credit++
		it = g.pop()
	}
	if mayCont && g.credit > 0 && (it == nil || it.kind != 2) {
		g.credit--
		if it != nil {
			g.q = append([]c11Item{*it}, g.q...)
		}
		it = &c11Item{kind: 2, tag: "+"}
	}
	if it == nil {
		if g.conn.ServerClosed() {
			g.closedByServer()
			return
		}
		g.unanswered()
		return
	}
	switch it.kind {
	case 2:
		if m := c11LitRe.FindSubmatch(g.tail); m == nil && g.state == c11Idle {
			e.Fail("continuation", "connection %s: continuation request in answer to the line ending IDLE", g.s.Label)
			return
		}
		if m := c11LitRe.FindSubmatch(g.tail); m != nil {
			n := c11Atoi(m[1])
			if len(m[1]) > 18 {
				// beyond int64: what gluon makes of it is C16's business
				e.St.Probes["literal_size_wrapped"]++
				n = 1 << 62
			} else if n >= c11LiteralCap {
				e.Fail("continuation", "connection %s: literal of %d bytes accepted, the cap is %d", g.s.Label, n, c11LiteralCap)
				return
			}
			if n == 0 {
				// an empty literal is legal: the server asks for it like for any other and the
				// command continues on the next line
				e.St.Probes["empty_literal_accepted"]++
			}
			g.state, g.litN = c11Lit, n
			x.lits++
			e.St.Probes["literal_accepted"]++
			return
		}
		if c11IdleRe.Match(g.head) && g.lineLen == len(g.head) {
			g.state = c11Idle
			g.idleTag, _ = g.lineTag()
			e.St.Probes["idle_entered"]++
			return
		}
		e.Fail("continuation", "connection %s: continuation request after a line that announces no literal: %s", g.s.Label, c11Show(g.head))
		return
	case 3:
		if it.tag == "" && it.status != "" {
			e.FailSig("response-syntax", "status response with an empty tag", "connection %s: line %s answered by %q (neither a tag nor '*' in front of %s)",
				g.s.Label, c11Show(g.head), " "+it.status+" "+it.text, it.status)
			return
		}
		e.Fail("response-syntax", "connection %s: %s: %s", g.s.Label, it.why, it.text)
		return
	}
	// a completion
	x.comps++
	want, valid := g.lineTag()
	switch {
	case it.tag == "":
	case g.state == c11Idle || g.idleTag != "":
		if it.tag != g.idleTag {
			e.Fail("completion-tag", "connection %s: IDLE tagged %q completed with tag %q", g.s.Label, g.idleTag, it.tag)
			return
		}
	case valid && it.tag != want:
		e.Fail("completion-tag", "connection %s: line %s completed with tag %q", g.s.Label, c11Show(g.head), it.tag)
		return
	case !valid && it.tag != "*" && !strings.HasPrefix(want, it.tag) && !(len(g.head) >= 256 && strings.HasPrefix(it.tag, want)):
		// without a well-formed tag the answer is "* BAD", or carries the part the
		// server took for the tag
		e.Fail("completion-tag", "connection %s: line without a well-formed tag %s completed with tag %q", g.s.Label, c11Show(g.head), it.tag)
		return
	}
	g.lastStatus = it.status
	switch it.status {
	case "BAD":
		g.consecBad++
		e.St.Probes["completion_bad"]++
	case "NO":
		g.consecBad = 0
		e.St.Probes["completion_no"]++
	default:
		g.consecBad = 0
		e.St.Probes["completion_ok"]++
		if c11LoginRe.Match(g.head) && !g.loggedIn {
			g.loggedIn = true
			e.St.Probes["garbage_session_authenticated"]++
		}
	}
	g.nLines++
	g.lastLogout = it.status == "OK" && g.bye && c11LogoutRe.Match(g.head) && g.lineLen == len(g.head)
	g.resetLine()
}

// noExtra: with the matcher up to date, nothing else may be queued.
func (g *c11G) noExtra() {
	e := g.x.e
	if it := g.pop(); it != nil {
		switch it.kind {
		case 2:
			e.Fail("continuation", "connection %s: continuation request nothing asked for (line so far: %s)", g.s.Label, c11Show(g.head))
		case 3:
			if it.tag == "" && it.status != "" {
				e.FailSig("response-syntax", "status response with an empty tag", "connection %s: unsolicited %q", g.s.Label, " "+it.status+" "+it.text)
				return
			}
			if it.tag == "" && it.status != "" {
				e.Fail("extra-completion", "connection %s: a second completion %q for one line (line so far: %s)", g.s.Label, " "+it.status+" "+it.text, c11Show(g.head))
				return
			}
			e.Fail("response-syntax", "connection %s: %s: %s", g.s.Label, it.why, it.text)
		default:
			e.Fail("extra-completion", "connection %s: completion %q %s %s that no line accounts for (line so far: %s)", g.s.Label, it.tag, it.status, it.text, c11Show(g.head))
		}
	}
}

// unanswered: a complete line, the server quiescent, nothing came back, connection open.
func (g *c11G) unanswered() {
	e := g.x.e
	e.CheckPanics() // a handler that panicked never answers
	if e.Failed() {
		return
	}
	line := c11Show(g.head)
	hadQuote := g.inq
	// diagnosis 1: does another line end release the answer?  (the server skipped to
	// the next LF although the offending byte was the LF itself)
	g.conn.ClientSend([]byte("\r\n"))
	g.x.quiesce("diagnose")
	g.pull()
	if len(g.q) > 0 {
		g.q = nil
		e.St.Probes["lf_swallows_next_line"]++
		e.FailSig("lf-swallows-next-line", "after an error at a bare LF the next line is skipped",
			"connection %s: the complete line %s got no answer of its own; an answer came once one more CRLF was sent: after a parse error AT a line feed the server skips to the next line feed, eating the following line", g.s.Label, line)
		return
	}
	// diagnosis 2: does a closing quote release the answer?
	g.conn.ClientSend([]byte("\"\r\n"))
	g.x.quiesce("diagnose")
	g.pull()
	released := len(g.q) > 0
	g.q = nil
	if released {
		e.St.Probes["quoted_spans_lines"]++
		e.FailSig("quoted-spans-lines", "line end read as part of a quoted string",
			"connection %s: the complete line %s got no answer; the answer came once a '\"' was sent: CR LF were taken as characters of a quoted string (open quote seen by the harness: %v)", g.s.Label, line, hadQuote)
		return
	}
	e.Fail("no-completion", "connection %s: the complete line %s got no completion and no continuation request (connection still open, server quiescent)", g.s.Label, line)
}

// checkClosed notices a close by the server outside a line end.
func (g *c11G) checkClosed() {
	if !g.dead && g.conn.ServerClosed() {
		g.closedByServer()
	}
}

// closedByServer judges a close the client did not ask for.
func (g *c11G) closedByServer() {
	x, e := g.x, g.x.e
	g.dead = true
	g.s.C.Dead = true
	e.St.Checks++
	why := ""
	switch {
	case g.eofSent:
		why = "client_eof"
	case g.lastLogout:
		why = "logout"
	case g.byeInvalid:
		why = "bye_selected_mailbox_deleted"
	case g.consecBad >= 20:
		why = "20_errors"
	case g.tlsLine:
		why = "tls"
	case g.bigLit:
		why = "literal_over_cap"
	}
	x.logf("-- connection %s closed by the server (%s)", g.s.Label, why)
	e.Tr.Event("closed", g.s.Label, why)
	if why == "" {
		line := c11Show(g.head)
		switch {
		case g.zeroLit:
			e.FailSig("close-lit0", "closed on an empty literal", "connection %s: closed by the server without an answer to the line %s (empty literal)", g.s.Label, line)
		case g.firstBad && g.nLines == 0:
			e.FailSig("close-first-line", "closed on a first line that does not start with a tag", "connection %s: closed by the server without an answer to its first line %s", g.s.Label, line)
		case c11StartTLSRe.Match(g.head) || c11StartTLSRe.Match(g.tail):
			e.FailSig("close-starttls", "closed on STARTTLS", "connection %s: closed by the server without an answer to %s", g.s.Label, line)
		default:
			e.Fail("close-unjustified", "connection %s: closed by the server after %d consecutive BAD (last status %q), pending line %s; no client EOF, no TLS-looking input, no literal over the cap",
				g.s.Label, g.consecBad, g.lastStatus, line)
		}
		return
	}
	e.St.Probes["closed_"+why]++
	g.afterClose()
}

// afterClose: the connection is gone; so must its goroutines be, and the heap.
func (g *c11G) afterClose() {
	x, e := g.x, g.x.e
	x.quiesce("after-close")
	if len(g.rbuf) > 0 {
		e.Fail("response-syntax", "connection %s: the server's output ends in an incomplete line %s", g.s.Label, c11Show(g.rbuf))
		return
	}
	e.St.Checks++
	now := c11Goroutines()
	if len(now) > x.gorBase {
		var extra []string
		for _, id := range core.SortedKeys(now) {
			if _, ok := x.gorSet[id]; !ok {
				extra = append(extra, now[id])
			}
		}
		e.FailSig("goroutine-leak", "goroutines left after the connection ended", "connection %s: %d goroutines in the bubble before it was opened, %d after it ended and the server is quiescent; new: %s",
			g.s.Label, x.gorBase, len(now), strings.Join(extra, " | "))
		return
	}
	e.St.Probes["goroutines_back_to_baseline"]++
}

// disconnect ends the connection from the client side: 0 = EOF after what was sent,
// 1 = reset.
func (g *c11G) disconnect(how int, why string) {
	x, e := g.x, g.x.e
	if g.dead {
		return
	}
	g.flushBurst()
	if g.dead || e.Failed() {
		return
	}
	if g.inq || g.sInq {
		if x.sc.C("eofquote") == 1 {
			e.St.Probes["disconnect_inside_quoted"]++
			x.wd.Expect("disconnect inside a quoted string")
		} else {
			// recorded defect (the server spins): stay clear of it
			g.defuse()
			if g.dead {
				return
			}
		}
	}
	x.quiesce("before-disconnect")
	x.logf("-- connection %s: client %s (%s), state=%d literal left=%d line so far=%d bytes", g.s.Label, []string{"EOF", "RESET"}[how], why, g.state, g.litN, g.lineLen)
	e.Tr.Event("disconnect", how, g.state, g.lineLen)
	g.eofSent = true
	if how == 1 {
		g.conn.ClientReset()
		e.St.Faults["disconnect_reset"]++
	} else {
		g.conn.ClientCloseWrite()
		e.St.Faults["disconnect_eof"]++
	}
	x.quiesce("disconnect")
	g.pull()
	// an unfinished line may be answered or not; nothing else may come
	if how == 0 {
		if g.lineLen > 0 && g.state != c11Lit {
			if it := g.pop(); it != nil && it.kind == 2 {
				e.Fail("continuation", "connection %s: continuation request after the client's EOF", g.s.Label)
				return
			}
		}
		g.noExtra()
	}
	g.q = nil
	if e.Failed() {
		return
	}
	e.St.Checks++
	if !g.conn.ServerClosed() {
		e.Fail("close-missing", "connection %s: the client %s and the server is quiescent, but the server has not closed its end", g.s.Label, []string{"closed its side", "reset the connection"}[how])
		return
	}
	g.dead = true
	g.s.C.Dead = true
	if how == 1 {
		g.rbuf = nil
	}
	g.afterClose()
}

// abandon gives a connection up without judging it any further.
func (g *c11G) abandon() {
	g.q, g.pend = nil, nil
	g.defuse()
	if !g.dead {
		g.conn.ClientCloseWrite()
		g.x.quiesce("abandon")
		g.dead = true
		g.s.C.Dead = true
	}
	g.q = nil
}

// defuse brings a connection that may be inside a quoted string to a line start.
// From every state other than inside a literal, "\"\r\n\"\r\n" ends at a line start.
func (g *c11G) defuse() {
	x := g.x
	for i := 0; i < 6; i++ {
		if g.conn.ServerClosed() {
			g.dead = true
			g.s.C.Dead = true
			return
		}
		if g.state == c11Lit && g.litN > 0 && g.litN <= 1<<20 {
			g.conn.ClientSend(bytes.Repeat([]byte{'x'}, int(g.litN)))
			g.litN = 0
		}
		g.conn.ClientSend([]byte("\"\r\n\"\r\n"))
		x.quiesce("defuse")
		g.q = nil
		g.pull()
		n := len(g.q)
		g.q = nil
		if n >= 2 {
			break
		}
	}
	g.resetLine()
	g.sInq, g.sEsc, g.sCR = false, false, false
	g.consecBad = 0 // unknown; the server may now close after fewer than 20 of ours
	if g.conn.ServerClosed() {
		g.dead = true
		g.s.C.Dead = true
	}
}

// probe: after the garbage, a fresh NOOP is answered OK, or the connection is closed
// for a reason the property allows.
func (g *c11G) probe() {
	x, e := g.x, g.x.e
	g.flushBurst()
	for try := 0; try < 4 && !g.dead && !e.Failed(); try++ {
		if g.state == c11Lit {
			if g.litN > 1<<20 {
				e.St.Probes["probe_skipped_big_literal"]++
				g.disconnect(0, "literal too big to complete")
				return
			}
			g.match(bytes.Repeat([]byte{'x'}, int(g.litN)), true)
			continue
		}
		if g.state == c11Idle {
			g.match([]byte("DONE\r\n"), true)
			continue
		}
		if g.lineLen > 0 {
			g.match(g.sanitise([]byte("\r\n")), true)
			continue
		}
		break
	}
	if g.dead || e.Failed() {
		return
	}
	if g.state != c11Line || g.lineLen > 0 {
		e.St.Probes["probe_gave_up"]++
		g.disconnect(0, "no line start reached")
		return
	}
	x.wd.Phase("probe")
	tag := fmt.Sprintf("p%d", x.lines)
	g.match([]byte(tag+" NOOP\r\n"), true)
	if g.dead || e.Failed() {
		return
	}
	e.St.Checks++
	if g.lastStatus != "OK" {
		e.Fail("unusable", "connection %s: a fresh NOOP after the garbage was answered %s", g.s.Label, g.lastStatus)
		return
	}
	e.St.Probes["probe_noop_ok"]++
}

// teardown leaves no connection in a state in which the end of input makes the server
// spin (recorded defect): otherwise closing the world would hang.
func (x *c11X) teardown() {
	x.wd.Phase("teardown")
	for _, g := range x.all {
		if g.dead || g.s.C.Dead {
			continue
		}
		if x.sc.C("eofquote") == 1 && x.e.V == nil && x.e.Infra == nil {
			continue
		}
		g.defuse()
	}
}
