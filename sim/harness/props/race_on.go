//go:build race

package props

import "runtime"

func init() { raceErrors = runtime.RaceErrors }
