package props

import (
	"fmt"
	"strings"
	"time"

	"verifharness/core"
	"verifharness/model"
	"verifharness/wire"
	"verifharness/world"
)

var gatedKinds = []string{"append", "store", "expunge", "uidexpunge", "copy", "move", "fetch", "select", "close", "noop", "check", "search",
	"deliver", "deliverall", "idle", "done", "advance", "conn.new", "conn.flags", "conn.boxes", "conn.del", "probe", "converge", "conn.flap"}

func genGated(r *core.Rand, prop string, weights []int, minA, maxA int) *core.Scenario {
	sc := &core.Scenario{Property: prop, Cfg: map[string]int{}}
	sc.Cfg["nsess"] = r.Range(2, 4)
	sc.Cfg["nbox"] = r.Range(2, 3)
	sc.Cfg["labels"] = r.Intn(2)
	sc.Cfg["nopar"] = r.Intn(2)
	sc.Cfg["idlebulk"] = []int{0, 0, 500, 200}[r.Intn(4)]
	// Interleaving / input classes that trigger separately recorded defects (F07, F08, F09):
	// at most ONE of them per run, in a quarter of the runs altogether, so that three runs
	// out of four are judged without any of those findings being able to explain a violation.
	switch r.Intn(16) {
	case 0:
		sc.Cfg["readd"] = 1 // messages may live in several mailboxes and be re-added (finding F08)
	case 1:
		sc.Cfg["overtake"] = 1 // a session's own changes may overtake updates queued for it (finding F07)
	case 2:
		sc.Cfg["preselect"] = 1 // updates queued before SELECT (finding F09)
	case 3:
		sc.Cfg["selfcopy"] = 1 // COPY/MOVE into the selected mailbox itself (finding F08)
	}
	// multibox: messages may live in several mailboxes (COPY stays COPY, the remote may label
	// a message with several mailboxes); without it every message is in one mailbox at a time.
	// Whether a message was then added to a mailbox that already held it (finding F08) is
	// recorded as a history attribute when it happens, not assumed from this knob.
	if r.P(1, 2) || sc.Cfg["readd"] == 1 {
		sc.Cfg["multibox"] = 1
	}
	if sc.Cfg["multibox"] == 0 {
		sc.Cfg["labels"] = 0
	}
	if r.P(1, 4) {
		sc.Cfg["lazyuid"] = 1 // the client does not ask for the UIDs of newly announced messages
	}
	ns := sc.Cfg["nsess"]
	// most sessions look at the same mailbox: that is where updates cross
	common := r.Intn(sc.Cfg["nbox"])
	for i := 0; i < ns; i++ {
		b := common
		if r.P(1, 4) {
			b = r.Intn(sc.Cfg["nbox"])
		}
		sc.Actions = append(sc.Actions, core.Action{K: "select", S: i, A: []int{b, r.Intn(8)}})
	}
	n := r.Range(minA, maxA)
	for i := 0; i < n; i++ {
		k := gatedKinds[r.Weighted(weights)]
		a := core.Action{K: k, S: r.Intn(ns)}
		for j := 0; j < 8; j++ {
			a.A = append(a.A, r.Intn(1000))
		}
		if k == "append" && r.P(2, 3) {
			a.A[0] = common
		}
		if (k == "copy" || k == "move") && r.P(1, 2) {
			a.A[3] = common
		}
		sc.Actions = append(sc.Actions, a)
	}
	return sc
}

func gatedWorldCfg(sc *core.Scenario) world.Config {
	return world.Config{
		Users:              []world.UserCfg{{Names: []string{"user"}, Password: "pass"}},
		DisableParallelism: sc.C("nopar") == 1,
		IdleBulk:           time.Duration(sc.C("idlebulk")) * time.Millisecond,
		Gate:               true,
	}
}

// C01 — a session's announced view always equals the view the server answers from.
type C01 struct{}

func (C01) ID() string { return "C01" }

func (C01) Generate(r *core.Rand, tier string, idx int) *core.Scenario {
	//                 app sto exp uex cop mov fet sel clo noo chk sea del dla idl don adv cnw cfl cbx cdl prb cvg flp
	weights := []int{10, 10, 5, 2, 5, 5, 4, 2, 1, 4, 1, 2, 12, 2, 3, 3, 2, 3, 3, 3, 2, 8, 0, 3}
	return genGated(r, "C01", weights, 25, 70)
}

// probeView asks the server for the whole view and compares it with the mirror as it
// stood when the probe was sent.
func probeView(g *Gated, si int, oracle string) {
	e := g.E
	s := g.Sess[si]
	if s.C.Dead || s.InIdle || g.Sel[si] < 0 || e.Failed() {
		return
	}
	before := copyEntries(s.M.Msgs)
	r := s.Cmd("FETCH 1:* (UID FLAGS)")
	e.St.Checks++
	e.Tr.Event("probe", si, len(before), r.Status)
	g.after(si, "probe", before, r)
	if e.Failed() || r.Bye || r.Closed {
		return
	}
	if r.Err != nil {
		e.Fail("protocol", "probe: %v", r.Err)
		return
	}
	seen := make([]bool, len(before))
	for _, l := range r.Lines {
		n, kw, ok := l.Num()
		if !ok {
			continue
		}
		if kw == "EXISTS" || kw == "EXPUNGE" {
			break // what follows is the flush after the data
		}
		if kw != "FETCH" {
			continue
		}
		if int(n) < 1 || int(n) > len(before) {
			e.Fail(oracle, "probe of %s answered with sequence number %d but the client was told the mailbox has %d messages", s.Label, n, len(before))
			return
		}
		if seen[n-1] {
			continue // a later, unsolicited FETCH for the same message
		}
		seen[n-1] = true
		fd, err := wire.ParseFetch(l)
		if err != nil {
			e.Fail("protocol", "probe: %v", err)
			return
		}
		b := before[n-1]
		if !fd.HasUID || !fd.HasFlags {
			e.Fail(oracle, "probe line for %d lacks UID or FLAGS: %s", n, wire.Abridge(l.Raw))
			return
		}
		if b.UID != 0 && b.UID != fd.UID {
			e.Fail(oracle, "%s was told sequence number %d is UID %d, the server now answers UID %d", s.Label, n, b.UID, fd.UID)
			return
		}
		if b.FlagsKnown && !wire.FlagsEqual(b.Flags, fd.Flags) {
			e.Fail(oracle, "%s was told message %d (UID %d) has flags (%s), the server now answers (%s) without having announced a change", s.Label, n, fd.UID, strings.Join(b.Flags, " "), strings.Join(fd.Flags, " "))
			return
		}
	}
	if len(before) > 0 {
		if !r.OK() {
			e.Fail(oracle, "probe FETCH 1:* of %s with %d announced messages answered %s %s", s.Label, len(before), r.Status, r.Text)
			return
		}
		for i, ok := range seen {
			if !ok {
				e.Fail(oracle, "%s was told the mailbox has %d messages but the server's answer has no message %d", s.Label, len(before), i+1)
				return
			}
		}
	}
}

func (C01) Execute(sc *core.Scenario, keepLog bool) *core.Result {
	return RunInBubble("C01", sc, keepLog, gatedWorldCfg(sc), func(e *Env) {
		e.W.Users[0].Conn.MoveRemovesSource = sc.C("labels") == 0
		g := NewGated(e, max(2, sc.C("nsess")), max(2, sc.C("nbox")))
		if e.Failed() {
			return
		}
		defer g.Diagnose()
		cross := 0
		for i, a := range sc.Actions {
			e.Step = i + 1
			switch a.K {
			case "probe":
				si, _ := g.sess(a)
				probeView(g, si, "view")
			case "converge":
			default:
				if g.ExecG(a) && (a.K == "deliver" || a.K == "deliverall") {
					cross++
				}
				// tape-chosen probe of the acting session
				if a.Arg(7)%3 == 0 && !strings.HasPrefix(a.K, "conn.") {
					si, _ := g.sess(a)
					probeView(g, si, "view")
				}
			}
			if e.Failed() {
				return
			}
		}
		e.Step = len(sc.Actions) + 1
		e.W.ReleaseAll()
		g.EndAllIdle()
		for i := range g.Sess {
			probeView(g, i, "view")
			if !e.Failed() && !g.Sess[i].C.Dead && g.Sel[i] >= 0 {
				g.Sess[i].Cmd("NOOP")
				g.streamViol(g.Sess[i])
				probeView(g, i, "view")
			}
		}
		e.St.Nontrivial = cross > 0 && g.OKs >= 3
	})
}

// ---- C02 ----

// C02 — at quiescence every session's view converges to the authoritative mailbox.
type C02 struct{}

func (C02) ID() string { return "C02" }

func (C02) Generate(r *core.Rand, tier string, idx int) *core.Scenario {
	//                 app sto exp uex cop mov fet sel clo noo chk sea del dla idl don adv cnw cfl cbx cdl prb cvg flp
	weights := []int{10, 10, 6, 2, 6, 6, 3, 1, 1, 4, 1, 1, 12, 2, 2, 2, 1, 4, 4, 4, 3, 0, 4, 4}
	return genGated(r, "C02", weights, 20, 60)
}

// converge delivers everything, lets every session flush with NOOP and compares each
// view with the mailbox as a newly opened session sees it.
func converge(g *Gated, oracle string) {
	e := g.E
	e.W.ReleaseAll()
	g.EndAllIdle()
	e.Tr.Event("converge")
	auth := map[string][]model.Row{}
	for i, s := range g.Sess {
		if s.C.Dead || g.Sel[i] < 0 || e.Failed() {
			continue
		}
		before := copyEntries(s.M.Msgs)
		r := s.Cmd("NOOP")
		g.after(i, "noop", before, r)
		if s.C.Dead || e.Failed() {
			continue
		}
		name := g.Boxes[g.Sel[i]]
		n := s.M.Count()
		view := make([]model.Row, n)
		if n > 0 {
			r = s.Cmd("FETCH 1:* (UID FLAGS)")
			if !r.OK() {
				e.Fail(oracle, "observer %s: FETCH 1:* over %d announced messages answered %s %s", s.Label, n, r.Status, r.Text)
				return
			}
			got := 0
			for _, l := range r.Lines {
				if _, kw, ok := l.Num(); ok && kw == "FETCH" {
					fd, err := wire.ParseFetch(l)
					if err != nil || int(fd.Seq) < 1 || int(fd.Seq) > n {
						e.Fail("protocol", "observer fetch: %v", err)
						return
					}
					view[fd.Seq-1] = model.Row{UID: fd.UID, Flags: fd.Flags}
					got++
				}
			}
			g.streamViol(s)
			if got < n {
				e.Fail(oracle, "observer %s: FETCH 1:* returned %d lines for %d announced messages", s.Label, got, n)
				return
			}
		}
		rows, ok := auth[name]
		if !ok {
			var err error
			rows, _, _, err = e.AuthRead(0, name, false)
			if err != nil {
				e.Fail(oracle, "authoritative read of %q failed: %v", name, err)
				return
			}
			auth[name] = rows
		}
		e.St.Checks++
		if d := diffView(s.Label, name, view, rows); d != "" {
			e.Fail(oracle, "%s", d)
			return
		}
	}
}

func diffView(label, name string, view, auth []model.Row) string {
	uids := func(rs []model.Row) string {
		p := make([]string, len(rs))
		for i, r := range rs {
			p[i] = fmt.Sprint(r.UID)
		}
		return "[" + strings.Join(p, " ") + "]"
	}
	if len(view) != len(auth) {
		return fmt.Sprintf("after delivery of all updates and NOOP, %s sees UIDs %s in %q but a new session sees %s", label, uids(view), name, uids(auth))
	}
	for i := range view {
		if view[i].UID != auth[i].UID {
			return fmt.Sprintf("after delivery of all updates and NOOP, %s sees UIDs %s in %q but a new session sees %s", label, uids(view), name, uids(auth))
		}
	}
	for i := range view {
		if !wire.FlagsEqual(view[i].Flags, auth[i].Flags) {
			return fmt.Sprintf("after delivery of all updates and NOOP, %s sees UID %d of %q with flags (%s) but a new session sees (%s)", label, view[i].UID, name, strings.Join(view[i].Flags, " "), strings.Join(auth[i].Flags, " "))
		}
	}
	return ""
}

func (C02) Execute(sc *core.Scenario, keepLog bool) *core.Result {
	return RunInBubble("C02", sc, keepLog, gatedWorldCfg(sc), func(e *Env) {
		e.W.Users[0].Conn.MoveRemovesSource = sc.C("labels") == 0
		g := NewGated(e, max(2, sc.C("nsess")), max(2, sc.C("nbox")))
		if e.Failed() {
			return
		}
		defer g.Diagnose()
		cross := 0
		for i, a := range sc.Actions {
			e.Step = i + 1
			switch a.K {
			case "converge":
				converge(g, "convergence")
			case "probe":
			default:
				if g.ExecG(a) && (a.K == "deliver" || a.K == "deliverall") {
					cross++
				}
			}
			if e.Failed() {
				return
			}
		}
		e.Step = len(sc.Actions) + 1
		converge(g, "convergence")
		e.St.Nontrivial = cross > 0 && g.OKs >= 3
	})
}
