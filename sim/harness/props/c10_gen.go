package props

// C10 generator: one pass over the IMAP command grammar builds, for one abstract
// command, (1) the expected command.Command value -- constructed directly from the
// chosen structure, never by parsing -- and (2) one wire encoding of it.
//
// Two independent choice sources drive it:
//   - c10Choices ("structure"): the integers of Action.A[2:].  They fix WHAT is said:
//     the command, its arguments, every string value, number, date, flag spelling.
//     Any integer list is accepted: a missing integer reads as 0, every integer is
//     taken modulo the number of alternatives, and alternative 0 is always the
//     simplest, non-recursive one, so deleting/zeroing/halving integers (the generic
//     shrinker) always leaves a valid, smaller command.
//   - c10Enc ("encoding"): a stream seeded by Action.A[0].  It fixes HOW it is said:
//     atom / quoted / literal per string argument, letter case of every keyword
//     character, leading zeros of `number`s, "d" vs "dd" vs " d" days, quoted or bare
//     dates.  Seed 0 = canonical encoding (first alternative everywhere).
// The expected value depends on the structure only, so the same structure under every
// encoding seed must parse to the same value.

import (
	"strconv"
	"strings"
	"time"

	"github.com/ProtonMail/gluon/imap/command"

	"verifharness/core"
)

// ---------------------------------------------------------------- choice sources

type c10Choices struct {
	a []int
	i int
	r *core.Rand // generation mode: draw and record
}

// raw returns a value in [0,k).
func (c *c10Choices) raw(k int) int {
	if k < 1 {
		k = 1
	}
	var v int
	switch {
	case c.i < len(c.a):
		v = c.a[c.i]
	case c.r != nil:
		v = int(c.r.U64() % uint64(k))
		c.a = append(c.a, v)
	}
	c.i++
	if v < 0 {
		v = -v
		if v < 0 {
			v = 0
		}
	}
	return v % k
}

// w picks an index by weight; a zero integer picks index 0.
func (c *c10Choices) w(weights ...int) int {
	t := 0
	for _, x := range weights {
		t += x
	}
	k := c.raw(t)
	for i, x := range weights {
		if k < x {
			return i
		}
		k -= x
	}
	return len(weights) - 1
}

// p is true with probability num/den; a zero integer gives false.
func (c *c10Choices) p(num, den int) bool { return c.raw(den) >= den-num }

type c10Enc struct{ r *core.Rand }

func (e *c10Enc) n(k int) int {
	if e == nil || e.r == nil || k <= 1 {
		return 0
	}
	return e.r.Intn(k)
}

// ---------------------------------------------------------------- generator state

// cut classes: positions inside a command where a network fragment boundary is
// "interesting".
const (
	c10CutKeyword   = iota // inside a keyword
	c10CutCRLF             // between the final CR and LF
	c10CutLitHdr           // inside "{n}" or between "}" and CR
	c10CutLitHdrEOL        // between CR and LF of a literal header
	c10CutInLit            // inside literal data
	c10CutAfterLit         // right after the last literal byte
	c10CutQuoted           // inside a quoted string (incl. between "\" and the escaped char)
	c10CutNumber           // inside a number / sequence set / date
	c10NumCutClasses
)

var c10CutNames = [...]string{"cut_in_keyword", "cut_between_cr_lf", "cut_in_literal_header", "cut_in_literal_header_crlf", "cut_in_literal", "cut_right_after_literal", "cut_in_quoted", "cut_in_number"}

type c10Mark struct{ pos, class int }

type c10Knobs struct {
	lit0     bool // allow empty strings to be sent as {0} literals / empty APPEND literal
	lbracket bool // allow "[" inside atoms (valid ATOM-CHAR per RFC 3501)
	donetag  bool // allow the tag "done" (any case) on ordinary commands
	listlit  bool // allow the list-mailbox argument of LIST/LSUB to be sent as a literal
	syskw    bool // keywords spelled like system flags without the backslash (Recent, Seen, ...)
}

type c10Gen struct {
	c     *c10Choices
	e     *c10Enc
	k     c10Knobs
	out   []byte
	gates []int // offsets of the first byte after each "{n}\r\n"
	marks []c10Mark
	nodes int
	kind  string
	// facts about what was generated (probes)
	nLit, nQuoted, nAtom, nEsc, n8bit int
	searchDepth                       int
	litInNested                       bool
	litInSection                      bool
	uidForm                           bool
}

func newC10Gen(c *c10Choices, e *c10Enc, k c10Knobs) *c10Gen {
	return &c10Gen{c: c, e: e, k: k}
}

func (g *c10Gen) mark(class int) { g.marks = append(g.marks, c10Mark{len(g.out), class}) }

// ---------------------------------------------------------------- lexical emitters

func (g *c10Gen) raw(s string) { g.out = append(g.out, s...) }
func (g *c10Gen) sp()          { g.out = append(g.out, ' ') }

// kw writes a keyword with per-character letter case from the encoding stream.
func (g *c10Gen) kw(s string) {
	cut := -1
	if len(s) > 1 {
		cut = 1 + g.e.n(len(s)-1)
	}
	for i := 0; i < len(s); i++ {
		b := s[i]
		if i == cut {
			g.mark(c10CutKeyword)
		}
		if (b >= 'A' && b <= 'Z') || (b >= 'a' && b <= 'z') {
			if g.e.n(2) == 1 {
				b ^= 0x20
			}
		}
		g.out = append(g.out, b)
	}
}

// num writes a number; lz allows leading zeros (grammar rule `number`, not `nz-number`).
func (g *c10Gen) num(n int, lz bool) {
	s := strconv.Itoa(n)
	if lz && g.e.n(4) == 3 {
		s = strings.Repeat("0", 1+g.e.n(3)) + s
	}
	if len(s) > 1 {
		g.out = append(g.out, s[0])
		g.mark(c10CutNumber)
		g.out = append(g.out, s[1:]...)
		return
	}
	g.raw(s)
}

const c10AtomSafe = "abcdefghijklmnopqrstuvwxyzABCDEFGHIJKLMNOPQRSTUVWXYZ0123456789!#$&'+,-./:;<=>?@^_`|}~"

func c10IsAtomSafe(b byte) bool { return strings.IndexByte(c10AtomSafe, b) >= 0 }

// canAtom: may v be written as a bare atom at a position whose extra allowed
// characters are `extra` ("]" for astring, "%*]" for list-mailbox)?
func (g *c10Gen) canAtom(v string, extra string) bool {
	if v == "" {
		return false
	}
	for i := 0; i < len(v); i++ {
		b := v[i]
		if c10IsAtomSafe(b) || strings.IndexByte(extra, b) >= 0 {
			continue
		}
		if b == '[' && g.k.lbracket {
			continue
		}
		return false
	}
	return true
}

func c10CanQuoted(v string) bool {
	for i := 0; i < len(v); i++ {
		b := v[i]
		if b == 0 || b >= 0x80 || b == '\r' || b == '\n' {
			return false
		}
	}
	return true
}

func (g *c10Gen) quoted(v string) {
	g.nQuoted++
	g.out = append(g.out, '"')
	marked := false
	for i := 0; i < len(v); i++ {
		b := v[i]
		if b == '"' || b == '\\' {
			g.out = append(g.out, '\\')
			g.mark(c10CutQuoted)
			marked = true
			g.nEsc++
		} else if !marked && i > 0 {
			g.mark(c10CutQuoted)
			marked = true
		}
		g.out = append(g.out, b)
	}
	g.out = append(g.out, '"')
}

func (g *c10Gen) literal(v []byte) {
	g.nLit++
	g.out = append(g.out, '{')
	g.mark(c10CutLitHdr)
	g.num(len(v), true)
	if g.e.n(2) == 1 {
		g.mark(c10CutLitHdr)
	}
	g.out = append(g.out, '}')
	if g.e.n(2) == 1 {
		g.mark(c10CutLitHdr)
	}
	g.out = append(g.out, '\r')
	g.mark(c10CutLitHdrEOL)
	g.out = append(g.out, '\n')
	g.gates = append(g.gates, len(g.out))
	if len(v) > 1 {
		k := 1 + g.e.n(len(v)-1)
		g.out = append(g.out, v[:k]...)
		g.mark(c10CutInLit)
		g.out = append(g.out, v[k:]...)
	} else {
		g.out = append(g.out, v...)
	}
	g.mark(c10CutAfterLit)
	for _, b := range v {
		if b >= 0x80 {
			g.n8bit++
			break
		}
	}
}

// str writes v in one of the encodings the position allows.
//
//	atomExtra != "-" : atom allowed (astring / list-mailbox), with those extra characters
//	atomExtra == "-" : `string` position: quoted or literal only
func (g *c10Gen) str(v string, atomExtra string) { g.strEnc(v, atomExtra, true) }

func (g *c10Gen) strEnc(v string, atomExtra string, litOK bool) {
	type encoding int
	var cands [3]encoding
	n := 0
	if atomExtra != "-" && g.canAtom(v, atomExtra) {
		cands[n] = 0
		n++
	}
	if c10CanQuoted(v) {
		cands[n] = 1
		n++
	}
	if (litOK && (v != "" || g.k.lit0)) || n == 0 {
		cands[n] = 2
		n++
	}
	switch cands[g.e.n(n)] {
	case 0:
		g.nAtom++
		if len(v) > 1 {
			g.out = append(g.out, v[0])
			g.mark(c10CutKeyword)
			g.out = append(g.out, v[1:]...)
		} else {
			g.raw(v)
		}
	case 1:
		g.quoted(v)
	default:
		g.literal([]byte(v))
	}
}

func (g *c10Gen) astring(v string) { g.str(v, "]") }

// ---------------------------------------------------------------- value generators

func (g *c10Gen) seeded(n int, alpha func(r *core.Rand) byte, first byte) string {
	seed := g.c.raw(1 << 30)
	b := make([]byte, n)
	if seed == 0 {
		for i := range b {
			b[i] = first
		}
		return string(b)
	}
	r := core.NewRand(uint64(seed))
	for i := range b {
		b[i] = alpha(r)
	}
	return string(b)
}

func (g *c10Gen) strLen() int {
	switch g.c.w(20, 6, 1, 1) {
	case 0:
		return 1 + g.c.raw(12)
	case 1:
		return 13 + g.c.raw(40)
	case 2:
		return 0
	default:
		return 60 + g.c.raw(400)
	}
}

// strVal makes a string value; extra are additional characters of the "atomish" class.
func (g *c10Gen) strVal(extra string) string {
	class := g.c.w(10, 6, 2, 3)
	n := g.strLen()
	switch class {
	case 0:
		al := c10AtomSafe + extra
		if g.k.lbracket {
			al += "[["
		}
		return g.seeded(n, func(r *core.Rand) byte { return al[r.Intn(len(al))] }, 'a')
	case 1:
		return g.seeded(n, func(r *core.Rand) byte {
			switch r.Intn(6) {
			case 0:
				return " \"\\(){%*]["[r.Intn(10)]
			default:
				return byte(0x20 + r.Intn(0x5f))
			}
		}, ' ')
	case 2:
		return g.seeded(n, func(r *core.Rand) byte {
			for {
				b := byte(1 + r.Intn(0x7f))
				if b != '\r' && b != '\n' {
					return b
				}
			}
		}, '\t')
	default:
		return g.seeded(n, func(r *core.Rand) byte {
			switch r.Intn(8) {
			case 0:
				return '\r'
			case 1:
				return '\n'
			default:
				return byte(1 + r.Intn(0xff))
			}
		}, 0xe9)
	}
}

// atomVal makes a non-empty atom (flag keywords etc.).
func (g *c10Gen) atomVal() string {
	n := 1 + g.c.raw(10)
	al := c10AtomSafe
	if g.k.lbracket {
		al += "[["
	}
	return g.seeded(n, func(r *core.Rand) byte { return al[r.Intn(len(al))] }, 'k')
}

var c10Inboxish = []string{"INBOX", "inbox", "InBoX", "iNbOx", "INBOX/sub", "Inboxes", "INBO", "&AOk-cole", "Archive/2023", "Sent Items", "a.b.c"}

// mailboxVal returns (as written, as expected).
func (g *c10Gen) mailboxVal() (string, string) {
	var v string
	if g.c.w(3, 2) == 0 {
		v = g.strVal("]")
	} else {
		v = c10Inboxish[g.c.raw(len(c10Inboxish))]
	}
	if strings.EqualFold(v, "INBOX") {
		// RFC 3501: "INBOX" is case-insensitive; the canonical spelling is expected.
		return v, "INBOX"
	}
	return v, v
}

func (g *c10Gen) mailbox() string {
	w, exp := g.mailboxVal()
	g.astring(w)
	return exp
}

var c10SeqEdges = []int{4294967295, 4294967294, 2147483648, 2147483647, 65536, 1000000000}

func (g *c10Gen) seqNum() command.SeqNum {
	var n int
	switch g.c.w(10, 3, 3, 2) {
	case 0:
		n = 1 + g.c.raw(20)
	case 1:
		g.raw("*")
		return command.SeqNumValueAsterisk
	case 2:
		n = 1 + g.c.raw(100000)
	default:
		n = c10SeqEdges[g.c.raw(len(c10SeqEdges))]
	}
	g.num(n, false)
	return command.SeqNum(n)
}

func (g *c10Gen) seqSet() []command.SeqRange {
	n := 1 + g.c.w(10, 5, 3, 1, 1)
	if n == 5 {
		n = 5 + g.c.raw(20)
	}
	var out []command.SeqRange
	for i := 0; i < n; i++ {
		if i > 0 {
			g.raw(",")
		}
		b := g.seqNum()
		if g.c.p(1, 2) {
			g.raw(":")
			e := g.seqNum()
			out = append(out, command.SeqRange{Begin: b, End: e})
		} else {
			out = append(out, command.SeqRange{Begin: b, End: b})
		}
	}
	return out
}

var c10SysFlags = []string{`\Seen`, `\Answered`, `\Flagged`, `\Deleted`, `\Draft`, `\Extension`, `$Forwarded`, `$MDNSent`, `NonJunk`}

func c10Recase(s string, mode int, seed uint64) string {
	b := []byte(s)
	r := core.NewRand(seed)
	for i, c := range b {
		isL := (c >= 'A' && c <= 'Z') || (c >= 'a' && c <= 'z')
		if !isL {
			continue
		}
		switch mode {
		case 1:
			b[i] = c | 0x20
		case 2:
			b[i] = c &^ 0x20
		case 3:
			if r.Intn(2) == 1 {
				b[i] = c ^ 0x20
			}
		}
	}
	return string(b)
}

// flag: the parser keeps the spelling of a flag, so the spelling is structure.
func (g *c10Gen) flag() string {
	var f string
	switch g.c.w(6, 2, 1) {
	case 0:
		f = c10SysFlags[g.c.raw(len(c10SysFlags))]
		mode := g.c.raw(4)
		f = c10Recase(f, mode, uint64(g.c.raw(1<<20)))
	case 1:
		f = g.atomVal()
		if g.k.syskw && len(f)%2 == 0 {
			// a keyword may be spelled like a system flag without its backslash: it is an
			// ordinary atom (no new choice is drawn: the atom just made picks the word)
			h := 0
			for _, c := range []byte(f) {
				h = h*31 + int(c)
			}
			f = c10Recase([]string{"Recent", "Seen", "Deleted", "Answered", "Flagged", "Draft"}[h%6], h/6%4, uint64(h))
		}
	default:
		f = `\` + g.atomVal()
		if strings.EqualFold(f, `\Recent`) {
			f = `\Recentx`
		}
	}
	g.raw(f)
	return f
}

func (g *c10Gen) flagsInner(minN int) []string {
	n := minN + g.c.w(6, 5, 3, 2, 1)
	var out []string
	for i := 0; i < n; i++ {
		if i > 0 {
			g.sp()
		}
		out = append(out, g.flag())
	}
	return out
}

func (g *c10Gen) flagList() []string {
	g.raw("(")
	f := g.flagsInner(0)
	g.raw(")")
	return f
}

var c10Months = []string{"Jan", "Feb", "Mar", "Apr", "May", "Jun", "Jul", "Aug", "Sep", "Oct", "Nov", "Dec"}
var c10MonthDays = []int{31, 28, 31, 30, 31, 30, 31, 31, 30, 31, 30, 31}

func (g *c10Gen) ymd() (int, int, int) {
	var y int
	switch g.c.w(10, 2, 1) {
	case 0:
		y = 1990 + g.c.raw(50)
	case 1:
		y = 1000 + g.c.raw(9000)
	default:
		y = []int{1, 999, 9999, 1970, 2000, 100}[g.c.raw(6)]
	}
	m := g.c.raw(12)
	d := 1 + g.c.raw(c10MonthDays[m])
	return y, m, d
}

func (g *c10Gen) year4(y int) {
	s := strconv.Itoa(y)
	g.raw(strings.Repeat("0", 4-len(s)) + s)
}

func (g *c10Gen) two(n int) {
	g.out = append(g.out, byte('0'+n/10), byte('0'+n%10))
}

// date = date-text / DQUOTE date-text DQUOTE ; date-day = 1*2DIGIT
func (g *c10Gen) date() time.Time {
	y, m, d := g.ymd()
	q := g.e.n(2) == 1
	if q {
		g.raw(`"`)
	}
	if d < 10 && g.e.n(2) == 0 {
		g.out = append(g.out, byte('0'+d))
	} else {
		g.two(d)
	}
	g.raw("-")
	g.mark(c10CutNumber)
	g.kw(c10Months[m])
	g.raw("-")
	g.year4(y)
	if q {
		g.raw(`"`)
	}
	return time.Date(y, time.Month(m+1), d, 0, 0, 0, 0, time.UTC)
}

// date-time = DQUOTE date-day-fixed "-" date-month "-" date-year SP time SP zone DQUOTE
func (g *c10Gen) dateTime() time.Time {
	y, m, d := g.ymd()
	hh, mm, ss := g.c.raw(24), g.c.raw(60), g.c.raw(60)
	zh, zm := g.c.raw(15), []int{0, 30, 45, 15, 59}[g.c.raw(5)]
	neg := g.c.p(1, 2)
	g.raw(`"`)
	if d < 10 && g.e.n(2) == 0 {
		g.out = append(g.out, ' ', byte('0'+d))
	} else {
		g.two(d)
	}
	g.raw("-")
	g.kw(c10Months[m])
	g.raw("-")
	g.year4(y)
	g.sp()
	g.two(hh)
	g.raw(":")
	g.mark(c10CutNumber)
	g.two(mm)
	g.raw(":")
	g.two(ss)
	g.sp()
	off := zh*3600 + zm*60
	if neg {
		g.raw("-")
		off = -off
	} else {
		g.raw("+")
	}
	g.two(zh)
	g.two(zm)
	g.raw(`"`)
	return time.Date(y, time.Month(m+1), d, hh, mm, ss, 0, time.FixedZone("zone", off))
}

// ---------------------------------------------------------------- FETCH

var c10HeaderNames = []string{"From", "To", "Subject", "Message-ID", "Date", "X-Sim-Marker", "content-type", "CC", "In-Reply-To", "References"}

func (g *c10Gen) headerList() []string {
	n := 1 + g.c.w(6, 4, 2, 1)
	var out []string
	g.raw("(")
	for i := 0; i < n; i++ {
		if i > 0 {
			g.sp()
		}
		var v string
		if g.c.w(4, 1) == 0 {
			v = c10HeaderNames[g.c.raw(len(c10HeaderNames))]
		} else {
			v = g.strVal("]")
		}
		before := g.nLit
		g.astring(v)
		if g.nLit > before {
			g.litInSection = true
		}
		out = append(out, v)
	}
	g.raw(")")
	return out
}

// msgText: section-msgtext (withMIME adds "MIME" for section-text).
func (g *c10Gen) msgText(withMIME bool) command.BodySection {
	k := g.c.w(4, 4, 3, 3, 2)
	if k == 4 && !withMIME {
		k = 0
	}
	switch k {
	case 0:
		g.kw("HEADER")
		return &command.BodySectionHeader{}
	case 1:
		g.kw("TEXT")
		return &command.BodySectionText{}
	case 2:
		g.kw("HEADER.FIELDS")
		g.sp()
		return &command.BodySectionHeaderFields{Negate: false, Fields: g.headerList()}
	case 3:
		g.kw("HEADER.FIELDS.NOT")
		g.sp()
		return &command.BodySectionHeaderFields{Negate: true, Fields: g.headerList()}
	default:
		g.kw("MIME")
		return &command.BodySectionMIME{}
	}
}

func (g *c10Gen) section() command.BodySection {
	switch g.c.w(4, 4, 4) {
	case 0:
		return nil
	case 1:
		return g.msgText(false)
	default:
		n := 1 + g.c.w(6, 4, 2, 1)
		var part []int
		for i := 0; i < n; i++ {
			if i > 0 {
				g.raw(".")
			}
			v := 1 + g.c.raw(12)
			if g.c.p(1, 10) {
				v = c10SeqEdges[g.c.raw(len(c10SeqEdges))]
			}
			g.num(v, false)
			part = append(part, v)
		}
		var sub command.BodySection
		if g.c.p(1, 2) {
			g.raw(".")
			sub = g.msgText(true)
		}
		return &command.BodySectionPart{Part: part, Section: sub}
	}
}

func (g *c10Gen) fetchAttr() command.FetchAttribute {
	switch g.c.w(4, 4, 2, 2, 2, 2, 2, 2, 2, 2, 8, 8) {
	case 0:
		g.kw("FLAGS")
		return &command.FetchAttributeFlags{}
	case 1:
		g.kw("UID")
		return &command.FetchAttributeUID{}
	case 2:
		g.kw("ENVELOPE")
		return &command.FetchAttributeEnvelope{}
	case 3:
		g.kw("INTERNALDATE")
		return &command.FetchAttributeInternalDate{}
	case 4:
		g.kw("BODYSTRUCTURE")
		return &command.FetchAttributeBodyStructure{}
	case 5:
		g.kw("RFC822")
		return &command.FetchAttributeRFC822{}
	case 6:
		g.kw("RFC822.HEADER")
		return &command.FetchAttributeRFC822Header{}
	case 7:
		g.kw("RFC822.SIZE")
		return &command.FetchAttributeRFC822Size{}
	case 8:
		g.kw("RFC822.TEXT")
		return &command.FetchAttributeRFC822Text{}
	case 9:
		g.kw("BODY")
		return &command.FetchAttributeBody{}
	case 10:
		g.kw("BODY")
		return g.bodySection(false)
	default:
		g.kw("BODY.PEEK")
		return g.bodySection(true)
	}
}

func (g *c10Gen) bodySection(peek bool) command.FetchAttribute {
	g.raw("[")
	s := g.section()
	g.raw("]")
	var partial *command.BodySectionPartial
	if g.c.p(1, 3) {
		var off, cnt int
		switch g.c.w(6, 2, 1) {
		case 0:
			off, cnt = g.c.raw(2000), 1+g.c.raw(5000)
		case 1:
			off, cnt = 0, 1+g.c.raw(100)
		default:
			off, cnt = c10SeqEdges[g.c.raw(len(c10SeqEdges))], c10SeqEdges[g.c.raw(len(c10SeqEdges))]
		}
		g.raw("<")
		g.num(off, true)
		g.raw(".")
		g.num(cnt, false)
		g.raw(">")
		partial = &command.BodySectionPartial{Offset: int64(off), Count: int64(cnt)}
	}
	return &command.FetchAttributeBodySection{Section: s, Peek: peek, Partial: partial}
}

func (g *c10Gen) fetch() command.Payload {
	g.kw("FETCH")
	g.sp()
	set := g.seqSet()
	g.sp()
	var attrs []command.FetchAttribute
	switch g.c.w(3, 5, 8) {
	case 0:
		switch g.c.raw(3) {
		case 0:
			g.kw("ALL")
			attrs = []command.FetchAttribute{&command.FetchAttributeAll{}}
		case 1:
			g.kw("FAST")
			attrs = []command.FetchAttribute{&command.FetchAttributeFast{}}
		default:
			g.kw("FULL")
			attrs = []command.FetchAttribute{&command.FetchAttributeFull{}}
		}
	case 1:
		attrs = []command.FetchAttribute{g.fetchAttr()}
	default:
		n := 1 + g.c.w(4, 5, 4, 3, 2, 1, 1)
		g.raw("(")
		for i := 0; i < n; i++ {
			if i > 0 {
				g.sp()
			}
			attrs = append(attrs, g.fetchAttr())
		}
		g.raw(")")
	}
	return &command.Fetch{SeqSet: set, Attributes: attrs}
}

// ---------------------------------------------------------------- SEARCH

const c10MaxSearchDepth = 6
const c10MaxSearchNodes = 40

func (g *c10Gen) searchAString(depth int) string {
	g.sp()
	v := g.strVal("]")
	before := g.nLit
	g.astring(v)
	if g.nLit > before && depth >= 2 {
		g.litInNested = true
	}
	return v
}

func (g *c10Gen) searchKey(depth int) command.SearchKey {
	if depth > g.searchDepth {
		g.searchDepth = depth
	}
	g.nodes++
	leafOnly := depth >= c10MaxSearchDepth || g.nodes >= c10MaxSearchNodes
	//         flag-ish  astring  date  size  header  kw  seq  uid  NOT OR  list
	k := g.c.w(6, 8, 5, 3, 3, 2, 3, 2, 5, 5, 4)
	if leafOnly && k >= 8 {
		k = 0
	}
	switch k {
	case 0:
		names := []string{"ALL", "ANSWERED", "DELETED", "FLAGGED", "NEW", "OLD", "RECENT", "SEEN", "UNANSWERED", "UNDELETED", "UNFLAGGED", "UNSEEN", "DRAFT", "UNDRAFT"}
		i := g.c.raw(len(names))
		g.kw(names[i])
		return []command.SearchKey{&command.SearchKeyAll{}, &command.SearchKeyAnswered{}, &command.SearchKeyDeleted{}, &command.SearchKeyFlagged{}, &command.SearchKeyNew{}, &command.SearchKeyOld{}, &command.SearchKeyRecent{}, &command.SearchKeySeen{}, &command.SearchKeyUnanswered{}, &command.SearchKeyUndeleted{}, &command.SearchKeyUnflagged{}, &command.SearchKeyUnseen{}, &command.SearchKeyDraft{}, &command.SearchKeyUndraft{}}[i]
	case 1:
		names := []string{"SUBJECT", "BCC", "BODY", "CC", "FROM", "TEXT", "TO"}
		i := g.c.raw(len(names))
		g.kw(names[i])
		v := g.searchAString(depth)
		switch i {
		case 0:
			return &command.SearchKeySubject{Value: v}
		case 1:
			return &command.SearchKeyBCC{Value: v}
		case 2:
			return &command.SearchKeyBody{Value: v}
		case 3:
			return &command.SearchKeyCC{Value: v}
		case 4:
			return &command.SearchKeyFrom{Value: v}
		case 5:
			return &command.SearchKeyText{Value: v}
		default:
			return &command.SearchKeyTo{Value: v}
		}
	case 2:
		names := []string{"BEFORE", "ON", "SINCE", "SENTBEFORE", "SENTON", "SENTSINCE"}
		i := g.c.raw(len(names))
		g.kw(names[i])
		g.sp()
		t := g.date()
		switch i {
		case 0:
			return &command.SearchKeyBefore{Value: t}
		case 1:
			return &command.SearchKeyOn{Value: t}
		case 2:
			return &command.SearchKeySince{Value: t}
		case 3:
			return &command.SearchKeySentBefore{Value: t}
		case 4:
			return &command.SearchKeySentOn{Value: t}
		default:
			return &command.SearchKeySentSince{Value: t}
		}
	case 3:
		larger := g.c.raw(2) == 0
		var n int
		switch g.c.w(6, 2, 1) {
		case 0:
			n = g.c.raw(100000)
		case 1:
			n = 0
		default:
			n = c10SeqEdges[g.c.raw(len(c10SeqEdges))]
		}
		if larger {
			g.kw("LARGER")
		} else {
			g.kw("SMALLER")
		}
		g.sp()
		g.num(n, true)
		if larger {
			return &command.SearchKeyLarger{Value: n}
		}
		return &command.SearchKeySmaller{Value: n}
	case 4:
		g.kw("HEADER")
		var f string
		g.sp()
		if g.c.w(4, 1) == 0 {
			f = c10HeaderNames[g.c.raw(len(c10HeaderNames))]
		} else {
			f = g.strVal("]")
		}
		before := g.nLit
		g.astring(f)
		if g.nLit > before && depth >= 2 {
			g.litInNested = true
		}
		v := g.searchAString(depth)
		return &command.SearchKeyHeader{Field: f, Value: v}
	case 5:
		un := g.c.raw(2) == 1
		if un {
			g.kw("UNKEYWORD")
		} else {
			g.kw("KEYWORD")
		}
		g.sp()
		v := g.atomVal()
		g.raw(v)
		if un {
			return &command.SearchKeyUnkeyword{Value: v}
		}
		return &command.SearchKeyKeyword{Value: v}
	case 6:
		return &command.SearchKeySeqSet{SeqSet: g.seqSet()}
	case 7:
		g.kw("UID")
		g.sp()
		return &command.SearchKeyUID{SeqSet: g.seqSet()}
	case 8:
		g.kw("NOT")
		g.sp()
		return &command.SearchKeyNot{Key: g.searchKey(depth + 1)}
	case 9:
		g.kw("OR")
		g.sp()
		k1 := g.searchKey(depth + 1)
		g.sp()
		k2 := g.searchKey(depth + 1)
		return &command.SearchKeyOr{Key1: k1, Key2: k2}
	default:
		n := 1 + g.c.w(3, 5, 3, 1)
		g.raw("(")
		var keys []command.SearchKey
		for i := 0; i < n; i++ {
			if i > 0 {
				g.sp()
			}
			keys = append(keys, g.searchKey(depth+1))
		}
		g.raw(")")
		return &command.SearchKeyList{Keys: keys}
	}
}

var c10Charsets = []string{"UTF-8", "US-ASCII", "utf-8", "ISO-8859-1", "us-ascii", "KOI8-R"}

func (g *c10Gen) search() command.Payload {
	g.kw("SEARCH")
	charset := ""
	if g.c.p(1, 4) {
		g.sp()
		g.kw("CHARSET")
		g.sp()
		if g.c.w(5, 1) == 0 {
			charset = c10Charsets[g.c.raw(len(c10Charsets))]
		} else {
			charset = g.strVal("]")
			if charset == "" {
				charset = "x"
			}
		}
		g.astring(charset)
	}
	n := 1 + g.c.w(6, 5, 3, 2, 1)
	var keys []command.SearchKey
	for i := 0; i < n; i++ {
		g.sp()
		keys = append(keys, g.searchKey(1))
	}
	return &command.Search{Charset: charset, Keys: keys}
}

// ---------------------------------------------------------------- the rest

func (g *c10Gen) store() command.Payload {
	g.kw("STORE")
	g.sp()
	set := g.seqSet()
	g.sp()
	var act command.StoreAction
	switch g.c.raw(3) {
	case 0:
		act = command.StoreActionSetFlags
	case 1:
		g.raw("+")
		act = command.StoreActionAddFlags
	default:
		g.raw("-")
		act = command.StoreActionRemFlags
	}
	silent := g.c.p(1, 2)
	if silent {
		g.kw("FLAGS.SILENT")
	} else {
		g.kw("FLAGS")
	}
	g.sp()
	var flags []string
	if g.c.p(1, 3) {
		flags = g.flagsInner(1) // flag *(SP flag)
	} else {
		flags = g.flagList()
	}
	return &command.Store{SeqSet: set, Action: act, Flags: flags, Silent: silent}
}

func (g *c10Gen) copyMove(move bool) command.Payload {
	if move {
		g.kw("MOVE")
	} else {
		g.kw("COPY")
	}
	g.sp()
	set := g.seqSet()
	g.sp()
	mb := g.mailbox()
	if move {
		return &command.Move{SeqSet: set, Mailbox: mb}
	}
	return &command.Copy{SeqSet: set, Mailbox: mb}
}

func (g *c10Gen) appendCmd() command.Payload {
	g.kw("APPEND")
	g.sp()
	mb := g.mailbox()
	g.sp()
	var flags []string
	if g.c.p(1, 2) {
		flags = g.flagList()
		g.sp()
	}
	var dt time.Time
	if g.c.p(1, 2) {
		dt = g.dateTime()
		g.sp()
	}
	var n int
	switch g.c.w(10, 6, 2, 1) {
	case 0:
		n = 1 + g.c.raw(40)
	case 1:
		n = 41 + g.c.raw(500)
	case 2:
		n = 541 + g.c.raw(9000)
	default:
		n = 0
	}
	if n == 0 && !g.k.lit0 {
		n = 1
	}
	body := g.seeded(n, func(r *core.Rand) byte {
		switch r.Intn(12) {
		case 0:
			return '\r'
		case 1:
			return '\n'
		case 2:
			return byte(0x80 + r.Intn(0x80))
		default:
			return byte(0x20 + r.Intn(0x5f))
		}
	}, 'x')
	g.literal([]byte(body))
	return &command.Append{Mailbox: mb, Flags: flags, DateTime: dt, Literal: []byte(body)}
}

func (g *c10Gen) listMailboxVal() string {
	switch g.c.w(4, 3, 3) {
	case 0:
		return []string{"*", "%", "", "INBOX", "inbox", "*/%", "a/%/b", "%]", "Folder/*"}[g.c.raw(9)]
	case 1:
		return g.strVal("%*]")
	default:
		return c10Inboxish[g.c.raw(len(c10Inboxish))]
	}
}

func (g *c10Gen) listLsub(lsub bool) command.Payload {
	if lsub {
		g.kw("LSUB")
	} else {
		g.kw("LIST")
	}
	g.sp()
	var ref, refExp string
	if g.c.w(1, 1) == 0 {
		ref, refExp = "", ""
	} else {
		ref, refExp = g.mailboxVal()
	}
	g.astring(ref)
	g.sp()
	pat := g.listMailboxVal()
	if !g.k.listlit && !c10CanQuoted(pat) {
		// without the knob the pattern must be expressible without a literal
		pat = strings.Map(func(r rune) rune {
			if r == '\r' || r == '\n' || r >= 0x80 {
				return '?'
			}
			return r
		}, pat)
	}
	g.strEnc(pat, "%*]", g.k.listlit)
	if lsub {
		return &command.LSub{Mailbox: refExp, LSubMailbox: pat}
	}
	return &command.List{Mailbox: refExp, ListMailbox: pat}
}

func (g *c10Gen) status() command.Payload {
	g.kw("STATUS")
	g.sp()
	mb := g.mailbox()
	g.sp()
	names := []string{"MESSAGES", "RECENT", "UIDNEXT", "UIDVALIDITY", "UNSEEN"}
	vals := []command.StatusAttribute{command.StatusAttributeMessages, command.StatusAttributeRecent, command.StatusAttributeUIDNext, command.StatusAttributeUIDValidity, command.StatusAttributeUnseen}
	n := 1 + g.c.raw(5)
	var attrs []command.StatusAttribute
	g.raw("(")
	for i := 0; i < n; i++ {
		if i > 0 {
			g.sp()
		}
		j := g.c.raw(5)
		g.kw(names[j])
		attrs = append(attrs, vals[j])
	}
	g.raw(")")
	return &command.Status{Mailbox: mb, Attributes: attrs}
}

func (g *c10Gen) id() command.Payload {
	g.kw("ID")
	g.sp()
	if g.c.w(1, 3) == 0 {
		g.kw("NIL")
		return &command.IDGet{}
	}
	n := g.c.w(1, 4, 4, 3, 2, 1)
	vals := map[string]string{}
	g.raw("(")
	for i := 0; i < n; i++ {
		if i > 0 {
			g.sp()
		}
		var key string
		if g.c.w(3, 1) == 0 {
			key = []string{"name", "version", "os", "os-version", "vendor", "support-url", "date", "command", "arguments", "environment"}[g.c.raw(10)]
		} else {
			key = g.strVal("")
		}
		// RFC 2971: a field name MUST NOT be sent more than once.
		for {
			dup := false
			for k := range vals {
				if strings.EqualFold(k, key) {
					dup = true
				}
			}
			if !dup {
				break
			}
			key += "x"
		}
		g.str(key, "-")
		g.sp()
		if g.c.p(1, 5) {
			g.kw("NIL")
			vals[key] = "" // the command value has no separate representation for NIL
		} else {
			v := g.strVal("")
			g.str(v, "-")
			vals[key] = v
		}
	}
	g.raw(")")
	return &command.IDSet{Values: vals}
}

const c10TagAlpha = "abcdefghijklmnopqrstuvwxyzABCDEFGHIJKLMNOPQRSTUVWXYZ0123456789!#$&',-./:;<=>?@^_`|}~]"

func (g *c10Gen) tag() string {
	var t string
	switch g.c.w(6, 3, 1) {
	case 0:
		t = "A" + strconv.Itoa(g.c.raw(1000))
	case 1:
		n := 1 + g.c.raw(10)
		al := c10TagAlpha
		if g.k.lbracket {
			al += "[["
		}
		t = g.seeded(n, func(r *core.Rand) byte { return al[r.Intn(len(al))] }, 't')
	default:
		t = []string{"done", "DONE", "Done", "done1", "xdone", "uid", "NIL", "tag"}[g.c.raw(8)]
	}
	if strings.EqualFold(t, "done") && !g.k.donetag {
		t += "0"
	}
	g.raw(t)
	return t
}

var c10CommandNames = []string{
	"NOOP", "CAPABILITY", "LOGOUT", "STARTTLS", "CHECK", "CLOSE", "EXPUNGE", "UNSELECT", "IDLE", "DONE",
	"LOGIN", "SELECT", "EXAMINE", "CREATE", "DELETE", "RENAME", "SUBSCRIBE", "UNSUBSCRIBE", "LIST", "LSUB",
	"STATUS", "APPEND", "ID", "SEARCH", "FETCH", "STORE", "COPY", "MOVE",
	"UID EXPUNGE", "UID SEARCH", "UID FETCH", "UID STORE", "UID COPY", "UID MOVE",
}

var c10CommandWeights = []int{
	1, 1, 1, 1, 1, 1, 1, 1, 1, 2,
	4, 2, 2, 2, 2, 3, 2, 2, 4, 3,
	4, 8, 6, 12, 12, 8, 3, 3,
	2, 8, 8, 5, 2, 2,
}

// command generates one complete command line (with CRLF) and its expected value.
func (g *c10Gen) command() command.Command {
	ci := g.c.w(c10CommandWeights...)
	g.kind = c10CommandNames[ci]
	if g.kind == "DONE" {
		g.kw("DONE")
		g.eol()
		return command.Command{Tag: "", Payload: &command.Done{}}
	}
	tag := g.tag()
	g.sp()
	var p command.Payload
	simple := func(name string, v command.Payload) { g.kw(name); p = v }
	mbox1 := func(name string, mk func(string) command.Payload) {
		g.kw(name)
		g.sp()
		p = mk(g.mailbox())
	}
	uid := func(inner func() command.Payload) {
		g.uidForm = true
		g.kw("UID")
		g.sp()
		p = &command.UID{Command: inner()}
	}
	switch g.kind {
	case "NOOP":
		simple("NOOP", &command.Noop{})
	case "CAPABILITY":
		simple("CAPABILITY", &command.Capability{})
	case "LOGOUT":
		simple("LOGOUT", &command.Logout{})
	case "STARTTLS":
		simple("STARTTLS", &command.StartTLS{})
	case "CHECK":
		simple("CHECK", &command.Check{})
	case "CLOSE":
		simple("CLOSE", &command.Close{})
	case "EXPUNGE":
		simple("EXPUNGE", &command.Expunge{})
	case "UNSELECT":
		simple("UNSELECT", &command.Unselect{})
	case "IDLE":
		simple("IDLE", &command.Idle{})
	case "LOGIN":
		g.kw("LOGIN")
		g.sp()
		u := g.strVal("]")
		g.astring(u)
		g.sp()
		pw := g.strVal("]")
		g.astring(pw)
		p = &command.Login{UserID: u, Password: pw}
	case "SELECT":
		mbox1("SELECT", func(m string) command.Payload { return &command.Select{Mailbox: m} })
	case "EXAMINE":
		mbox1("EXAMINE", func(m string) command.Payload { return &command.Examine{Mailbox: m} })
	case "CREATE":
		mbox1("CREATE", func(m string) command.Payload { return &command.Create{Mailbox: m} })
	case "DELETE":
		mbox1("DELETE", func(m string) command.Payload { return &command.Delete{Mailbox: m} })
	case "SUBSCRIBE":
		mbox1("SUBSCRIBE", func(m string) command.Payload { return &command.Subscribe{Mailbox: m} })
	case "UNSUBSCRIBE":
		mbox1("UNSUBSCRIBE", func(m string) command.Payload { return &command.Unsubscribe{Mailbox: m} })
	case "RENAME":
		g.kw("RENAME")
		g.sp()
		from := g.mailbox()
		g.sp()
		to := g.mailbox()
		p = &command.Rename{From: from, To: to}
	case "LIST":
		p = g.listLsub(false)
	case "LSUB":
		p = g.listLsub(true)
	case "STATUS":
		p = g.status()
	case "APPEND":
		p = g.appendCmd()
	case "ID":
		p = g.id()
	case "SEARCH":
		p = g.search()
	case "FETCH":
		p = g.fetch()
	case "STORE":
		p = g.store()
	case "COPY":
		p = g.copyMove(false)
	case "MOVE":
		p = g.copyMove(true)
	case "UID EXPUNGE":
		g.uidForm = true
		g.kw("UID")
		g.sp()
		g.kw("EXPUNGE")
		g.sp()
		p = &command.UIDExpunge{SeqSet: g.seqSet()}
	case "UID SEARCH":
		uid(g.search)
	case "UID FETCH":
		uid(g.fetch)
	case "UID STORE":
		uid(g.store)
	case "UID COPY":
		uid(func() command.Payload { return g.copyMove(false) })
	case "UID MOVE":
		uid(func() command.Payload { return g.copyMove(true) })
	}
	g.eol()
	return command.Command{Tag: tag, Payload: p}
}

func (g *c10Gen) eol() {
	g.out = append(g.out, '\r')
	g.mark(c10CutCRLF)
	g.out = append(g.out, '\n')
}
