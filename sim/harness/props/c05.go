package props

import (
	"fmt"
	"strings"

	"verifharness/core"
	"verifharness/gen"
	"verifharness/wire"
)

// C05 — no EXPUNGE during FETCH, STORE or SEARCH; removals are announced in order.
type C05 struct{}

func (C05) ID() string { return "C05" }

func (C05) Generate(r *core.Rand, tier string, idx int) *core.Scenario {
	//                 app sto exp uex cop mov fet sel clo noo chk sea del dla idl don adv cnw cfl cbx cdl prb cvg flp
	weights := []int{8, 10, 8, 3, 5, 8, 9, 1, 0, 5, 1, 6, 12, 2, 3, 3, 1, 3, 2, 5, 4, 0, 0, 5}
	sc := genGated(r, "C05", weights, 25, 70)
	// the observer (session 0) mostly reads; make the others the ones that remove
	for i := range sc.Actions {
		a := &sc.Actions[i]
		switch a.K {
		case "expunge", "uidexpunge", "move", "copy", "append":
			if r.P(3, 4) {
				a.S = 1 + r.Intn(sc.Cfg["nsess"]-1)
			}
		case "fetch", "search", "noop":
			if r.P(2, 3) {
				a.S = 0
			}
		case "store":
			if r.P(1, 2) {
				// stores of \Deleted by the others feed the expunges
				a.A[3] = 1
				a.A[4] |= 1 << 4
				a.S = 1 + r.Intn(sc.Cfg["nsess"]-1)
			}
		}
	}
	return sc
}

func isForbidding(kind string) bool {
	switch kind {
	case "fetch", "store", "search", "store-recent", "probe", "markers":
		return true
	}
	return false
}

func (C05) Execute(sc *core.Scenario, keepLog bool) *core.Result {
	return RunInBubble("C05", sc, keepLog, gatedWorldCfg(sc), func(e *Env) {
		e.W.Users[0].Conn.MoveRemovesSource = sc.C("labels") == 0
		g := NewGated(e, max(2, sc.C("nsess")), max(2, sc.C("nbox")))
		if e.Failed() {
			return
		}
		defer g.Diagnose()
		g.PipeAfterDone = true
		cross, held := 0, 0
		var hook func(si int, kind string, before []wire.Entry, r *wire.Result)
		learnMarkers := func(si int) {
			s := g.Sess[si]
			if s.C.Dead || s.InIdle || g.Sel[si] < 0 || e.Failed() {
				return
			}
			lo, hi := 0, 0
			for i, m := range s.M.Msgs {
				if m.Marker == "" {
					if lo == 0 {
						lo = i + 1
					}
					hi = i + 1
				}
			}
			if lo == 0 {
				return
			}
			before := copyEntries(s.M.Msgs)
			r := s.Cmd("FETCH %d:%d (UID BODY.PEEK[HEADER.FIELDS (X-Sim-Marker)])", lo, hi)
			for _, l := range r.Lines {
				if _, kw, ok := l.Num(); ok && kw == "FETCH" {
					fd, err := wire.ParseFetch(l)
					if err != nil {
						continue
					}
					for name, n := range fd.Items {
						if strings.HasPrefix(name, "BODY[") && int(fd.Seq) >= 1 && int(fd.Seq) <= len(s.M.Msgs) {
							s.M.Msgs[fd.Seq-1].Marker = fmt.Sprint(gen.MarkerOf([]byte(n.Str)))
						}
					}
				}
			}
			g.streamViol(s)
			hook(si, "markers", before, r)
			// (4) a message that was removed and put back must not be announced as present
			// before its removal has been announced
			seen := map[string]int{}
			for i, m := range s.M.Msgs {
				if m.Marker == "" || m.Marker == "-1" {
					continue
				}
				if j, dup := seen[m.Marker]; dup {
					e.Fail("readd-order", "%s was told message <%s> is present at sequence number %d while its earlier entry at %d has not been expunged", s.Label, m.Marker, i+1, j+1)
					return
				}
				seen[m.Marker] = i
			}
		}
		hook = func(si int, kind string, before []wire.Entry, r *wire.Result) {
			s := g.Sess[si]
			if !isForbidding(kind) {
				return
			}
			e.St.Checks++
			// (1) never an EXPUNGE while answering FETCH / STORE / SEARCH
			for _, l := range r.Lines {
				if n, kw, ok := l.Num(); ok && kw == "EXPUNGE" {
					e.FailSig("expunge-in-forbidding", kind, "%s received \"* %d EXPUNGE\" while the server was answering a %s command", s.Label, n, strings.ToUpper(kind))
					return
				}
			}
			if strings.Contains(r.Code, "EXPUNGEISSUED") {
				e.St.Probes["expungeissued_seen"]++
				held++
				return
			}
			if !r.OK() || s.C.Dead {
				return
			}
			// (2) nothing is delivered between the command and this NOOP: if the NOOP
			// announces removals they were being held back during the command
			r2 := s.Cmd("NOOP")
			g.streamViol(s)
			n := 0
			for _, l := range r2.Lines {
				if _, kw, ok := l.Num(); ok && kw == "EXPUNGE" {
					n++
				}
			}
			if r2.Bye || r2.Closed {
				s.C.Dead = true
				g.Sel[si] = -1
				return
			}
			if n > 0 {
				e.FailSig("expungeissued-missing", kind, "%s: %s completed without [EXPUNGEISSUED], yet the NOOP sent right after it (nothing delivered in between) announced %d EXPUNGE", s.Label, strings.ToUpper(kind), n)
			}
		}
		g.OnCmd = func(si int, kind string, before []wire.Entry, r *wire.Result) {
			hook(si, kind, before, r)
			if si == 0 && !e.Failed() {
				learnMarkers(0)
			}
		}
		for i, a := range sc.Actions {
			e.Step = i + 1
			switch a.K {
			case "probe", "converge":
			default:
				if g.ExecG(a) && (a.K == "deliver" || a.K == "deliverall") {
					cross++
				}
			}
			if e.Failed() {
				return
			}
		}
		e.Step = len(sc.Actions) + 1
		// (3) every removal is announced by the next command that permits it
		e.W.ReleaseAll()
		g.EndAllIdle()
		for i, s := range g.Sess {
			if s.C.Dead || g.Sel[i] < 0 || e.Failed() {
				continue
			}
			before := copyEntries(s.M.Msgs)
			r := s.Cmd("NOOP")
			g.after(i, "noop", before, r)
			if s.C.Dead || e.Failed() {
				continue
			}
			name := g.Boxes[g.Sel[i]]
			rows, _, _, err := e.AuthRead(0, name, false)
			if err != nil {
				e.Fail("removal-announced", "authoritative read of %q failed: %v", name, err)
				return
			}
			have := map[uint32]bool{}
			for _, row := range rows {
				have[row.UID] = true
			}
			for q, m := range s.M.Msgs {
				if m.UID != 0 && !have[m.UID] {
					e.Fail("removal-announced", "after delivery of all updates and NOOP, %s still has UID %d at sequence number %d of %q, but the message is gone and no EXPUNGE announced it", s.Label, m.UID, q+1, name)
					return
				}
			}
		}
		e.St.Nontrivial = cross > 0 && g.OKs >= 3
		e.St.Probes["held_back_cmds"] += held
	})
}
