package props

// C08 full read-back: after every Write (committed or aborted), after every reopen and
// every dirty restart, everything the interface can show is read in one Read callback and
// compared with the model (which at that point is the last committed state).

import (
	"context"
	"fmt"
	"regexp"
	"sort"
	"strings"

	"github.com/ProtonMail/gluon/db"
	"github.com/ProtonMail/gluon/imap"
)

var c8DeletedRe = regexp.MustCompile(`DELETED-[0-9a-fA-F-]{36}`)

func c8Scrub(s string) string { return c8DeletedRe.ReplaceAllString(s, "DELETED-*") }

var c8NumRe = regexp.MustCompile(`[0-9a-f]{12}|[0-9]+`)

func (x *c8Exec) rbFail(tag, format string, args ...any) {
	msg := fmt.Sprintf(format, args...)
	what := msg
	if i := strings.Index(what, ":"); i >= 0 {
		what = what[:i]
	}
	if len(what) > 80 {
		what = what[:80]
	}
	x.fail("readback", c8NumRe.ReplaceAllString(what, "#"), "read-back %s: %s", tag, msg)
}

func (x *c8Exec) rbSet(tag, what string, want, got []string) bool {
	x.st.Checks++
	sort.Strings(want)
	sort.Strings(got)
	if d := c8DiffSeq(want, got); d != "" {
		x.rbFail(tag, "%s: %s", what, d)
		return false
	}
	return true
}

func (x *c8Exec) rbSeq(tag, what string, want, got []string) bool {
	x.st.Checks++
	if d := c8DiffSeq(want, got); d != "" {
		x.rbFail(tag, "%s: %s", what, d)
		return false
	}
	return true
}

func (x *c8Exec) readback(tag string) {
	if x.failed() {
		return
	}
	x.m = x.committed
	var err error
	x.call("Read", func() {
		err = x.client.Read(x.ctx, func(ctx context.Context, rd db.ReadOnly) error {
			x.readAll(tag, rd)
			return nil
		})
	})
	if err != nil {
		x.rbFail(tag, "Read returned %v", err)
	}
	x.tr.Event(fmt.Sprintf("readback %s ok=%v", tag, x.v == nil))
}

func (x *c8Exec) readAll(tag string, rd db.ReadOnly) {
	m := x.m
	e := func(what string, err error) bool {
		if err != nil {
			x.rbFail(tag, "%s failed: %v", what, err)
			return true
		}
		return false
	}

	// ---- mailboxes
	all, err := rd.GetAllMailboxesWithAttr(x.ctx)
	if e("GetAllMailboxesWithAttr", err) {
		return
	}
	var w, g []string
	for _, id := range m.mboxIDs() {
		b := m.Mboxes[id]
		w = append(w, c8ModelMbox(b)+" attrs="+b.Attrs.String())
	}
	for _, b := range all {
		g = append(g, c8RealMbox(&b.Mailbox)+" attrs="+c8FlagSetString(b.Attributes))
	}
	if !x.rbSet(tag, "mailboxes", w, g) {
		return
	}
	n, err := rd.GetMailboxCount(x.ctx)
	if e("GetMailboxCount", err) {
		return
	}
	if n != len(m.Mboxes) {
		x.rbFail(tag, "GetMailboxCount: model %d, implementation %d", len(m.Mboxes), n)
		return
	}
	nr, err := rd.GetAllMailboxesNameAndRemoteID(x.ctx)
	if e("GetAllMailboxesNameAndRemoteID", err) {
		return
	}
	w, g = nil, nil
	for _, id := range m.mboxIDs() {
		w = append(w, fmt.Sprintf("%q=%q", m.Mboxes[id].Name, m.Mboxes[id].RemoteID))
	}
	for _, r := range nr {
		g = append(g, fmt.Sprintf("%q=%q", r.Name, string(r.RemoteID)))
	}
	if !x.rbSet(tag, "mailbox names and remote ids", w, g) {
		return
	}

	for _, id := range m.mboxIDs() {
		b := m.Mboxes[id]
		what := fmt.Sprintf("mailbox %d", id)
		fl, err := rd.GetMailboxFlags(x.ctx, mbid(id))
		if e(what+" GetMailboxFlags", err) {
			return
		}
		pf, err := rd.GetMailboxPermanentFlags(x.ctx, mbid(id))
		if e(what+" GetMailboxPermanentFlags", err) {
			return
		}
		x.st.Checks++
		if !b.Flags.eqFlagSet(fl) || !b.Perm.eqFlagSet(pf) {
			x.rbFail(tag, "%s: model flags %s permanent %s, implementation flags %s permanent %s", what, b.Flags, b.Perm, c8FlagSetString(fl), c8FlagSetString(pf))
			return
		}
		snap, err := rd.GetMailboxMessageForNewSnapshot(x.ctx, mbid(id))
		if e(what+" GetMailboxMessageForNewSnapshot", err) {
			return
		}
		if !x.rbSeq(tag, what+" rows", x.modelSnapshot(b), c8RealSnapshot(snap)) {
			return
		}
		cnt, uid, err := rd.GetMailboxMessageCountAndUID(x.ctx, mbid(id))
		if e(what+" GetMailboxMessageCountAndUID", err) {
			return
		}
		rec, err := rd.GetMailboxRecentCount(x.ctx, mbid(id))
		if e(what+" GetMailboxRecentCount", err) {
			return
		}
		x.st.Checks++
		if cnt != len(b.Rows) || uint32(uid) != b.UIDNext || rec != b.recentCount() {
			x.rbFail(tag, "%s: model count=%d uidnext=%d recent=%d, implementation count=%d uidnext=%d recent=%d", what, len(b.Rows), b.UIDNext, b.recentCount(), cnt, uid, rec)
			return
		}
	}

	// ---- messages
	ids, err := rd.GetAllMessagesIDsAsMap(x.ctx)
	if e("GetAllMessagesIDsAsMap", err) {
		return
	}
	w, g = nil, nil
	list := make([]c8ID, 0, len(m.Msgs))
	for _, id := range x.pool { // pool order: deterministic
		if _, ok := m.Msgs[id]; ok {
			list = append(list, id)
			w = append(w, c8Short(id))
		}
	}
	for id := range ids {
		g = append(g, c8Short(id))
	}
	if !x.rbSet(tag, "message ids", w, g) {
		return
	}
	total, err := rd.GetTotalMessageCount(x.ctx)
	if e("GetTotalMessageCount", err) {
		return
	}
	if total != len(m.Msgs) {
		x.rbFail(tag, "GetTotalMessageCount: model %d, implementation %d", len(m.Msgs), total)
		return
	}
	flags, err := rd.GetMessagesFlags(x.ctx, list)
	if e("GetMessagesFlags", err) {
		return
	}
	w, g = nil, nil
	for _, id := range list {
		mm := m.Msgs[id]
		w = append(w, fmt.Sprintf("%s remote=%q flags=%s", c8Short(id), mm.RemoteID, mm.Flags))
	}
	for _, f := range flags {
		g = append(g, fmt.Sprintf("%s remote=%q flags=%s", c8Short(f.ID), string(f.RemoteID), c8FlagSetString(f.FlagSet)))
	}
	if !x.rbSet(tag, "message flags", w, g) {
		return
	}
	del, err := rd.GetMessageIDsMarkedAsDelete(x.ctx)
	if e("GetMessageIDsMarkedAsDelete", err) {
		return
	}
	w, g = nil, nil
	for _, id := range list {
		if m.Msgs[id].Deleted {
			w = append(w, c8Short(id))
		}
	}
	for _, id := range del {
		g = append(g, c8Short(id))
	}
	if !x.rbSet(tag, "messages marked deleted", w, g) {
		return
	}
	// per message: all of them while there are few, otherwise the elements that sat at
	// chunk boundaries of the last list arguments plus an even sample
	check := list
	if len(list) > 64 {
		seen := map[c8ID]bool{}
		check = nil
		for _, id := range x.touched {
			if !seen[id] {
				seen[id] = true
				check = append(check, id)
			}
		}
		for i := 0; i < len(list); i += 1 + len(list)/24 {
			if !seen[list[i]] {
				seen[list[i]] = true
				check = append(check, list[i])
			}
		}
	}
	for _, id := range check {
		mm, ok := m.Msgs[id]
		mbs, err := rd.GetMessageMailboxIDs(x.ctx, id)
		if e("GetMessageMailboxIDs", err) {
			return
		}
		x.st.Checks++
		wm, gm := c8U64s(m.mailboxesOf(id)), c8MbIDs(mbs)
		sort.Strings(wm)
		sort.Strings(gm)
		if d := c8DiffSeq(wm, gm); d != "" {
			x.rbFail(tag, "message %s membership (GetMessageMailboxIDs): model %v, implementation %v", c8Short(id), wm, gm)
			return
		}
		got, err := rd.GetMessageNoEdges(x.ctx, id)
		if !ok {
			if !db.IsErrNotFound(err) {
				x.rbFail(tag, "message %s does not exist in the model, GetMessageNoEdges returned %v", c8Short(id), err)
				return
			}
			continue
		}
		if e("GetMessageNoEdges "+c8Short(id), err) {
			return
		}
		x.st.Checks++
		if c8ModelMsg(mm) != c8RealMsg(got) {
			x.rbFail(tag, "message: model [%s], implementation [%s]", c8ModelMsg(mm), c8RealMsg(got))
			return
		}
	}

	// ---- subscriptions and settings
	ds, err := rd.GetDeletedSubscriptionSet(x.ctx)
	if e("GetDeletedSubscriptionSet", err) {
		return
	}
	if !x.rbSet(tag, "deleted subscriptions", x.modelDelSubs(), c8RealDelSubs(ds)) {
		return
	}
	s, has, err := rd.GetConnectorSettings(x.ctx)
	if e("GetConnectorSettings", err) {
		return
	}
	if s != m.Settings || has != m.HasSet {
		x.rbFail(tag, "connector settings: model %q stored=%v, implementation %q stored=%v", m.Settings, m.HasSet, s, has)
	}
	_ = imap.FlagSeen
}
