package props

func init() { register(C10{}) }
