package props

// C10 — every valid IMAP command parses to exactly the command that was written.
//
// Component-level check with a simulated transport.  The REAL parser stack of a
// session (internal/session/session.go, command.go) is rebuilt from public packages:
//
//	fragment reader (sim)  ->  bufio.Reader  ->  command.InputCollector
//	   ->  rfcparser.Scanner  ->  command.Parser (with literal continuation callback)
//
// One run = one connection: a batch of generated commands is pipelined on one byte
// stream through ONE parser, so whatever state a command leaves behind (the pending
// LF token, buffered bytes) meets the next command.  The stream is executed `passes`
// times, each time with other encodings and other fragment boundaries of the SAME
// abstract commands; the expected values are the same in every pass.
//
// Simulated: the network (where a Read ends) and the client side of the literal
// continuation handshake (bytes after "{n}CRLF" exist only once the parser has asked
// for them through its callback; a Read that arrives there first gets an error, which
// is what "the server reads on without asking" means without needing a goroutine).

import (
	"bufio"
	"bytes"
	"errors"
	"fmt"
	"hash/fnv"
	"io"
	"reflect"
	"sort"
	"strconv"
	"strings"
	"time"

	"github.com/ProtonMail/gluon/imap/command"
	"github.com/ProtonMail/gluon/rfcparser"

	"verifharness/core"
)

type C10 struct{}

func (C10) ID() string { return "C10" }

var c10BufSizes = []int{4096, 16, 17, 32, 64, 256}

const c10BatchSize = 50

func c10KnobsOf(sc *core.Scenario) c10Knobs {
	return c10Knobs{lit0: sc.C("lit0") == 1, lbracket: sc.C("lbracket") == 1, donetag: sc.C("donetag") == 1, listlit: sc.C("listlit") == 1, syskw: sc.C("syskw") == 1}
}

func (C10) Generate(r *core.Rand, tier string, idx int) *core.Scenario {
	sc := &core.Scenario{Property: "C10", Cfg: map[string]int{}}
	sc.Cfg["bufsz"] = r.Intn(len(c10BufSizes))
	sc.Cfg["passes"] = 1 + r.Intn(3)
	// Input classes that hit an open deviation of the parser ('[' in atoms) are confined
	// to a minority of runs so that they cannot mask anything else; the classes whose
	// defects were repaired ({0}, LIST pattern as literal, tag "done") are on in half of the runs.
	if r.P(1, 16) {
		sc.Cfg["lbracket"] = 1
	}
	for _, k := range []string{"lit0", "donetag", "listlit", "syskw"} {
		if r.P(1, 2) {
			sc.Cfg[k] = 1
		}
	}
	kn := c10KnobsOf(sc)
	for i := 0; i < c10BatchSize; i++ {
		enc, frag := 0, 0
		if !r.P(1, 8) {
			enc = 1 + r.Intn(1<<30)
		}
		if !r.P(1, 8) {
			frag = 1 + r.Intn(1<<30)
		}
		ch := &c10Choices{r: r}
		g := newC10Gen(ch, nil, kn)
		g.command()
		sc.Actions = append(sc.Actions, core.Action{K: "cmd", A: append([]int{enc, frag}, ch.a...)})
	}
	return sc
}

// ---------------------------------------------------------------- sim transport

var errC10Stall = errors.New("sim: client is waiting for a continuation request, no more bytes")

type c10Reader struct {
	data  []byte
	pos   int
	cuts  []int // sorted end offsets of fragments (a Read never crosses one)
	ci    int
	gates []int // sorted offsets withheld until the continuation callback fires
	gi    int   // first gate still closed

	stalled    bool // a Read arrived at a closed gate
	reads      int
	shortReads int // reads that ended at a chosen fragment boundary
}

func (r *c10Reader) Read(p []byte) (int, error) {
	if len(p) == 0 {
		return 0, nil
	}
	if r.pos >= len(r.data) {
		return 0, io.EOF
	}
	limit := len(r.data)
	atCut := false
	if r.gi < len(r.gates) {
		if r.gates[r.gi] <= r.pos {
			r.stalled = true
			return 0, errC10Stall
		}
		limit = r.gates[r.gi]
	}
	for r.ci < len(r.cuts) && r.cuts[r.ci] <= r.pos {
		r.ci++
	}
	if r.ci < len(r.cuts) && r.cuts[r.ci] < limit {
		limit = r.cuts[r.ci]
		atCut = true
	}
	n := copy(p, r.data[r.pos:limit])
	r.pos += n
	r.reads++
	if atCut && r.pos == limit {
		r.shortReads++
	}
	return n, nil
}

// ---------------------------------------------------------------- one built command

type c10Cmd struct {
	kind     string
	wire     []byte
	expected command.Command
	gates    []int
	marks    []c10Mark
	cuts     []int // relative fragment ends chosen for this command (may include len(wire))
	g        *c10Gen
}

func c10Build(a core.Action, pass int, kn c10Knobs) *c10Cmd {
	encSeed, fragSeed := a.Arg(0), a.Arg(1)
	if encSeed < 0 {
		encSeed = -encSeed
	}
	if fragSeed < 0 {
		fragSeed = -fragSeed
	}
	var enc *c10Enc
	switch {
	case pass > 0:
		enc = &c10Enc{r: core.NewRand(core.Mix(uint64(encSeed), uint64(pass)))}
	case encSeed != 0:
		enc = &c10Enc{r: core.NewRand(uint64(encSeed))}
	}
	var rest []int
	if len(a.A) > 2 {
		rest = a.A[2:]
	}
	g := newC10Gen(&c10Choices{a: rest}, enc, kn)
	exp := g.command()
	c := &c10Cmd{kind: g.kind, wire: g.out, expected: exp, gates: g.gates, marks: g.marks, g: g}

	// fragment schedule
	var fr *core.Rand
	switch {
	case pass > 0:
		fr = core.NewRand(core.Mix(uint64(fragSeed), 0x5eed+uint64(pass)))
	case fragSeed != 0:
		fr = core.NewRand(uint64(fragSeed))
	}
	if fr == nil {
		return c // no boundary inside, none at the end: joined with the next command
	}
	n := len(c.wire)
	switch fr.Intn(6) {
	case 0: // every byte on its own
		for i := 1; i < n; i++ {
			c.cuts = append(c.cuts, i)
		}
	case 1:
		for i := 1 + fr.Intn(8); i < n; i += 1 + fr.Intn(8) {
			c.cuts = append(c.cuts, i)
		}
	case 2:
		for i := 1 + fr.Intn(64); i < n; i += 1 + fr.Intn(64) {
			c.cuts = append(c.cuts, i)
		}
	case 3: // each interesting position with probability 1/2
		for _, m := range c.marks {
			if m.pos > 0 && m.pos < n && fr.Intn(2) == 1 {
				c.cuts = append(c.cuts, m.pos)
			}
		}
	case 4: // exactly one interesting position
		if len(c.marks) > 0 {
			m := c.marks[fr.Intn(len(c.marks))]
			if m.pos > 0 && m.pos < n {
				c.cuts = append(c.cuts, m.pos)
			}
		}
	default: // all interesting positions
		for _, m := range c.marks {
			if m.pos > 0 && m.pos < n {
				c.cuts = append(c.cuts, m.pos)
			}
		}
	}
	if fr.Intn(2) == 1 {
		c.cuts = append(c.cuts, n)
	}
	sort.Ints(c.cuts)
	return c
}

// ---------------------------------------------------------------- execute

func c10Short(b []byte, n int) string {
	if len(b) > n {
		return strconv.Quote(string(b[:n])) + fmt.Sprintf("...(%d bytes)", len(b))
	}
	return strconv.Quote(string(b))
}

func c10Hash(b []byte) uint64 {
	h := fnv.New64a()
	h.Write(b)
	return h.Sum64()
}

func (C10) Execute(sc *core.Scenario, keepLog bool) *core.Result {
	res := &core.Result{Stats: core.NewStats()}
	tr := &core.Tracer{Keep: keepLog}
	st := &res.Stats
	kn := c10KnobsOf(sc)
	passes := sc.C("passes")
	if passes < 1 {
		passes = 1
	}
	if passes > 8 {
		passes = 8
	}
	bi := sc.C("bufsz")
	if bi < 0 {
		bi = -bi
	}
	bufsz := c10BufSizes[bi%len(c10BufSizes)]

	step := 0
	fail := func(oracle, stable, format string, args ...any) {
		if res.V != nil {
			return
		}
		d := stable
		if format != "" {
			d += " | " + fmt.Sprintf(format, args...)
		}
		res.V = &core.Violation{Property: "C10", Oracle: oracle, Detail: d, Sig: core.NormSig(oracle, stable), Step: step}
		tr.Event("VIOLATION", oracle+": "+d)
	}

	var cutHits [c10NumCutClasses]int
	fragments, conts, parsed := 0, 0, 0
	var nLit, nQuoted, nAtom, nEsc, n8bit, uidForms, litNested, litSection, maxDepth, pipelined int

	for pass := 0; pass < passes && res.V == nil; pass++ {
		var cmds []*c10Cmd
		var data []byte
		var cuts, gates, starts []int
		for _, a := range sc.Actions {
			if a.K != "cmd" {
				continue
			}
			c := c10Build(a, pass, kn)
			off := len(data)
			starts = append(starts, off)
			for _, x := range c.cuts {
				cuts = append(cuts, off+x)
			}
			for _, x := range c.gates {
				gates = append(gates, off+x)
			}
			data = append(data, c.wire...)
			cmds = append(cmds, c)
		}
		rd := &c10Reader{data: data, cuts: cuts, gates: gates}
		ic := command.NewInputCollector(bufio.NewReaderSize(rd, bufsz))
		cmdStart := 0
		contCalls, contBad := 0, ""
		cb := func() error {
			contCalls++
			consumed := cmdStart + len(ic.Bytes())
			switch {
			case rd.gi >= len(rd.gates):
				contBad = "continuation requested although no literal is pending"
			case rd.gates[rd.gi] != consumed:
				contBad = fmt.Sprintf("continuation requested after consuming %d bytes, literal header ends at %d", consumed-cmdStart, rd.gates[rd.gi]-cmdStart)
			default:
				rd.gi++
			}
			return nil
		}
		parser := command.NewParserWithLiteralContinuationCb(rfcparser.NewScannerWithReader(ic), cb)
		tr.Event("pass", fmt.Sprintf("%d cmds=%d bytes=%d buf=%d", pass, len(cmds), len(data), bufsz))

		kept := make([]command.Command, len(cmds))
		keptOK := make([]bool, len(cmds))
		for i, c := range cmds {
			step = i + 1
			cmdStart = starts[i]
			ic.Reset()
			contCalls, contBad = 0, ""
			rd.stalled = false
			readsBefore, shortBefore := rd.reads, rd.shortReads
			if rd.pos > cmdStart {
				pipelined++ // some of this command's bytes arrived together with the previous one
			}

			var got command.Command
			var err error
			var panicked any
			func() {
				defer func() { panicked = recover() }()
				got, err = parser.Parse()
			}()
			parsed++
			st.Checks += 4
			consumed := ic.Bytes()
			where := fmt.Sprintf("pass %d cmd %d wire=%s cuts=%v buf=%d", pass, i, c10Short(c.wire, 300), c.cuts, bufsz)
			switch {
			case panicked != nil:
				fail("panic", c.kind+": parser panicked: "+firstLine(fmt.Sprint(panicked)), "%s", where)
			case rd.stalled:
				fail("no-continuation", c.kind+": parser read past a literal header without requesting continuation", "err=%v %s", err, where)
			case err != nil:
				fail("rejected", c.kind+": valid command rejected: "+c10ErrText(err), "%s", where)
			default:
				if d := c10Diff(reflect.ValueOf(c.expected), reflect.ValueOf(got), "cmd"); d != "" {
					// d = "<path>: <kind of difference>" [NUL "<values>"]; only the first part is signature
					stable, values, _ := strings.Cut(d, "\x00")
					fail("mismatch", c.kind+": parsed command differs from the written one at "+stable, "%s expected=%s got=%s continuations=%d/%d %s", values, c10Dump(c.expected), c10Dump(got), contCalls, len(c.gates), where)
				} else if contBad != "" {
					fail("continuation", c.kind+": "+contBad, "%s", where)
				} else if contCalls != len(c.gates) {
					fail("continuation", fmt.Sprintf("%s: %d continuation requests for %d literals", c.kind, contCalls, len(c.gates)), "%s", where)
				} else if !bytes.Equal(consumed, c.wire) {
					fail("consumed", fmt.Sprintf("%s: parser consumed %s bytes than the command has", c.kind, c10MoreLess(len(consumed), len(c.wire))), "consumed %d of %d %s", len(consumed), len(c.wire), where)
				}
			}
			if res.V == nil && err == nil && panicked == nil {
				kept[i], keptOK[i] = got, true
			}
			nfrag := rd.reads - readsBefore
			fragments += rd.shortReads - shortBefore
			conts += contCalls
			tr.Event("cmd", fmt.Sprintf("%s len=%d h=%x reads=%d cont=%d ok=%v", c.kind, len(c.wire), c10Hash(c.wire), nfrag, contCalls, err == nil))
			if keepLog {
				tr.Log = append(tr.Log, "  C: "+c10Short(c.wire, 400), "  =: "+c10Dump(c.expected))
			}
			if res.V != nil {
				break
			}
			// coverage facts
			g := c.g
			nLit += g.nLit
			nQuoted += g.nQuoted
			nAtom += g.nAtom
			nEsc += g.nEsc
			n8bit += g.n8bit
			if g.uidForm {
				uidForms++
			}
			if g.litInNested {
				litNested++
			}
			if g.litInSection {
				litSection++
			}
			if g.searchDepth > maxDepth {
				maxDepth = g.searchDepth
			}
			for _, x := range c.cuts {
				for _, m := range c.marks {
					if m.pos == x {
						cutHits[m.class]++
					}
				}
			}
		}
		// the server's reader goroutine parses the next command while the previous one is
		// still being executed: a parsed command must stay what it was after later
		// commands have been parsed on the same connection
		if res.V == nil {
			for i, c := range cmds {
				if !keptOK[i] {
					continue
				}
				st.Checks++
				if d := c10Diff(reflect.ValueOf(c.expected), reflect.ValueOf(kept[i]), "cmd"); d != "" {
					step = i + 1
					stable, values, _ := strings.Cut(d, "\x00")
					fail("retained", c.kind+": a parsed command changed after later commands were parsed on the same connection, at "+stable, "%s expected=%s now=%s pass %d cmd %d", values, c10Dump(c.expected), c10Dump(kept[i]), pass, i)
					break
				}
			}
		}
	}

	st.Actions = parsed
	st.TraceHash = tr.Hash()
	if fragments > 0 {
		st.Faults["conn_fragment"] = fragments
	}
	if conts > 0 {
		st.Probes["literal_continuations"] = conts
	}
	for i, n := range cutHits {
		if n > 0 {
			st.Probes[c10CutNames[i]] = n
		}
	}
	set := func(name string, n int) {
		if n > 0 {
			st.Probes[name] = n
		}
	}
	set("enc_literal", nLit)
	set("enc_quoted", nQuoted)
	set("enc_atom", nAtom)
	set("enc_quoted_escape", nEsc)
	set("literal_8bit", n8bit)
	set("uid_form", uidForms)
	set("literal_in_nested_search_key", litNested)
	set("literal_in_fetch_section", litSection)
	set("pipelined_in_one_fragment", pipelined)
	if maxDepth >= 4 {
		st.Probes["search_depth_ge4"] = 1
	}
	// Non-trivial: the transport did something (a fragment boundary inside the batch or a
	// continuation handshake) and at least 10 commands were judged.
	st.Nontrivial = parsed >= 10 && (fragments > 0 || conts > 0)
	if keepLog {
		res.Log = tr.Log
	}
	return res
}

func c10MoreLess(got, want int) string {
	if got > want {
		return "more"
	}
	return "fewer"
}

// c10ErrText gives the parser's message without the offset (stable signature).
func c10ErrText(err error) string {
	var pe *rfcparser.Error
	if errors.As(err, &pe) {
		return pe.Message
	}
	return err.Error()
}

// ---------------------------------------------------------------- comparison

var c10TimeType = reflect.TypeOf(time.Time{})

// c10Diff returns "" when a (expected) and b (got) denote the same command, else the
// path and kind of the first difference, optionally followed by NUL and the values.  It is reflect.DeepEqual with three relaxations that
// carry no meaning for the property: a nil and an empty slice/map are the same, times
// are compared as instants plus zone offset (not by *Location identity), and
// unexported fields do not exist in these types.
func c10Diff(a, b reflect.Value, path string) string {
	if !a.IsValid() || !b.IsValid() {
		if a.IsValid() != b.IsValid() {
			return path + ": one side missing"
		}
		return ""
	}
	if a.Type() != b.Type() {
		return fmt.Sprintf("%s: type %s vs %s", path, a.Type(), b.Type())
	}
	switch a.Kind() {
	case reflect.Interface, reflect.Ptr:
		if a.IsNil() || b.IsNil() {
			if a.IsNil() != b.IsNil() {
				return fmt.Sprintf("%s: nil vs non-nil (%s)", path, c10NilSide(a))
			}
			return ""
		}
		ea, eb := a.Elem(), b.Elem()
		if ea.Type() != eb.Type() {
			return fmt.Sprintf("%s: type %s vs %s", path, ea.Type(), eb.Type())
		}
		if a.Kind() == reflect.Interface {
			return c10Diff(ea, eb, path)
		}
		return c10Diff(ea, eb, path+"."+ea.Type().Name())
	case reflect.Struct:
		if a.Type() == c10TimeType {
			ta, tb := a.Interface().(time.Time), b.Interface().(time.Time)
			_, oa := ta.Zone()
			_, ob := tb.Zone()
			if ta.IsZero() != tb.IsZero() || !ta.Equal(tb) || oa != ob {
				return fmt.Sprintf("%s: time differs\x00%s vs %s", path, ta.Format(time.RFC3339), tb.Format(time.RFC3339))
			}
			return ""
		}
		for i := 0; i < a.NumField(); i++ {
			if d := c10Diff(a.Field(i), b.Field(i), path+"."+a.Type().Field(i).Name); d != "" {
				return d
			}
		}
		return ""
	case reflect.Slice:
		if a.Len() != b.Len() {
			return fmt.Sprintf("%s: length differs\x00%d vs %d", path, a.Len(), b.Len())
		}
		if a.Type().Elem().Kind() == reflect.Uint8 {
			if !bytes.Equal(a.Bytes(), b.Bytes()) {
				return path + ": bytes differ"
			}
			return ""
		}
		for i := 0; i < a.Len(); i++ {
			if d := c10Diff(a.Index(i), b.Index(i), fmt.Sprintf("%s[%d]", path, i)); d != "" {
				return d
			}
		}
		return ""
	case reflect.Map:
		if a.Len() != b.Len() {
			return fmt.Sprintf("%s: map size differs\x00%d vs %d", path, a.Len(), b.Len())
		}
		keys := a.MapKeys()
		sort.Slice(keys, func(i, j int) bool { return keys[i].String() < keys[j].String() })
		for _, k := range keys {
			vb := b.MapIndex(k)
			if !vb.IsValid() {
				return fmt.Sprintf("%s: key missing\x00%q", path, k.String())
			}
			if d := c10Diff(a.MapIndex(k), vb, path+"[key]"); d != "" {
				return d
			}
		}
		return ""
	case reflect.String:
		if a.String() != b.String() {
			return fmt.Sprintf("%s: string differs\x00%s vs %s", path, c10Short([]byte(a.String()), 60), c10Short([]byte(b.String()), 60))
		}
		return ""
	case reflect.Int, reflect.Int8, reflect.Int16, reflect.Int32, reflect.Int64:
		if a.Int() != b.Int() {
			return fmt.Sprintf("%s: number differs\x00%d vs %d", path, a.Int(), b.Int())
		}
		return ""
	case reflect.Uint, reflect.Uint8, reflect.Uint16, reflect.Uint32, reflect.Uint64:
		if a.Uint() != b.Uint() {
			return fmt.Sprintf("%s: number differs\x00%d vs %d", path, a.Uint(), b.Uint())
		}
		return ""
	case reflect.Bool:
		if a.Bool() != b.Bool() {
			return fmt.Sprintf("%s: %v vs %v", path, a.Bool(), b.Bool())
		}
		return ""
	default:
		if !reflect.DeepEqual(a.Interface(), b.Interface()) {
			return path + ": values differ"
		}
		return ""
	}
}

func c10NilSide(expected reflect.Value) string {
	if expected.IsNil() {
		return "expected nil"
	}
	return "got nil"
}

// c10Dump renders a command value for logs and violation details.
func c10Dump(v any) string {
	var sb strings.Builder
	c10DumpV(&sb, reflect.ValueOf(v))
	s := sb.String()
	if len(s) > 1200 {
		s = s[:1200] + "..."
	}
	return s
}

func c10DumpV(sb *strings.Builder, v reflect.Value) {
	if !v.IsValid() {
		sb.WriteString("nil")
		return
	}
	switch v.Kind() {
	case reflect.Interface, reflect.Ptr:
		if v.IsNil() {
			sb.WriteString("nil")
			return
		}
		c10DumpV(sb, v.Elem())
	case reflect.Struct:
		if v.Type() == c10TimeType {
			t := v.Interface().(time.Time)
			if t.IsZero() {
				sb.WriteString("T0")
			} else {
				sb.WriteString(t.Format("2006-01-02T15:04:05-0700"))
			}
			return
		}
		sb.WriteString(v.Type().Name())
		sb.WriteByte('{')
		for i := 0; i < v.NumField(); i++ {
			if i > 0 {
				sb.WriteByte(' ')
			}
			sb.WriteString(v.Type().Field(i).Name)
			sb.WriteByte(':')
			c10DumpV(sb, v.Field(i))
		}
		sb.WriteByte('}')
	case reflect.Slice:
		if v.Type().Elem().Kind() == reflect.Uint8 {
			sb.WriteString(c10Short(v.Bytes(), 80))
			return
		}
		sb.WriteByte('[')
		for i := 0; i < v.Len(); i++ {
			if i > 0 {
				sb.WriteByte(' ')
			}
			c10DumpV(sb, v.Index(i))
		}
		sb.WriteByte(']')
	case reflect.Map:
		keys := v.MapKeys()
		sort.Slice(keys, func(i, j int) bool { return keys[i].String() < keys[j].String() })
		sb.WriteString("map[")
		for i, k := range keys {
			if i > 0 {
				sb.WriteByte(' ')
			}
			sb.WriteString(c10Short([]byte(k.String()), 60))
			sb.WriteByte(':')
			c10DumpV(sb, v.MapIndex(k))
		}
		sb.WriteByte(']')
	case reflect.String:
		sb.WriteString(c10Short([]byte(v.String()), 80))
	case reflect.Int, reflect.Int8, reflect.Int16, reflect.Int32, reflect.Int64:
		// numeric on purpose: some String() methods of the command types are lossy
		if v.Type().Name() == "SeqNum" && v.Int() == 0 {
			sb.WriteByte('*')
		} else {
			sb.WriteString(strconv.FormatInt(v.Int(), 10))
		}
	default:
		fmt.Fprint(sb, v.Interface())
	}
}
