package props

import (
	"encoding/binary"
	"fmt"
	"hash/fnv"

	"verifharness/core"
)

// Layout constants of a store file (store/disk.go): "GLUON-CACHE" + uint32 version,
// 12-byte nonce, then the LZ4 frame cut into 256 KiB blocks each sealed with AES-GCM
// (16-byte tag).  They are used to aim faults and lengths at the structural positions; the
// oracle does not depend on them.
const (
	c09HdrID     = 11
	c09HdrLen    = 15
	c09NonceLen  = 12
	c09DataStart = c09HdrLen + c09NonceLen
	c09Tag       = 16
	c09Cipher    = 64 * 4096 // cipher block (plaintext side)
	c09EncBlock  = c09Cipher + c09Tag
	c09LZ4Block  = 64 * 1024
)

type c09rng struct{ s uint64 }

func (r *c09rng) next() uint64 {
	r.s += 0x9E3779B97F4A7C15
	z := r.s
	z = (z ^ (z >> 30)) * 0xBF58476D1CE4E5B9
	z = (z ^ (z >> 27)) * 0x94D049BB133111EB
	return z ^ (z >> 31)
}

func c09FillRandom(b []byte, r *c09rng) {
	i := 0
	for ; i+8 <= len(b); i += 8 {
		binary.LittleEndian.PutUint64(b[i:], r.next())
	}
	if i < len(b) {
		var t [8]byte
		binary.LittleEndian.PutUint64(t[:], r.next())
		copy(b[i:], t[:])
	}
}

var c09Words = []string{"the", "message", "From:", "To:", "Subject:", "\r\n", " ", "proton", "mail", "Received:", "by", "with", "ESMTP", "boundary=", "Content-Type:", "text/plain;", "charset=utf-8", "0123456789", "=\r\n", "--", "base64", "AAAA", "quoted-printable", "\t", "<a@b.example>", ";"}

const c09NumComp = 7

// c09Content derives a value from integers only (never stored in the scenario).
//
//	comp 0 all zero, 1 one repeated byte, 2 short period, 3 mail-like text, 4 runs of
//	random and constant bytes, 5 pseudo-random (incompressible), 6 random with repeats
func c09Content(seed uint64, n int, comp int) []byte {
	b := make([]byte, n)
	r := &c09rng{s: core.Mix(seed, uint64(comp)+77)}
	switch ((comp % c09NumComp) + c09NumComp) % c09NumComp {
	case 0:
	case 1:
		c := byte(r.next())
		for i := range b {
			b[i] = c
		}
	case 2:
		p := 1 + int(r.next()%300)
		pat := make([]byte, p)
		c09FillRandom(pat, r)
		for i := 0; i < n; i += p {
			copy(b[i:], pat)
		}
	case 3:
		i := 0
		for i < n {
			w := c09Words[r.next()%uint64(len(c09Words))]
			i += copy(b[i:], w)
		}
	case 4:
		i := 0
		for i < n {
			l := 1 + int(r.next()%5000)
			if i+l > n {
				l = n - i
			}
			if r.next()&1 == 0 {
				c09FillRandom(b[i:i+l], r)
			} else {
				c := byte(r.next())
				for j := i; j < i+l; j++ {
					b[j] = c
				}
			}
			i += l
		}
	case 5:
		c09FillRandom(b, r)
	case 6:
		c09FillRandom(b, r)
		var chunk [32]byte
		c09FillRandom(chunk[:], r)
		for i := 1000; i+32 <= n; i += 2000 + int(r.next()%4000) {
			copy(b[i:], chunk[:])
		}
	}
	return b
}

func c09Hash(b []byte) uint64 {
	h := fnv.New64a()
	h.Write(b)
	return h.Sum64()
}

// c09RandStreamLen: length of the LZ4 frame the store produces for n incompressible
// bytes (7-byte frame header, 4-byte size word per 64 KiB block, 4-byte end mark).
func c09RandStreamLen(n int) int {
	return 7 + n + 4*((n+c09LZ4Block-1)/c09LZ4Block) + 4
}

// c09Len maps (class, param) to a content length.  maxLen bounds everything.  The second
// result forces incompressible content (classes aimed at the cipher-block edge of the
// compressed stream only make sense when the stream length is predictable).
func c09Len(class, p, maxLen int) (n int, forceRandom bool) {
	d := p%3 - 1
	switch class % 10 {
	case 0:
		n = 0
	case 1:
		n = 1
	case 2:
		n = 2 + p%3000
	case 3:
		n = c09LZ4Block + d
	case 4:
		n = c09Cipher + d
	case 5:
		n = (1+(p/3)%32)*c09LZ4Block + d
	case 6:
		n = (1+(p/3)%8)*c09Cipher + d
	case 7:
		// compressed stream of random content ends d bytes around k cipher blocks
		k := 1 + (p/13)%4
		dd := p%13 - 6
		n = k*c09Cipher - 11 - 4*((k*c09Cipher)/c09LZ4Block) + dd
		for i := 0; i < 4 && c09RandStreamLen(n) != k*c09Cipher+dd; i++ {
			n += k*c09Cipher + dd - c09RandStreamLen(n)
		}
		forceRandom = true
	case 8:
		// log-uniform up to maxLen
		bits := 1 + p%21
		n = (1 << bits) + (p*7919)%(1<<bits)
	case 9:
		n = 3000 + (p*104729)%300000
	}
	if n < 0 {
		n = 0
	}
	if n > maxLen {
		n = maxLen - (p % 3)
	}
	return n, forceRandom
}

func c09ID(i int) string { return fmt.Sprintf("00000000-0000-4000-8000-%012x", i+1) }
