package props

import (
	"context"
	"fmt"
	"os"
	"regexp"
	"runtime"
	"sort"
	"strings"
	"time"

	"github.com/ProtonMail/gluon/imap"

	"verifharness/core"
	"verifharness/gen"
	"verifharness/wire"
	"verifharness/world"
)

// C19 — concurrent sessions, updates and shutdown: no race, no deadlock, no leak.
//
// Fallback of DESIGN.md section 9: scheduling mode S (fully serialised scheduler) is not
// built; this check runs *bursts*: several macro-actions (commands of different
// sessions, connector updates, abrupt disconnects, RemoveUser, Close) are started
// together and the system is run to quiescence.  Which actions form a burst is decided
// by the scenario; their interleaving inside the burst is left to the Go scheduler,
// with the binary built with -race.  The oracles do not depend on the interleaving:
// every started command completes or its connection is closed, RemoveUser/Close
// return, no panic, after Close no goroutine with a gluon frame is left, and the race
// detector (happens-before based) stays silent.
type C19 struct{}

func (C19) ID() string { return "C19" }

var c19Kinds = []string{"cmd", "upd", "drop", "stall", "logout", "idle", "rmuser", "close", "burst", "flood", "fetchdrop"}

func (C19) Generate(r *core.Rand, tier string, idx int) *core.Scenario {
	sc := &core.Scenario{Property: "C19", Cfg: map[string]int{}}
	sc.Cfg["nsess"] = r.Range(2, 4)
	sc.Cfg["users"] = r.Range(1, 2)
	sc.Cfg["idlebulk"] = []int{0, 500}[r.Intn(2)]
	sc.Cfg["flagrepl"] = r.Intn(2)
	if r.P(1, 4) {
		sc.Cfg["gated"] = 1
	}
	if r.P(1, 3) {
		sc.Cfg["bigbox"] = 1
	}
	//                 cmd upd drop stall logout idle rmuser close burst flood fetchdrop
	weights := []int{30, 10, 4, 2, 3, 4, 1, 1, 14, 2, 2}
	n := r.Range(20, 60)
	for i := 0; i < n; i++ {
		a := core.Action{K: c19Kinds[r.Weighted(weights)], S: r.Intn(sc.Cfg["nsess"])}
		for j := 0; j < 5; j++ {
			a.A = append(a.A, r.Intn(1000))
		}
		sc.Actions = append(sc.Actions, a)
	}
	return sc
}

var raceLogPos int64

// raceErrors returns the race detector's error count (set in race builds only).
var raceErrors = func() int { return 0 }
var raceSeen int

// raceReports returns race detector output that appeared since the last call.
func raceReports() string {
	prefix := os.Getenv("VERIF_RACE_LOG")
	if prefix == "" {
		return ""
	}
	n := raceErrors()
	b, err := os.ReadFile(fmt.Sprintf("%s.%d", prefix, os.Getpid()))
	if err != nil || int64(len(b)) <= raceLogPos {
		if n > raceSeen {
			raceSeen = n
			return "WARNING: DATA RACE (the detector's error count rose; the report text is not in the log yet)"
		}
		return ""
	}
	raceSeen = n
	out := string(b[raceLogPos:])
	raceLogPos = int64(len(b))
	return out
}

var bubbleRe = regexp.MustCompile(`synctest bubble \d+`)

var frameRe = regexp.MustCompile(`(?m)^\s+(github\.com/ProtonMail/gluon/[^\s(]+)`)

// gluonRace keeps only the reports in which neither access is in harness code.
func gluonRaces(rep string) string {
	var keep []string
	for _, r := range strings.Split(rep, "==================") {
		if !strings.Contains(r, "DATA RACE") {
			continue
		}
		harness := false
		for _, part := range strings.Split(r, "\n\n") {
			lines := strings.Split(strings.TrimSpace(part), "\n")
			if len(lines) >= 2 && (strings.HasPrefix(lines[0], "Read at") || strings.HasPrefix(lines[0], "Write at") || strings.HasPrefix(lines[0], "Previous")) {
				// the access itself is in harness code if the first non-runtime frame is
				for k := 1; k < len(lines); k += 2 {
					f := strings.TrimSpace(lines[k])
					if strings.HasPrefix(f, "runtime.") || strings.HasPrefix(f, "sync.") || strings.HasPrefix(f, "sync/atomic.") {
						continue
					}
					if strings.Contains(f, "verifharness/") || strings.Contains(f, "verifsimrt") {
						harness = true
					}
					break
				}
			}
		}
		if !harness {
			keep = append(keep, r)
		}
	}
	return strings.Join(keep, "==================")
}

// raceSig names the first two distinct gluon functions of a race report.
func raceSig(rep string) string {
	var fns []string
	seen := map[string]bool{}
	for _, m := range frameRe.FindAllStringSubmatch(rep, -1) {
		f := m[1]
		if strings.Contains(f, "verifsimrt") {
			continue
		}
		if !seen[f] {
			seen[f] = true
			fns = append(fns, f)
		}
		if len(fns) == 2 {
			break
		}
	}
	sort.Strings(fns)
	return strings.Join(fns, " | ")
}

type c19Pending struct {
	s    *world.Sess
	tag  string
	text string
}

func (C19) Execute(sc *core.Scenario, keepLog bool) *core.Result {
	nusers := max(1, sc.C("users"))
	// cfg gated: the sessions' update queues are held back at the simulator's gates (as in
	// C01/C02) and opened only at teardown: sessions end with many undelivered updates
	cfg := world.Config{IdleBulk: time.Duration(sc.C("idlebulk")) * time.Millisecond, Gate: sc.C("gated") == 1}
	for i := 0; i < nusers; i++ {
		cfg.Users = append(cfg.Users, world.UserCfg{Names: []string{fmt.Sprintf("user%d", i)}, Password: "pass"})
	}
	baseline := 0
	res := RunInBubble("C19", sc, keepLog, cfg, func(e *Env) {
		baseline = runtime.NumGoroutine()
		type sess struct {
			s       *world.Sess
			user    int
			sel     bool
			stall   bool
			idle    bool
			idleTag string
		}
		var ss []*sess
		removed := map[int]bool{}
		closed := false
		connect := func(ui int) *sess {
			s, err := e.W.Connect()
			if err != nil {
				return nil
			}
			cs := &sess{s: s, user: ui}
			if r := s.Cmd("LOGIN user%d pass", ui); !r.OK() {
				return cs
			}
			s.M.Reset("INBOX", false)
			if s.Cmd("SELECT INBOX").OK() {
				cs.sel = true
			}
			return cs
		}
		for i := 0; i < max(2, sc.C("nsess")); i++ {
			cs := connect(i % nusers)
			if cs == nil {
				e.Infra = fmt.Errorf("connect failed")
				return
			}
			ss = append(ss, cs)
		}
		// a few messages to work on
		for ui := 0; ui < nusers; ui++ {
			ss[ui].s.Cmd("CREATE other")
			nmsg := 3
			if sc.C("bigbox") == 1 {
				nmsg = 16 // more responses to one FETCH than the session buffers
			}
			for k := 0; k < nmsg; k++ {
				g := e.NewMessage(k, gen.Opts{BigBody: 1500 * sc.C("bigbox")})
				ss[ui].s.Do(wire.WithLiteral("APPEND INBOX ", g.Bytes, ""))
			}
		}
		for _, cs := range ss {
			cs.s.Cmd("NOOP")
		}
		var pending []c19Pending
		var waiters []chan error // RemoveUser / Close calls in flight
		var waitNames []string
		type updWait struct {
			done   chan error
			cancel context.CancelFunc
			user   int
			what   string
		}
		var updWaits []updWait
		var floods []chan struct{}
		start := func(a core.Action) {
			cs := ss[abs(a.S)%len(ss)]
			s := cs.s
			alive := !s.C.Dead && !s.C.Conn.ServerClosed() && !closed
			switch a.K {
			case "cmd":
				if !alive || cs.stall || cs.idle {
					return
				}
				n := s.M.Count()
				var text string
				switch abs(a.Arg(0)) % 10 {
				case 0:
					text = "NOOP"
				case 1:
					if n == 0 {
						return
					}
					text = fmt.Sprintf("FETCH 1:%d (UID FLAGS BODY.PEEK[HEADER])", n)
					if sc.C("flagrepl") == 1 && a.Arg(2)%3 == 1 {
						// a FETCH that sets \Seen on what it reads
						text = fmt.Sprintf("FETCH 1:%d (FLAGS BODY[])", n)
					}
				case 2:
					if n == 0 {
						return
					}
					text = fmt.Sprintf("STORE %d +FLAGS (\\Seen custom)", 1+abs(a.Arg(1))%n)
					if sc.C("flagrepl") == 1 && a.Arg(2)%3 != 0 {
						// one flag list replacing the flags of several messages (in every session's view)
						text = fmt.Sprintf("STORE 1:%d FLAGS (%s)", n, []string{"\\Flagged custom", "custom", "\\Answered"}[abs(a.Arg(2))%3])
					}
				case 3:
					if n == 0 {
						return
					}
					text = fmt.Sprintf("STORE %d +FLAGS (\\Deleted)", 1+abs(a.Arg(1))%n)
				case 4:
					text = "EXPUNGE"
				case 5:
					if n == 0 {
						return
					}
					text = fmt.Sprintf("COPY %d other", 1+abs(a.Arg(1))%n)
				case 6:
					text = "SEARCH ALL"
				case 7:
					text = `LIST "" "*"`
				case 8:
					text = "STATUS INBOX (MESSAGES UIDNEXT)"
				case 9:
					text = "SELECT INBOX"
				}
				tag := s.C.NextTag()
				s.W.Sim.SetLabel(s.Label)
				s.C.Conn.ClientSend([]byte(tag + " " + text + "\r\n"))
				pending = append(pending, c19Pending{s, tag, text})
				e.Tr.Event("start", s.Label, text)
			case "idle":
				if !alive || cs.stall || !cs.sel {
					return
				}
				if cs.idle {
					s.C.Conn.ClientSend([]byte("DONE\r\n"))
					pending = append(pending, c19Pending{s, cs.idleTag, "DONE"})
					cs.idle = false
				} else {
					cs.idleTag = s.C.NextTag()
					s.C.Conn.ClientSend([]byte(cs.idleTag + " IDLE\r\n"))
					cs.idle = true
				}
				e.Tr.Event("idle", s.Label, cs.idle)
			case "upd":
				ui := abs(a.Arg(0)) % nusers
				if removed[ui] || closed {
					return
				}
				u := e.W.Users[ui]
				var upd imap.Update
				switch abs(a.Arg(1)) % 4 {
				case 0:
					g := e.NewMessage(a.Arg(2), gen.Opts{})
					id := u.Conn.NewMessageID()
					parsed, _ := imap.NewParsedMessage(g.Bytes)
					u.Conn.RememberLiteral(id, g.Bytes, imap.NewFlagSet(), world.SimStart)
					var inbox imap.MailboxID
					for bid, nm := range u.Conn.MboxNames {
						if len(nm) == 1 && nm[0] == "INBOX" {
							inbox = bid
						}
					}
					upd = imap.NewMessagesCreated(false, &imap.MessageCreated{Message: imap.Message{ID: id, Flags: imap.NewFlagSet(), Date: world.SimStart}, Literal: g.Bytes, MailboxIDs: []imap.MailboxID{inbox}, ParsedMessage: parsed})
				case 1:
					ids := make([]string, 0)
					for id := range u.Conn.Msgs {
						ids = append(ids, string(id))
					}
					sort.Strings(ids)
					if len(ids) == 0 {
						return
					}
					upd = imap.NewMessageFlagsUpdated(imap.MessageID(ids[abs(a.Arg(2))%len(ids)]), imap.NewFlagSet(`\Seen`, `\Flagged`))
				case 2:
					ids := make([]string, 0)
					for id := range u.Conn.Msgs {
						ids = append(ids, string(id))
					}
					sort.Strings(ids)
					if len(ids) == 0 {
						return
					}
					upd = imap.NewMessagesDeleted(imap.MessageID(ids[abs(a.Arg(2))%len(ids)]))
				case 3:
					upd = imap.NewNoop()
				}
				// hand it over now (the injector is idle at the start of a burst); it is applied
				// concurrently with whatever else the burst starts
				if !u.Conn.Submit(upd) {
					e.St.Probes["update_not_taken"]++
					return
				}
				ctx, cancel := context.WithCancel(context.Background())
				done := make(chan error, 1)
				go func() {
					upd.WaitContext(ctx)
					done <- nil
				}()
				updWaits = append(updWaits, updWait{done: done, cancel: cancel, user: ui, what: fmt.Sprintf("%T", upd)})
				e.Tr.Event("upd", ui, fmt.Sprintf("%T", upd))
			case "flood":
				// many updates in a row for one user: a session that does not take them (it
				// idles on a stalled connection, or is busy) has more queued than its update
				// channel buffers (32) when it ends
				ui := abs(a.Arg(0)) % nusers
				if removed[ui] || closed {
					return
				}
				u := e.W.Users[ui]
				ids := make([]string, 0)
				for id := range u.Conn.Msgs {
					ids = append(ids, string(id))
				}
				sort.Strings(ids)
				if len(ids) == 0 {
					return
				}
				id := imap.MessageID(ids[abs(a.Arg(1))%len(ids)])
				n := 40 + abs(a.Arg(2))%40
				if sc.C("gated") == 1 {
					// every update is applied and queued for the sessions; none is delivered
					for k := 0; k < n; k++ {
						fl := imap.NewFlagSet(`\Seen`)
						if k%2 == 1 {
							fl = imap.NewFlagSet(`\Flagged`)
						}
						e.W.Submit(u, imap.NewMessageFlagsUpdated(id, fl))
					}
					e.St.Probes["update_floods_held_at_gates"]++
					e.Tr.Event("flood", ui, n, "gated")
					return
				}
				// submitted from a goroutine of its own, one after the other as fast as the
				// server takes them: inside a burst the flood runs next to whatever else starts
				floodDone := make(chan struct{})
				go func() {
					defer close(floodDone)
					for k := 0; k < n; k++ {
						fl := imap.NewFlagSet(`\Seen`)
						if k%2 == 1 {
							fl = imap.NewFlagSet(`\Flagged`)
						}
						upd := imap.NewMessageFlagsUpdated(id, fl)
						for tries := 0; !u.Conn.Submit(upd); tries++ {
							if tries > 200 {
								return
							}
							time.Sleep(time.Millisecond)
						}
					}
				}()
				floods = append(floods, floodDone)
				e.St.Probes["update_floods"]++
				e.Tr.Event("flood", ui, n)
			case "fetchdrop":
				// the client asks for everything, stops reading, and goes away while the server
				// is in the middle of the answer: the command that was producing responses
				// must end, the session must be released
				if !alive || cs.stall || cs.idle || !cs.sel || closed || removed[cs.user] {
					return
				}
				s.C.Conn.SetWriteStall(true)
				s.W.Sim.SetLabel(s.Label)
				s.C.Conn.ClientSend([]byte(s.C.NextTag() + " FETCH 1:* (UID BODY.PEEK[])\r\n"))
				e.W.Quiesce()
				s.C.Conn.ClientReset()
				s.C.Conn.SetWriteStall(false)
				s.C.Dead = true
				e.St.Faults["conn_reset_mid_response"]++
				e.Tr.Event("fetchdrop", s.Label)
			case "drop":
				if s.C.Dead {
					return
				}
				s.C.Conn.ClientReset()
				s.C.Dead = true
				e.St.Faults["conn_close_abrupt"]++
				e.Tr.Event("drop", s.Label)
			case "stall":
				if s.C.Dead {
					return
				}
				cs.stall = !cs.stall
				s.C.Conn.SetWriteStall(cs.stall)
				e.St.Faults["conn_stall"]++
				e.Tr.Event("stall", s.Label, cs.stall)
			case "logout":
				if !alive || cs.stall || cs.idle {
					return
				}
				tag := s.C.NextTag()
				s.C.Conn.ClientSend([]byte(tag + " LOGOUT\r\n"))
				pending = append(pending, c19Pending{s, tag, "LOGOUT"})
				e.Tr.Event("logout", s.Label)
			case "rmuser":
				ui := abs(a.Arg(0)) % nusers
				if removed[ui] || closed {
					return
				}
				removed[ui] = true
				done := make(chan error, 1)
				uid := e.W.Users[ui].ID
				rf := a.Arg(1)%2 == 0
				go func() { done <- e.W.Srv.RemoveUser(context.Background(), uid, rf) }()
				waiters = append(waiters, done)
				waitNames = append(waitNames, "RemoveUser")
				e.St.Faults["remove_user"]++
				e.Tr.Event("rmuser", ui, rf)
			case "close":
				if closed {
					return
				}
				closed = true
				done := make(chan error, 1)
				go func() { done <- e.W.CloseServerOnly() }()
				waiters = append(waiters, done)
				waitNames = append(waitNames, "Server.Close")
				e.St.Faults["server_close"]++
				e.Tr.Event("close")
			}
		}
		settle := func() {
			// release stalls so that everything can finish (a goroutine waiting for a sync.Mutex
			// held by a writer blocked on a stalled connection is not durably blocked for
			// synctest: quiescence would never be reported), run to quiescence, judge liveness
			for _, cs := range ss {
				if cs.stall {
					cs.stall = false
					cs.s.C.Conn.SetWriteStall(false)
				}
			}
			e.W.Quiesce()
			e.CheckPanics()
			if e.Failed() {
				return
			}
			for i, w := range waiters {
				select {
				case <-w:
				default:
					e.FailSig("liveness", waitNames[i], "%s has not returned at quiescence (nothing can move any more)\n%s", waitNames[i], gluonStacks())
					return
				}
			}
			waiters, waitNames = nil, nil
			for _, uw := range updWaits {
				select {
				case <-uw.done:
				default:
					if !removed[uw.user] && !closed {
						e.FailSig("liveness", "update-ack", "connector update %s was taken by the server but is not acknowledged at quiescence\n%s", uw.what, gluonStacks())
					}
					uw.cancel() // the user is gone: nobody will acknowledge it
				}
			}
			updWaits = nil
			if e.Failed() {
				return
			}
			seenTags := map[*world.Sess]map[string]bool{}
			for _, cs := range ss {
				seenTags[cs.s] = map[string]bool{}
				if cs.s.C.Dead {
					continue
				}
				lines, _ := cs.s.Poll()
				for _, l := range lines {
					seenTags[cs.s][l.Tag] = true
				}
				if cs.idle && seenTags[cs.s][cs.idleTag] {
					cs.idle = false // IDLE was refused or ended by the server
				}
			}
			for _, p := range pending {
				if seenTags[p.s] == nil {
					seenTags[p.s] = map[string]bool{}
				}
				if p.text == "DONE" && !seenTags[p.s][p.tag] {
					// DONE sent to a session whose IDLE had been refused is answered with an
					// untagged BAD: not a missing completion
					seenTags[p.s][p.tag] = seenTags[p.s]["*"]
				}
			}
			for _, p := range pending {
				if !seenTags[p.s][p.tag] && !p.s.C.Conn.ServerClosed() && !p.s.C.Dead {
					e.FailSig("liveness", "command", "command %q of %s got no completion and its connection is still open at quiescence\n%s", p.text, p.s.Label, gluonStacks())
					return
				}
				if p.s.C.Conn.ServerClosed() {
					p.s.C.Dead = true
				}
			}
			pending = nil
			for _, cs := range ss {
				if cs.s.C.Conn.ServerClosed() {
					cs.s.C.Dead = true
				}
			}
		}
		bursts := 0
		for i := 0; i < len(sc.Actions); i++ {
			e.Step = i + 1
			a := sc.Actions[i]
			if a.K == "burst" {
				// the next 2-4 actions start together
				k := 2 + abs(a.Arg(0))%3
				for j := 1; j <= k && i+j < len(sc.Actions); j++ {
					if sc.Actions[i+j].K != "burst" {
						start(sc.Actions[i+j])
					}
				}
				i += k
				bursts++
				settle()
			} else {
				start(a)
				settle()
			}
			if rep := gluonRaces(raceReports()); rep != "" && e.V == nil {
				e.FailSig("data-race", raceSig(rep), "the race detector reported:\n%s", rep)
			}
			if e.Failed() {
				return
			}
			// keep enough sessions alive
			for k, cs := range ss {
				if cs.s.C.Dead && !closed && !removed[cs.user] {
					if ns := connect(cs.user); ns != nil {
						ss[k] = ns
					}
				}
			}
		}
		e.Step = len(sc.Actions) + 1
		// teardown: close everything, then no goroutine with a gluon frame may remain
		if sc.C("gated") == 1 {
			// the sessions end with their updates still queued; then the gates are opened for
			// good, so that nothing is left parked by the simulator itself
			for _, cs := range ss {
				if !cs.s.C.Dead {
					cs.s.C.Conn.ClientReset()
					cs.s.C.Dead = true
				}
			}
			e.W.Quiesce()
			e.W.Sim.OpenGates(true)
			e.W.ReleaseAll()
			e.W.Quiesce()
		}
		for _, cs := range ss {
			if !cs.s.C.Dead {
				cs.s.C.Conn.ClientReset()
				cs.s.C.Dead = true
			}
		}
		e.W.Quiesce()
		if !closed {
			done := make(chan error, 1)
			go func() { done <- e.W.CloseServerOnly() }()
			e.W.Quiesce()
			select {
			case <-done:
			default:
				e.FailSig("liveness", "Server.Close", "Server.Close has not returned at quiescence\n%s", gluonStacks())
				return
			}
		}
		for _, u := range e.W.Users {
			u.Conn.Close(context.Background())
		}
		e.W.Quiesce()
		for _, f := range floods {
			select {
			case <-f:
			default:
				e.St.Probes["flood_cut_short_by_teardown"]++
			}
		}
		e.CheckPanics()
		if rep := gluonRaces(raceReports()); rep != "" && e.V == nil {
			e.FailSig("data-race", raceSig(rep), "the race detector reported:\n%s", rep)
		}
		if e.Failed() {
			return
		}
		if st := gluonStacks(); st != "" {
			e.FailSig("leak", leakSig(st), "after Close returned and all connections and connectors were closed, goroutines running gluon code remain (started during: %v):\n%s", e.W.Sim.LiveTasks(), st)
		}
		e.St.Checks++
		e.St.Nontrivial = bursts > 0
		e.St.Probes["bursts"] += bursts
	})
	_ = baseline
	// reports produced while the world was torn down belong to this run as well
	if rep := gluonRaces(raceReports()); rep != "" && res.V == nil && res.Infra == nil {
		sig := raceSig(rep)
		res.V = &core.Violation{Property: "C19", Oracle: "data-race", Detail: "the race detector reported:\n" + rep, Sig: "data-race: " + sig, Step: len(sc.Actions) + 1}
	}
	return res
}

// gluonStacks returns the stacks of goroutines that have a gluon frame (not the
// simulator's own).
func gluonStacks() string {
	// only goroutines of the calling goroutine's synctest bubble count (goroutines left
	// behind by an earlier run of this worker process live in another bubble)
	var self [256]byte
	hdr := string(self[:runtime.Stack(self[:], false)])
	bubble := ""
	if m := bubbleRe.FindStringSubmatch(hdr); m != nil {
		bubble = m[0]
	}
	buf := make([]byte, 4<<20)
	n := runtime.Stack(buf, true)
	var out []string
	for _, g := range strings.Split(string(buf[:n]), "\n\n") {
		if !strings.Contains(g, "github.com/ProtonMail/gluon/") {
			continue
		}
		if bubble != "" && !strings.Contains(strings.SplitN(g, "\n", 2)[0], bubble+"]") {
			continue
		}
		if strings.Contains(g, "verifharness/") || strings.Contains(g, "testing.tRunner") {
			continue
		}
		out = append(out, g)
	}
	if len(out) > 6 {
		out = append(out[:6], fmt.Sprintf("... and %d more goroutines", len(out)-6))
	}
	return strings.Join(out, "\n\n")
}

func leakSig(st string) string {
	m := frameRe.FindStringSubmatch(st)
	if m == nil {
		return "?"
	}
	return m[1]
}
