package props

// C08 — the SQLite message index behaves like a plain relational model.
//
// Component-level check, no server and no scheduler: the real db.Client (whatever
// gluon.New would use by default, obtained through the bridge) is driven with generated
// sequences over every method of db.ReadOnly and db.Transaction and compared with the
// in-memory model of c08_model.go.
//
// Scenario = config + action list.  Actions:
//   begin [kind]      open a group: kind%4==0 a Read callback, otherwise a Write callback
//   end [abort]       close the group; abort%3==0 makes the Write callback return an error
//   <MethodName> a..  one call of that interface method (parameters modulo the state)
//   reopen            Close + New + Init on the same directory
//   crash             dirty restart: copy the database directory (db, -wal, -shm) as it is
//                     right now - inside an open transaction if there is one - and carry
//                     on with a new client on the copy; the model is the last commit
// An operation outside a group runs in its own Read/Write.  Any sub-list of a scenario
// is a valid scenario.

import (
	"context"
	"errors"
	"fmt"
	"io"
	"os"
	"path/filepath"
	"reflect"
	"sort"
	"strings"
	"sync"

	"github.com/ProtonMail/gluon"
	"github.com/ProtonMail/gluon/db"
	"github.com/ProtonMail/gluon/imap"

	"verifharness/core"
)

type C08 struct{}

func (C08) ID() string { return "C08" }

// Knobs: input classes that hit defects known from reading the code.  They are off in
// ordinary runs so the defects do not mask everything else; a knob run enables one.

// Boundary lengths for list arguments (db.ChunkLimit is 1000; some functions chunk at 500).
var c8Bounds = []int{499, 500, 501, 999, 1000, 1001, 1999, 2000, 2001, 2500}

// Methods taking a list argument, in a fixed order (bulk runs walk this list by run index).
var c8ListMethods = []string{
	"CreateMessages", "AddMessagesToMailbox", "RemoveMessagesFromMailbox",
	"SetMailboxMessagesDeletedFlag", "DeleteMessages", "AddFlagToMessages",
	"RemoveFlagFromMessages", "SetFlagsOnMessages", "GetMessagesFlags",
	"MailboxFilterContains", "MailboxTranslateRemoteIDs",
}

const c8MaxList = 2600

// Relative frequency of the write methods in generated runs (2 when not listed): the
// operations on mailbox rows and message flags meet each other more often than the
// administrative ones.
var c8WriteWeight = map[string]int{
	"CreateMessages": 4, "CreateMessageAndAddToMailbox": 6, "AddMessagesToMailbox": 6,
	"RemoveMessagesFromMailbox": 3, "SetMailboxMessagesDeletedFlag": 5,
	"ClearRecentFlagInMailboxOnMessage": 3, "ClearRecentFlagsInMailbox": 3,
	"AddFlagToMessages": 4, "RemoveFlagFromMessages": 4, "SetFlagsOnMessages": 4,
	"DeleteMessages": 2, "MarkMessageAsDeleted": 1, "MarkMessageAsDeletedAndAssignRandomRemoteID": 1,
	"MarkMessageAsDeletedWithRemoteID": 1, "UpdateRemoteMessageID": 3,
	"CreateMailbox": 2, "GetOrCreateMailbox": 1, "GetOrCreateMailboxAlt": 1, "CreateMailboxIfNotExists": 1,
	"RenameMailboxWithRemoteID": 2, "DeleteMailboxWithRemoteID": 1, "SetMailboxSubscribed": 2,
	"UpdateRemoteMailboxID": 1, "SetMailboxUIDValidity": 1,
	"AddFlagsToAllMailboxes": 1, "AddPermFlagsToAllMailboxes": 1,
	"AddDeletedSubscription": 1, "RemoveDeletedSubscriptionWithName": 1, "StoreConnectorSettings": 1,
}

var errC8Abort = errors.New("c08: transaction callback gives up")

// ---------------------------------------------------------------------------------
// generation

func c8Op(r *core.Rand, name string, n int) core.Action {
	a := core.Action{K: name, A: []int{n}}
	for i := 0; i < 6; i++ {
		a.A = append(a.A, r.Intn(1<<16))
	}
	return a
}

func c8SmallLen(r *core.Rand) int {
	switch r.Weighted([]int{2, 5, 4, 3}) {
	case 0:
		return 0
	case 1:
		return 1
	case 2:
		return 2
	}
	return r.Range(3, 7)
}

func (C08) Generate(r *core.Rand, tier string, idx int) *core.Scenario {
	c8Init()
	sc := &core.Scenario{Property: "C08", Cfg: map[string]int{}}
	// input classes whose defects were repaired: each in half of the runs
	for _, k := range []string{"k_existsid", "k_updremote", "k_noflags", "k_quote", "k_randmember", "k_flagcase"} {
		if r.P(1, 2) {
			sc.Cfg[k] = 1
		}
	}
	// input classes with an open finding: one of them in a quarter of the runs
	if r.P(1, 8) {
		sc.Cfg["k_comma"] = 1
	} else if r.P(1, 8) {
		sc.Cfg["k_numid"] = 1 // remote message IDs that read as numbers
	}
	bulk := r.P(1, 4)
	if bulk {
		sc.Cfg["bulk"] = 1
	}
	reads, writes := c8ReadNames, c8WriteNames
	enabled := func(name string) bool {
		switch name {
		case "MailboxExistsWithID":
			return sc.Cfg["k_existsid"] == 1
		}
		return true
	}
	pick := func(names []string) string {
		if sc.Cfg["k_existsid"] == 1 && r.P(1, 5) {
			return "MailboxExistsWithID"
		}
		for {
			n := names[r.Intn(len(names))]
			if enabled(n) {
				return n
			}
		}
	}
	add := func(a core.Action) { sc.Actions = append(sc.Actions, a) }
	isList := map[string]bool{}
	for _, m := range c8ListMethods {
		isList[m] = true
	}
	lenFor := func(name string) int {
		if !isList[name] {
			return r.Intn(4) // flag-list length etc. where used
		}
		if bulk && r.P(1, 3) {
			if r.P(1, 3) {
				return []int{0, 1, 2}[r.Intn(3)]
			}
			return c8Bounds[r.Intn(len(c8Bounds))]
		}
		return c8SmallLen(r)
	}

	// preamble: something to work on (the shrinker may drop it)
	add(core.Action{K: "begin", A: []int{1}})
	for i, n := 0, r.Range(1, 3); i < n; i++ {
		add(c8Op(r, "CreateMailbox", r.Intn(4)))
	}
	if bulk {
		// enough messages for the longest list, some of them in a mailbox
		target := c8ListMethods[idx%len(c8ListMethods)]
		tlen := c8Bounds[(idx/len(c8ListMethods))%len(c8Bounds)]
		sc.Cfg["target_len"] = tlen
		create := tlen
		if target != "CreateMessages" {
			create = tlen + r.Intn(3)
		}
		// The state is prepared so that every element of the target's list matters (a
		// skipped or doubled element at a chunk boundary changes what is read back).
		cm := c8Op(r, "CreateMessages", create)
		cm.A[3] = 1 // no clashing request
		fl := r.Intn(1 << 10)
		if target == "AddFlagToMessages" || target == "RemoveFlagFromMessages" {
			cm.A[2] = 0 // created without flags
		}
		add(cm)
		add(core.Action{K: "end", A: []int{1}})
		switch target {
		case "CreateMessages", "AddMessagesToMailbox", "DeleteMessages":
			// keep the messages out of mailboxes
		case "RemoveFlagFromMessages":
			a := c8Op(r, "AddFlagToMessages", create)
			a.A[1], a.A[2], a.A[3] = 0, fl, 1
			add(a)
		default:
			a := c8Op(r, "AddMessagesToMailbox", create)
			a.A[1] = 0 // first mailbox
			a.A[3] = 1 // valid elements only
			add(a)
		}
		if target != "CreateMessages" {
			if r.P(1, 2) {
				add(core.Action{K: "begin", A: []int{1}})
			}
			a := c8Op(r, target, tlen)
			a.A[1] = 0
			switch target {
			case "DeleteMessages":
				a.A[3] = 2 // messages that are in no mailbox
			case "AddMessagesToMailbox", "SetFlagsOnMessages":
				a.A[3] = 1 // valid elements only
			case "AddFlagToMessages":
				a.A[2], a.A[3] = fl, 1
			case "RemoveFlagFromMessages":
				a.A[2], a.A[3], a.A[4] = fl, 0, 1 // the flag every message got above
			case "RemoveMessagesFromMailbox", "SetMailboxMessagesDeletedFlag":
				a.A[3], a.A[4] = 0, 1 // members of the mailbox; deleted=true
			case "MailboxFilterContains":
				a.A[3] = 2 // members
			}
			add(a)
			switch r.Intn(6) {
			case 0:
				add(core.Action{K: "end", A: []int{0}}) // abort after the bulk operation
			case 1:
				add(core.Action{K: "crash"})
			}
		}
		for i, n := 0, r.Range(2, 10); i < n; i++ {
			switch r.Intn(12) {
			case 0:
				add(core.Action{K: "begin", A: []int{r.Intn(8)}})
			case 1:
				add(core.Action{K: "end", A: []int{r.Intn(6)}})
			case 2:
				add(core.Action{K: []string{"reopen", "crash"}[r.Intn(2)]})
			default:
				name := c8ListMethods[r.Intn(len(c8ListMethods))]
				if r.P(1, 3) {
					name = pick(reads)
				}
				add(c8Op(r, name, lenFor(name)))
			}
		}
		return sc
	}

	for i, n := 0, r.Range(1, 4); i < n; i++ {
		add(c8Op(r, []string{"CreateMessages", "CreateMessageAndAddToMailbox"}[r.Intn(2)], r.Range(1, 4)))
	}
	add(core.Action{K: "end", A: []int{1}})

	n := r.Range(20, 55)
	if tier == "thorough" && r.P(1, 4) {
		n = r.Range(55, 120)
	}
	// per-run bias: some runs are write-heavy; a run also has a "focus" (a few write
	// methods that get extra weight), so that pairs of operations meet on the same rows
	wWrite := r.Range(5, 8)
	weights := make([]int, len(writes))
	for i, name := range writes {
		w, ok := c8WriteWeight[name]
		if !ok {
			w = 2
		}
		if !enabled(name) {
			w = 0
		} else if r.P(1, 6) {
			w *= 4
		}
		weights[i] = w
	}
	for i := 0; i < n; i++ {
		switch k := r.Intn(40); {
		case k < 4:
			add(core.Action{K: "begin", A: []int{r.Intn(8)}})
		case k < 8:
			add(core.Action{K: "end", A: []int{r.Intn(6)}})
		case k == 8:
			add(core.Action{K: "reopen"})
		case k == 9:
			add(core.Action{K: "crash"})
		case k == 10:
			add(core.Action{K: "preads", A: []int{r.Intn(100), r.Intn(100)}})
		default:
			name := ""
			if r.Intn(10) < wWrite {
				name = writes[r.Weighted(weights)]
			} else {
				name = pick(reads)
			}
			add(c8Op(r, name, lenFor(name)))
		}
	}
	return sc
}

// ---------------------------------------------------------------------------------
// execution

type c8Exec struct {
	sc    *core.Scenario
	tr    *core.Tracer
	st    *core.Stats
	v     *core.Violation
	infra error
	step  int
	ctx   context.Context

	ci     db.ClientInterface
	base   string // run directory
	dir    string // directory of the current database
	gen    int    // crash image counter
	client db.Client

	committed *c8Model
	m         *c8Model // working state: a clone of committed inside a write group
	rd        db.ReadOnly
	tx        db.Transaction // nil outside a write group
	abortErr  error          // set by an operation after which the transaction must be given up
	txWrites  int

	pool    []c8ID // every message id ever used, in creation order
	nextRem int
	touched []c8ID // boundary elements of the last list arguments (read back in full)

	okWrites int
	faults   int
	bigList  bool
}

const c8User = "user"

func (x *c8Exec) knob(k string) bool { return x.sc.Cfg[k] != 0 }
func (x *c8Exec) failed() bool       { return x.v != nil || x.infra != nil }

// fail records the first violation.  sig names the violation class (method or read-back
// item) without any values, so that it is stable under shrinking.
func (x *c8Exec) fail(oracle, sig, format string, args ...any) {
	if x.v != nil {
		return
	}
	d := c8Scrub(fmt.Sprintf(format, args...))
	if len(d) > 900 {
		d = d[:900] + "..."
	}
	x.v = &core.Violation{Property: "C08", Oracle: oracle, Detail: d, Sig: oracle + ": " + sig, Step: x.step}
	x.tr.Event("VIOLATION", oracle, d)
}

func c8Class(err error) string {
	switch {
	case err == nil:
		return "nil"
	case db.IsErrNotFound(err):
		return "notfound"
	}
	return "other"
}

// expect judges the error class of one call.  want is one of
//
//	nil       must succeed
//	notfound  must be db.ErrNotFound
//	other     must fail with an error that is not ErrNotFound (the code states the error)
//	anyerr    nonsense input: must fail, no effect (inside a transaction: give it up)
//	unspec    nonsense input for which neither failure nor success is stated: no effect
//
// It returns true when the call succeeded and its result is to be compared.
func (x *c8Exec) expect(method, args string, err error, want string, write bool) bool {
	got := c8Class(err)
	args = c8Scrub(args)
	x.tr.Event(method + "(" + args + ") -> " + got)
	if err != nil && x.tr.Keep {
		x.tr.Log = append(x.tr.Log, "    error text: "+c8Scrub(err.Error())) // not part of the trace hash
	}
	x.st.Probes["m:"+method]++
	ok := false
	switch want {
	case "nil", "notfound", "other":
		ok = got == want
	case "anyerr":
		ok = got != "nil"
	case "unspec":
		ok = true
	}
	if !ok {
		x.fail("errclass", method+" expects "+want+" got "+got, "%s(%s): model expects %s, implementation returned %s (%v)", method, args, want, got, err)
		return false
	}
	if got != "nil" {
		x.st.Probes["err_"+got]++
		if write && !(want == "other") {
			// a failed write leaves the transaction in a state nobody specifies
			x.abortErr = err
		}
		if write && want == "other" {
			x.st.Probes["clean_error_continue"]++
		}
		return false
	}
	if write {
		x.okWrites++
		x.txWrites++
	}
	return want == "nil" || want == "unspec"
}

// call runs f, turning a panic of the implementation into a violation.
func (x *c8Exec) call(method string, f func()) {
	defer func() {
		if r := recover(); r != nil {
			x.fail("panic", method, "%s panicked: %v", method, r)
		}
	}()
	f()
}

func (x *c8Exec) open(dir string, wantNew bool) {
	var cl db.Client
	var isNew bool
	var err error
	x.call("New", func() { cl, isNew, err = x.ci.New(dir, c8User) })
	if x.failed() {
		return
	}
	if err != nil {
		x.fail("open", "New failed", "New(%s) failed: %v", filepath.Base(dir), err)
		return
	}
	if isNew != wantNew {
		x.fail("open", "New isNew", "New reports isNew=%v, expected %v", isNew, wantNew)
	}
	x.call("Init", func() { err = cl.Init(x.ctx, imap.NewIncrementalUIDValidityGenerator()) })
	if err != nil {
		x.fail("open", "Init failed", "Init failed: %v", err)
	}
	x.client = cl
	x.dir = dir
}

func (x *c8Exec) closeClient() {
	if x.client == nil {
		return
	}
	var err error
	x.call("Close", func() { err = x.client.Close() })
	if err != nil {
		x.fail("open", "Close failed", "Close failed: %v", err)
	}
	x.client = nil
}

func c8CopyDir(src, dst string) error {
	if err := os.MkdirAll(dst, 0o700); err != nil {
		return err
	}
	ents, err := os.ReadDir(src)
	if err != nil {
		return err
	}
	// main file first, then the log, then the index: a reader of the copy never sees a
	// log older than the main file (nothing else runs meanwhile anyway)
	sort.Slice(ents, func(i, j int) bool { return ents[i].Name() < ents[j].Name() })
	for _, e := range ents {
		if e.IsDir() {
			continue
		}
		in, err := os.Open(filepath.Join(src, e.Name()))
		if err != nil {
			return err
		}
		out, err := os.Create(filepath.Join(dst, e.Name()))
		if err != nil {
			in.Close()
			return err
		}
		_, err = io.Copy(out, in)
		in.Close()
		if cerr := out.Close(); err == nil {
			err = cerr
		}
		if err != nil {
			return err
		}
	}
	return nil
}

func (x *c8Exec) image() string {
	x.gen++
	dst := filepath.Join(x.base, fmt.Sprintf("img%d", x.gen))
	if err := c8CopyDir(x.dir, dst); err != nil {
		x.infra = fmt.Errorf("crash image: %w", err)
	}
	return dst
}

func (x *c8Exec) switchTo(img, kind string) {
	old := x.dir
	x.closeClient()
	os.RemoveAll(old)
	if x.failed() {
		return
	}
	x.open(img, false)
	x.st.Faults[kind]++
	x.faults++
	x.tr.Event("fault " + kind)
	x.m = x.committed
	x.readback(kind)
}

func (x *c8Exec) reopen() {
	x.closeClient()
	if x.failed() {
		return
	}
	x.open(x.dir, false)
	x.st.Faults["reopen"]++
	x.faults++
	x.tr.Event("fault reopen")
	x.readback("reopen")
}

func (x *c8Exec) execOp(a core.Action) {
	op := c8Ops[a.K]
	x.abortErr = nil
	x.call(a.K, func() { op.fn(x, a) })
}

func (x *c8Exec) run() {
	acts := x.sc.Actions
	i := 0
	for i < len(acts) && !x.failed() {
		x.step = i + 1
		a := acts[i]
		switch a.K {
		case "begin":
			i = x.group(i+1, a.Arg(0)%4 == 0, false)
		case "end":
			i++
		case "reopen":
			x.reopen()
			i++
		case "crash":
			img := x.image()
			if x.infra == nil {
				x.switchTo(img, "crash_between")
			}
			i++
		case "preads":
			// several sessions read at the same time (Client.Read admits concurrent readers):
			// what the statement says about every later operation must not depend on which
			// pooled connection it happens to get afterwards
			x.parallelReads(2+a.Arg(0)%5, 5+a.Arg(1)%20)
			i++
		default:
			op, ok := c8Ops[a.K]
			if !ok {
				x.infra = fmt.Errorf("unknown action %q", a.K)
				return
			}
			i = x.group(i, !op.write, true)
		}
	}
}

func (x *c8Exec) parallelReads(k, n int) {
	x.tr.Event("preads", k, n)
	ids := x.committed.mboxIDs()
	var wg sync.WaitGroup
	errs := make([]error, k)
	for g := 0; g < k; g++ {
		wg.Add(1)
		go func(g int) {
			defer wg.Done()
			for i := 0; i < n && errs[g] == nil; i++ {
				errs[g] = x.client.Read(x.ctx, func(ctx context.Context, rd db.ReadOnly) error {
					if _, err := rd.GetAllMailboxesWithAttr(ctx); err != nil {
						return err
					}
					for _, id := range ids {
						if _, err := rd.GetMailboxMessageForNewSnapshot(ctx, imap.InternalMailboxID(id)); err != nil {
							return err
						}
					}
					return nil
				})
			}
		}(g)
	}
	wg.Wait()
	x.st.Probes["parallel_read_storms"]++
	x.st.Faults["concurrent_readers"] += k
	for _, err := range errs {
		if err != nil && !x.failed() {
			x.fail("errclass", "parallel Read", "a Read running next to %d other readers returned %v", k-1, err)
		}
	}
}

// group runs actions from index j inside one Read or Write callback and returns the
// index of the first action not consumed.
func (x *c8Exec) group(j int, read, single bool) int {
	acts := x.sc.Actions
	if !single {
		x.tr.Event(map[bool]string{true: "begin read", false: "begin write"}[read])
	}
	if read {
		var err error
		x.call("Read", func() {
			err = x.client.Read(x.ctx, func(ctx context.Context, rd db.ReadOnly) error {
				x.rd, x.tx = rd, nil
				for j < len(acts) && !x.failed() {
					a := acts[j]
					x.step = j + 1
					if a.K == "end" {
						j++
						break
					}
					op, ok := c8Ops[a.K]
					if !ok || op.write {
						break
					}
					x.execOp(a)
					j++
					if single {
						break
					}
				}
				return nil
			})
		})
		x.rd = nil
		if err != nil && !x.failed() {
			x.fail("errclass", "Read", "Read returned %v although its callback returned nil", err)
		}
		return j
	}

	x.m = x.committed.clone()
	x.txWrites = 0
	var cbErr error
	img := ""
	var err error
	x.call("Write", func() {
		err = x.client.Write(x.ctx, func(ctx context.Context, tx db.Transaction) error {
			x.rd, x.tx = tx, tx
			for j < len(acts) && !x.failed() {
				a := acts[j]
				x.step = j + 1
				if a.K == "end" {
					j++
					if a.Arg(0)%3 == 0 {
						x.st.Faults["tx_abort"]++
						if x.txWrites > 0 {
							x.st.Probes["abort_after_writes"]++
						}
						cbErr = errC8Abort
					}
					break
				}
				if a.K == "crash" {
					j++
					img = x.image()
					if x.txWrites > 0 {
						x.st.Probes["crash_with_uncommitted_writes"]++
					}
					cbErr = errC8Abort
					break
				}
				if _, ok := c8Ops[a.K]; !ok {
					break // begin / reopen: commit first
				}
				x.execOp(a)
				j++
				if x.abortErr != nil {
					x.st.Faults["op_error_abort"]++
					cbErr = x.abortErr
					break
				}
				if single {
					break
				}
			}
			if x.failed() && cbErr == nil {
				cbErr = errC8Abort
			}
			return cbErr
		})
	})
	x.rd, x.tx = nil, nil
	if x.failed() {
		return j
	}
	if cbErr != nil {
		x.faults++
		x.tr.Event("abort")
		if err == nil {
			x.fail("errclass", "Write nil after callback error", "Write returned nil although its callback returned an error (%v)", cbErr)
			return j
		}
		if !errors.Is(err, cbErr) {
			x.fail("errclass", "Write other error", "Write returned %q, its callback returned %q", err, cbErr)
			return j
		}
		x.m = x.committed // a transaction that returns an error leaves no trace
	} else {
		x.tr.Event("commit")
		if err != nil {
			x.fail("errclass", "Write commit", "Write failed to commit: %v", err)
			return j
		}
		x.committed = x.m
		if x.txWrites > 0 {
			x.st.Probes["committed_tx"]++
		}
	}
	if img != "" {
		if x.infra == nil {
			x.switchTo(img, "crash_in_tx")
		}
		return j
	}
	x.readback("after-write")
	return j
}

func (C08) Execute(sc *core.Scenario, keepLog bool) *core.Result {
	res := &core.Result{Stats: core.NewStats()}
	tr := &core.Tracer{Keep: keepLog}
	if err := c8Init(); err != nil {
		res.Infra = err
		return res
	}
	base, err := os.MkdirTemp(ScratchBase, "c08-")
	if err != nil {
		res.Infra = err
		return res
	}
	defer os.RemoveAll(base)
	x := &c8Exec{sc: sc, tr: tr, st: &res.Stats, ctx: context.Background(), base: base,
		ci: gluon.VerifDefaultDBClientInterface(), committed: c8NewModel()}
	x.m = x.committed
	// two ids that never exist
	x.freshID()
	x.freshID()
	func() {
		defer func() {
			if r := recover(); r != nil {
				x.infra = fmt.Errorf("harness panic: %v", r)
			}
		}()
		x.open(filepath.Join(base, "db0"), true)
		if !x.failed() {
			x.run()
		}
		if !x.failed() {
			x.step = len(sc.Actions)
			x.readback("final")
		}
	}()
	if x.client != nil {
		func() {
			defer func() { recover() }()
			x.client.Close()
		}()
	}
	res.V = x.v
	res.Infra = x.infra
	res.Stats.Actions = len(sc.Actions)
	res.Stats.TraceHash = tr.Hash()
	res.Stats.Nontrivial = x.okWrites >= 3 && (x.faults > 0 || x.bigList)
	res.Log = tr.Log
	return res
}

// ---------------------------------------------------------------------------------
// op table and its start-up check

type c8OpSpec struct {
	write bool
	fn    func(x *c8Exec, a core.Action)
}

var (
	c8Ops        = map[string]c8OpSpec{}
	c8ReadNames  []string
	c8WriteNames []string
	c8InitErr    error
	c8InitDone   bool
)

func c8Reg(name string, write bool, fn func(x *c8Exec, a core.Action)) {
	if _, dup := c8Ops[name]; dup {
		panic("c08: operation registered twice: " + name)
	}
	c8Ops[name] = c8OpSpec{write: write, fn: fn}
}

// c8Init checks, by reflection over the interfaces of the tree under test, that the op
// table drives every method of db.ReadOnly and db.Transaction (and nothing else).
func c8Init() error {
	if c8InitDone {
		return c8InitErr
	}
	c8InitDone = true
	ro := reflect.TypeOf((*db.ReadOnly)(nil)).Elem()
	txt := reflect.TypeOf((*db.Transaction)(nil)).Elem()
	isRO := map[string]bool{}
	var problems []string
	for i := 0; i < ro.NumMethod(); i++ {
		isRO[ro.Method(i).Name] = true
	}
	all := map[string]bool{}
	for i := 0; i < txt.NumMethod(); i++ {
		n := txt.Method(i).Name
		all[n] = true
		spec, ok := c8Ops[n]
		switch {
		case !ok:
			problems = append(problems, "method "+n+" of db.Transaction is not driven by the C08 op table")
		case spec.write == isRO[n]:
			problems = append(problems, fmt.Sprintf("method %s: op table says write=%v but db.ReadOnly membership is %v", n, spec.write, isRO[n]))
		}
	}
	for n := range isRO {
		if !all[n] {
			problems = append(problems, "method "+n+" of db.ReadOnly is missing from db.Transaction")
		}
	}
	for n, spec := range c8Ops {
		if !all[n] {
			problems = append(problems, "op table entry "+n+" is not a method of db.Transaction")
		}
		if spec.write {
			c8WriteNames = append(c8WriteNames, n)
		} else {
			c8ReadNames = append(c8ReadNames, n)
		}
	}
	sort.Strings(c8ReadNames)
	sort.Strings(c8WriteNames)
	for _, n := range c8ListMethods {
		if _, ok := c8Ops[n]; !ok {
			problems = append(problems, "list method "+n+" is not in the op table")
		}
	}
	if len(problems) > 0 {
		sort.Strings(problems)
		c8InitErr = fmt.Errorf("C08 op table does not match the db interfaces: %s", strings.Join(problems, "; "))
	}
	return c8InitErr
}
