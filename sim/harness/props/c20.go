package props

import (
	"bytes"
	"errors"
	"fmt"
	"strings"

	"github.com/ProtonMail/gluon/connector"
	"github.com/ProtonMail/gluon/imap"
	"github.com/ProtonMail/gluon/limits"

	"verifharness/core"
	"verifharness/gen"
	"verifharness/model"
	"verifharness/simconn"
	"verifharness/wire"
	"verifharness/world"
)

// C20 — a message handed to APPEND is never silently lost.
type C20 struct{}

func (C20) ID() string { return "C20" }

const recoveryName = "Recovered Messages"

var c20Kinds = []string{"append", "arm", "disarm", "copyout", "moveout", "protect", "list", "restart", "size", "move", "expunge-rec", "reappend"}

func (C20) Generate(r *core.Rand, tier string, idx int) *core.Scenario {
	sc := &core.Scenario{Property: "C20", Cfg: map[string]int{}}
	sc.Cfg["labels"] = r.Intn(2)
	if r.P(1, 3) {
		sc.Cfg["reclimit"] = 1
	}
	if r.P(1, 2) {
		sc.Cfg["recfail"] = 1 // (finding F14, repaired) remote failures stay armed while messages are moved out of the recovery mailbox
	}
	if sc.Cfg["reclimit"] == 0 && r.P(1, 2) {
		sc.Cfg["dedupmove"] = 1 // the remote recognises some messages moved out of the recovery mailbox as duplicates
	}
	//                 app arm dis cpo mvo pro lst rst siz mov exr
	weights := []int{16, 8, 3, 4, 4, 4, 3, 1, 2, 2, 1, 4}
	n := r.Range(15, 45)
	for i := 0; i < n; i++ {
		a := core.Action{K: c20Kinds[r.Weighted(weights)]}
		for j := 0; j < 5; j++ {
			a.A = append(a.A, r.Intn(1000))
		}
		sc.Actions = append(sc.Actions, a)
	}
	return sc
}

func (C20) Execute(sc *core.Scenario, keepLog bool) *core.Result {
	cfg := world.Config{Users: []world.UserCfg{{Names: []string{"user"}, Password: "pass"}}}
	// cfg reclimit: a small message-count limit (every mailbox, the recovery mailbox too):
	// what the recovery mailbox has no room for is not kept - and must not be remembered
	// as kept either
	recRoom := 1 << 30
	if sc.C("reclimit") == 1 {
		recRoom = 3
		lim := limits.NewIMAPLimits(1000, uint32(recRoom), imap.UID(1<<30), imap.UID(0xFFFFFFF0))
		cfg.Limits = &lim
	}
	return RunInBubble("C20", sc, keepLog, cfg, func(e *Env) {
		u := e.W.Users[0]
		u.Conn.MoveRemovesSource = sc.C("labels") == 0
		m := NewMail(e, 1, 2, true)
		if e.Failed() {
			return
		}
		rec := e.R.Create(recoveryName, "")
		s := m.Sess[0]
		var sent []*gen.Message  // messages handed to APPEND so far
		var lastBad *gen.Message // the last single-part message with an undecodable body
		objs := map[int]*model.Obj{}
		remoteOf := map[*model.Obj]imap.MessageID{} // remote ID of the objects created by an accepted APPEND
		recHas := func(marker int) bool {
			for _, mm := range rec.Members {
				if mm.Obj.Marker == marker {
					return true
				}
			}
			return false
		}
		failed, recovered, deduped := 0, 0, 0
		selectRec := func() bool {
			s.M.Reset(recoveryName, false)
			r := s.Cmd("SELECT %s", Quote(recoveryName))
			if !r.OK() {
				s.M.Unselect()
				return false
			}
			return true
		}
		check := func(oracle string) {
			e.CheckModel(oracle, false, false)
			if e.Failed() {
				return
			}
			// listed exactly while non-empty
			r := s.Cmd(`LIST "" "*"`)
			listed := false
			for _, l := range r.Lines {
				if l.Keyword() == "LIST" && len(l.Nodes) >= 4 && l.Nodes[3].Str == recoveryName {
					listed = true
				}
			}
			if listed != (len(rec.Members) > 0) {
				e.Fail("recovery-listed", "%q listed=%v although it holds %d messages", recoveryName, listed, len(rec.Members))
			}
		}
		for i, a := range sc.Actions {
			e.Step = i + 1
			switch a.K {
			case "arm":
				kind := []string{simconn.KCreateMessage, simconn.KCreateMessage, simconn.KAddLabel, simconn.KRemoveLabel, simconn.KMove}[abs(a.Arg(0))%5]
				var plan []error
				switch abs(a.Arg(1)) % 8 {
				case 5:
					// the remote's other sentinel errors are failures like any other: only a
					// size refusal exempts a message from being kept
					plan = []error{connector.ErrOperationNotAllowed}
				case 6:
					plan = []error{fmt.Errorf("remote said: %w", connector.ErrOperationNotAllowed), simconn.ErrInjected}
				case 7:
					plan = []error{nil, connector.ErrOperationNotAllowed}
				case 0:
					plan = []error{simconn.ErrInjected}
				case 1:
					plan = []error{simconn.ErrInjected, simconn.ErrInjected, simconn.ErrInjected}
				case 2:
					plan = []error{nil, simconn.ErrInjected}
				case 3:
					plan = []error{simconn.ErrInjected, nil, simconn.ErrInjected}
				case 4:
					plan = []error{errors.New("remote: 422 unprocessable")}
				}
				u.Conn.Arm(kind, plan...)
				e.Tr.Event("arm", kind, len(plan))
			case "disarm":
				u.Conn.Disarm()
				e.Tr.Event("disarm")
			case "size":
				if u.Conn.SizeLimit == 0 {
					u.Conn.SizeLimit = 600
				} else {
					u.Conn.SizeLimit = 0
				}
				e.Tr.Event("size", u.Conn.SizeLimit)
			case "append":
				boxName := m.box(a.Arg(0))
				var msg *gen.Message
				if a.Arg(2)%3 == 0 && len(sent) > 0 {
					msg = sent[abs(a.Arg(3))%len(sent)] // byte-identical retry
				} else if a.Arg(4)%4 == 2 && lastBad != nil {
					// a DIFFERENT message that shares Subject, addresses and Content-Type with an
					// undecodable one kept earlier, and whose body differs only behind the point
					// where decoding fails: it is not a duplicate
					tw := *lastBad
					e.nextMark++
					tw.Marker = e.nextMark
					tw.Bytes = bytes.Replace(lastBad.Bytes, []byte(fmt.Sprintf("X-Sim-Marker: <%d>", lastBad.Marker)), []byte(fmt.Sprintf("X-Sim-Marker: <%d>", tw.Marker)), 1)
					tw.Bytes = append(tw.Bytes, []byte(fmt.Sprintf("twin line %d\r\n", tw.Marker))...)
					e.Msgs[tw.Marker] = &tw
					msg = &tw
					sent = append(sent, msg)
					if recHas(lastBad.Marker) {
						u.Conn.Arm(simconn.KCreateMessage, simconn.ErrInjected)
					}
					e.St.Probes["append_twin_of_undecodable_message"]++
				} else {
					opts := gen.Opts{}
					if a.Arg(2)%5 == 1 {
						opts.BigBody = 2000
					}
					if a.Arg(4)%4 == 0 {
						opts.BadEncoding = true // a body that does not decode (no content hash can be computed)
						e.St.Probes["append_undecodable_body"]++
					}
					msg = e.NewMessage(a.Arg(1), opts)
					sent = append(sent, msg)
					if opts.BadEncoding && len(msg.Root.Children) == 0 && msg.Root.Embedded == nil {
						lastBad = msg
					}
				}
				before := map[string]int{}
				for _, k := range simconn.AllKinds {
					before[k] = u.Conn.FaultsHit[k]
				}
				r := s.Do(wire.WithLiteral(fmt.Sprintf("APPEND %s ", Quote(boxName)), msg.Bytes, ""))
				e.Tr.Event("append", boxName, msg.Marker, r.Status)
				for _, k := range simconn.AllKinds {
					if d := u.Conn.FaultsHit[k] - before[k]; d > 0 {
						e.St.Faults["connector_call_fail:"+k] += d
					}
				}
				sizeErr := false
				newID := ""
				for _, c := range u.Conn.TakeCalls() {
					if c.Kind == simconn.KCreateMessage && errors.Is(c.Err, connector.ErrMessageSizeExceedsLimits) {
						sizeErr = true
					}
					if c.Kind == simconn.KCreateMessage && c.Err == nil {
						newID = c.NewID
					}
				}
				if r.OK() {
					obj, ok := objs[msg.Marker]
					if !ok || true {
						// every successful APPEND creates a new message object (no de-duplicating remote here)
						obj, _ = model.NewObj(msg.Marker, msg.Bytes, nil)
						objs[msg.Marker] = obj
					}
					if newID != "" {
						remoteOf[obj] = imap.MessageID(newID)
					}
					uid := e.R.Boxes[boxName].Add(obj, false)
					var uv, got uint32
					if _, err := fmt.Sscanf(r.Code, "APPENDUID %d %d", &uv, &got); err != nil || got != uid {
						e.Fail("appenduid", "APPEND OK announced %q, model expects UID %d in %q", r.Code, uid, boxName)
					}
				} else {
					failed++
					if sizeErr {
						e.St.Probes["size_exceeded"]++
					} else if !recHas(msg.Marker) {
						if len(rec.Members) >= recRoom {
							e.St.Probes["recovery_mailbox_full"]++
						} else {
							obj, _ := model.NewObj(msg.Marker, msg.Bytes, nil)
							rec.Add(obj, false)
							recovered++
						}
					} else {
						deduped++
					}
				}
				check("conservation")
			case "reappend":
				// a client uploads bytes it fetched earlier: they carry the server's ID header of
				// a message the server still knows, which takes the "known message" path
				src := e.R.Boxes[m.box(a.Arg(0))]
				if len(src.Members) == 0 {
					break
				}
				q := 1 + abs(a.Arg(1))%len(src.Members)
				o := src.Members[q-1].Obj
				dst := m.box(a.Arg(2))
				s.M.Reset(src.Name, true)
				if !s.Cmd("EXAMINE %s", Quote(src.Name)).OK() {
					s.M.Unselect()
					break
				}
				fr := s.Cmd("FETCH %d (BODY.PEEK[])", q)
				var raw []byte
				for _, l := range fr.Lines {
					if _, kw, ok := l.Num(); ok && kw == "FETCH" {
						if fd, err := wire.ParseFetch(l); err == nil {
							if n, ok := fd.Items["BODY[]"]; ok {
								raw = []byte(n.Str)
							}
						}
					}
				}
				s.Cmd("UNSELECT")
				s.M.Unselect()
				if raw == nil {
					break
				}
				r := s.Do(wire.WithLiteral(fmt.Sprintf("APPEND %s ", Quote(dst)), raw, ""))
				e.Tr.Event("reappend", src.Name, q, dst, r.Status)
				u.Conn.TakeCalls()
				e.St.Probes["reappend_fetched_bytes"]++
				if r.OK() {
					uid := e.R.Boxes[dst].Add(o, false)
					var uv, got uint32
					if _, err := fmt.Sscanf(r.Code, "APPENDUID %d %d", &uv, &got); err != nil || got != uid {
						e.Fail("appenduid", "APPEND of fetched bytes answered OK %q, model expects UID %d in %q", r.Code, uid, dst)
					}
				} else {
					failed++
					if !recHas(o.Marker) && len(rec.Members) >= recRoom {
						e.St.Probes["recovery_mailbox_full"]++
					} else if !recHas(o.Marker) {
						// identity (marker) is judged; the bytes are not: they carry the old ID
						// header line, which the authoritative read strips only once
						no, _ := model.NewObj(o.Marker, nil, nil)
						rec.Add(no, false)
						recovered++
					} else {
						deduped++
					}
				}
				check("conservation")
			case "copyout", "moveout":
				if len(rec.Members) == 0 {
					break
				}
				if !selectRec() {
					e.Fail("recovery-select", "SELECT %q failed although it should hold %d messages", recoveryName, len(rec.Members))
					break
				}
				if sc.C("recfail") == 0 {
					// finding F14: a failing MOVE out of the recovery mailbox forgets the
					// content hash although its transaction is rolled back
					u.Conn.Disarm()
				}
				q := 1 + abs(a.Arg(0))%len(rec.Members)
				dest := m.box(a.Arg(1))
				verb := map[string]string{"copyout": "COPY", "moveout": "MOVE"}[a.K]
				o := rec.Members[q-1].Obj
				// cfg dedupmove: the remote answers the upload of a message moved out of the
				// recovery mailbox with the ID of a message the destination already holds (it
				// recognised a duplicate): the message leaves the recovery mailbox, nothing new
				// appears in the destination, and the recovery mailbox no longer counts those
				// bytes as kept
				var dup *model.Obj
				if sc.C("dedupmove") == 1 && o.Bytes != nil && a.Arg(2)%3 != 0 {
				search:
					for _, bn := range append([]string{dest}, m.Boxes...) {
						b, ok := e.R.Boxes[bn]
						if !ok {
							continue
						}
						for _, mm := range b.Members {
							if mm.Obj.Marker == o.Marker && remoteOf[mm.Obj] != "" && bytes.Equal(mm.Obj.Bytes, o.Bytes) {
								dup, dest = mm.Obj, bn
								break search
							}
						}
					}
				}
				if dup != nil {
					u.Conn.DedupeTo = remoteOf[dup]
				}
				r := s.Cmd("%s %d %s", verb, q, Quote(dest))
				u.Conn.DedupeTo = ""
				e.Tr.Event(a.K, q, dest, r.Status, dup != nil)
				u.Conn.TakeCalls()
				if r.OK() && dup != nil && a.K == "copyout" {
					// a COPY the remote de-duplicates changes nothing: the message stays kept
					e.St.Probes["copied_out_of_recovery_onto_duplicate"]++
					s.Cmd("UNSELECT")
					s.M.Unselect()
					check("recovery-out-dedup")
					break
				}
				if r.OK() && dup != nil {
					rec.Remove(o)
					e.St.Probes["moved_out_of_recovery_onto_duplicate"]++
					s.Cmd("UNSELECT")
					s.M.Unselect()
					check("recovery-out-dedup")
					if e.Failed() || a.Arg(3)%2 != 0 {
						break
					}
					// the same bytes are refused once more: they are in no mailbox of the
					// recovery kind any longer, so they must be kept again
					u.Conn.Disarm()
					u.Conn.Arm(simconn.KCreateMessage, simconn.ErrInjected)
					ar := s.Do(wire.WithLiteral(fmt.Sprintf("APPEND %s ", Quote(dest)), o.Bytes, ""))
					e.Tr.Event("append-after-dedup-move", dest, o.Marker, ar.Status)
					u.Conn.TakeCalls()
					u.Conn.Disarm()
					if ar.OK() {
						e.Fail("conservation", "APPEND answered OK although the remote refused the message")
						break
					}
					failed++
					if !recHas(o.Marker) {
						no, _ := model.NewObj(o.Marker, o.Bytes, nil)
						rec.Add(no, false)
						recovered++
					}
					e.St.Probes["refused_again_after_dedup_move"]++
					check("conservation")
					break
				}
				if r.OK() {
					// the bytes land in the destination as a message of the remote
					no, _ := model.NewObj(o.Marker, o.Bytes, nil)
					e.R.Boxes[dest].Add(no, false)
					if a.K == "moveout" {
						rec.Remove(o)
					}
					e.St.Probes["moved_out_of_recovery"]++
				}
				s.Cmd("UNSELECT")
				s.M.Unselect()
				check("recovery-out")
			case "expunge-rec":
				if len(rec.Members) == 0 || !selectRec() {
					break
				}
				q := 1 + abs(a.Arg(0))%len(rec.Members)
				r1 := s.Cmd("STORE %d +FLAGS (\\Deleted)", q)
				r2 := s.Cmd("EXPUNGE")
				e.Tr.Event("expunge-rec", q, r1.Status, r2.Status)
				if r1.OK() && r2.OK() {
					rec.Members[q-1].Deleted = true
					rec.Expunge(nil)
				}
				s.Cmd("UNSELECT")
				s.M.Unselect()
				check("recovery-expunge")
			case "protect":
				name := []string{recoveryName, strings.ToUpper(recoveryName), strings.ToLower(recoveryName)}[abs(a.Arg(1))%3]
				if abs(a.Arg(3))%3 == 1 {
					name += "/" // the same mailbox, written with a trailing hierarchy separator
				}
				var r *wire.Result
				what := ""
				switch abs(a.Arg(0)) % 6 {
				case 0:
					g := e.NewMessage(a.Arg(2), gen.Opts{})
					r = s.Do(wire.WithLiteral(fmt.Sprintf("APPEND %s ", Quote(name)), g.Bytes, ""))
					what = "APPEND to " + name
				case 1:
					r, what = s.Cmd("CREATE %s", Quote(name)), "CREATE "+name
				case 2:
					r, what = s.Cmd("DELETE %s", Quote(name)), "DELETE "+name
				case 3:
					r, what = s.Cmd("RENAME %s %s", Quote(name), Quote("elsewhere")), "RENAME "+name
				case 4:
					r, what = s.Cmd("RENAME %s %s", Quote("box1"), Quote(name)), "RENAME box1 to "+name
				case 5:
					b := e.R.Boxes["INBOX"]
					if len(b.Members) == 0 {
						break
					}
					s.M.Reset("INBOX", false)
					s.Cmd("SELECT INBOX")
					verb := []string{"COPY", "MOVE"}[abs(a.Arg(2))%2]
					r, what = s.Cmd("%s 1 %s", verb, Quote(name)), verb+" into "+name
					s.Cmd("UNSELECT")
					s.M.Unselect()
				}
				if r == nil {
					break
				}
				e.Tr.Event("protect", what, r.Status)
				u.Conn.TakeCalls()
				if r.OK() {
					e.Fail("recovery-protected", "%s answered OK", what)
					break
				}
				check("recovery-protected")
			case "list":
				check("recovery-listed")
			case "move":
				// ordinary MOVE between normal mailboxes under remote faults
				b := e.R.Boxes["INBOX"]
				if len(b.Members) == 0 {
					break
				}
				s.M.Reset("INBOX", false)
				s.Cmd("SELECT INBOX")
				q := 1 + abs(a.Arg(0))%len(b.Members)
				o := b.Members[q-1].Obj
				r := s.Cmd("MOVE %d box1", q)
				e.Tr.Event("move", q, r.Status)
				u.Conn.TakeCalls()
				if r.OK() {
					if sc.C("labels") == 0 {
						b.Remove(o)
					}
					e.R.Boxes["box1"].Add(o, false)
				}
				s.Cmd("UNSELECT")
				s.M.Unselect()
				check("move")
			case "restart":
				if err := e.W.Restart(); err != nil {
					e.Fail("restart", "restart failed: %v", err)
					break
				}
				e.St.Faults["restart_clean"]++
				m.Reconnect()
				s = m.Sess[0]
				u = e.W.Users[0]
				check("after-restart")
			}
			e.CheckPanics()
			if e.Failed() {
				return
			}
		}
		e.Step = len(sc.Actions) + 1
		e.CheckModel("conservation-final", true, false)
		e.St.Nontrivial = failed > 0 && m.OKs+failed >= 3
		e.St.Probes["appends_refused"] += failed
		e.St.Probes["recovered"] += recovered
		e.St.Probes["recovered_deduped"] += deduped
	})
}
