package props

// Registration of C08 (the one line to move into registry.go: register(C08{})).
func init() { register(C08{}) }
