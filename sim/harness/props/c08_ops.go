package props

// C08 op table: one entry per method of db.ReadOnly / db.Transaction.  Every entry picks
// its arguments from the model state (action integers modulo the state), calls the real
// method, compares error class and result with the model and applies the model effect.
//
// Nonsense input (the interface says nothing about it):
//   - unknown internal mailbox id in an operation that addresses the per-mailbox rows:
//     "any error, no effect" (anyerr);
//   - unknown ids where the operation is a plain "update/delete where id in (...)":
//     they are ignored (that IS the relational meaning), or "unspec" (nil or error, no
//     effect) for the single-row setters;
//   - duplicate keys (mailbox name / remote id, message id / remote id, membership,
//     deleted-subscription remote id), adding or flagging a message that does not exist,
//     deleting a message that is still a member of a mailbox: anyerr;
//   - duplicate ids inside one list: not generated.
// After a failed write the transaction callback returns that error (the state inside a
// failed transaction is not specified), except for the three "no values changed" errors
// the code spells out (rename / set uid validity / update remote id of an unknown
// mailbox), after which the transaction carries on.

import (
	"fmt"
	"reflect"
	"sort"
	"strings"
	"time"

	"github.com/ProtonMail/gluon/db"
	"github.com/ProtonMail/gluon/imap"

	"verifharness/core"
)

var c8RemoteIDs = []string{"R0", "R1", "R2", "R3", "R4", "R5", "", "r'q\"", "ü-remote", "R%_", "R6", "R7"}
var c8Names = []string{"INBOX", "N1", "N2", "N3", "N4", "a/b", "a/b/c", "", "it's", "ünï", "N%", "N5"}
var c8Flags = []string{`\Seen`, `\Answered`, `\Flagged`, `\Draft`, `$Forwarded`, "custom", "it's", "ünï", "key-2", `a"b`}
var c8MboxFlags = []string{`\Seen`, `\Flagged`, `\Deleted`, `\Noselect`, `\Marked`, "custom", "kw2", "ünï"}

// ---- argument helpers ----

func (x *c8Exec) newID() c8ID {
	n := uint64(len(x.pool)) + 1
	var id c8ID
	h := core.Mix(0xC08, n)
	for i := 0; i < 8; i++ {
		id.UUID[i] = byte(h >> (8 * i))
		id.UUID[8+i] = byte(n >> (8 * (7 - i)))
	}
	return id
}

func (x *c8Exec) freshID() c8ID {
	id := x.newID()
	x.pool = append(x.pool, id)
	return id
}

// pickMbox returns an existing mailbox (b != nil) most of the time, otherwise an id that
// does not exist (never allocated, or deleted).
func (x *c8Exec) pickMbox(v int) (uint64, *c8Mbox) {
	ids := x.m.mboxIDs()
	if len(ids) > 0 && v%8 != 7 {
		id := ids[(v/8)%len(ids)]
		return id, x.m.Mboxes[id]
	}
	id := uint64(1 + (v/8)%int(x.m.NextMbox+2))
	if b, ok := x.m.Mboxes[id]; ok {
		return id, b
	}
	return id, nil
}

func (x *c8Exec) pickRemote(v int) string {
	ids := x.m.mboxIDs()
	if len(ids) > 0 && v%8 != 7 {
		return x.m.Mboxes[ids[(v/8)%len(ids)]].RemoteID
	}
	return c8RemoteIDs[(v/8)%len(c8RemoteIDs)]
}

func (x *c8Exec) pickName(v int) string {
	ids := x.m.mboxIDs()
	if len(ids) > 0 && v%8 != 7 {
		return x.m.Mboxes[ids[(v/8)%len(ids)]].Name
	}
	return c8Names[(v/8)%len(c8Names)]
}

// unused returns pool[v] or, unless clash is wanted, the next pool entry that is free.
func c8Unused(pool []string, v int, used func(string) bool, clash bool) string {
	for k := 0; k < len(pool); k++ {
		s := pool[(v+k)%len(pool)]
		if clash || !used(s) {
			return s
		}
	}
	return pool[v%len(pool)]
}

const (
	c8Any = iota
	c8Existing
	c8Member
	c8NonMember
	c8Missing
)

func (x *c8Exec) msgPred(class int) func(c8ID) bool {
	switch class {
	case c8Existing:
		return func(id c8ID) bool { _, ok := x.m.Msgs[id]; return ok }
	case c8Member:
		return func(id c8ID) bool { _, ok := x.m.Msgs[id]; return ok && x.m.isMember(id) }
	case c8NonMember:
		return func(id c8ID) bool { _, ok := x.m.Msgs[id]; return ok && !x.m.isMember(id) }
	case c8Missing:
		return func(id c8ID) bool { _, ok := x.m.Msgs[id]; return !ok }
	}
	return func(c8ID) bool { return true }
}

// pickMsg prefers a message of the class, falling back to any pool entry.
func (x *c8Exec) pickMsg(v, class int) c8ID {
	l := x.msgList(1, v, x.msgPred(class))
	if len(l) == 1 {
		return l[0]
	}
	return x.pool[v%len(x.pool)]
}

// msgList collects up to n distinct pool entries satisfying pred, scanning from start.
func (x *c8Exec) msgList(n, start int, pred func(c8ID) bool) []c8ID {
	if n <= 0 {
		return nil
	}
	if n > c8MaxList {
		n = c8MaxList
	}
	out := make([]c8ID, 0, min(n, len(x.pool)))
	for k := 0; k < len(x.pool) && len(out) < n; k++ {
		id := x.pool[(start+k)%len(x.pool)]
		if pred(id) {
			out = append(out, id)
		}
	}
	return out
}

func (x *c8Exec) pickMsgRemote(v int) string {
	if v%6 == 5 {
		return fmt.Sprintf("nope%d", v%3)
	}
	if m, ok := x.m.Msgs[x.pickMsg(v/6, c8Existing)]; ok {
		return m.RemoteID
	}
	return "nope"
}

func c8ASCII(s string) bool {
	for i := 0; i < len(s); i++ {
		if s[i] >= 0x80 {
			return false
		}
	}
	return true
}

func (x *c8Exec) flag(v int) string {
	f := c8Flags[v%len(c8Flags)]
	if x.knob("k_comma") && v%5 == 0 {
		f = "x,y"
	}
	ascii := c8ASCII(f)
	// letter case is varied for ASCII flags only: IMAP flags are atoms (ASCII), and for other
	// characters "the same letter in another case" is not defined by the protocol
	if x.knob("k_flagcase") && ascii {
		switch (v / 16) % 3 {
		case 1:
			f = strings.ToUpper(f)
		case 2:
			f = strings.ToLower(f)
		}
	}
	return f
}

// flagList returns n distinct (case-insensitively) flags.  Message flags (msg) go through
// flag(), which applies the letter-case and comma knobs.
func (x *c8Exec) flagList(v, n int, msg bool) []string {
	pool := c8MboxFlags
	if msg {
		pool = c8Flags
	}
	var out []string
	seen := map[string]bool{}
	for k := 0; k < len(pool) && len(out) < n; k++ {
		f := pool[(v+k)%len(pool)]
		if msg {
			f = x.flag(v + k)
		}
		if l := strings.ToLower(f); !seen[l] {
			seen[l] = true
			out = append(out, f)
		}
	}
	return out
}

func (x *c8Exec) noteLen(method string, n int) {
	switch {
	case n > 1000:
		x.st.Probes["list_gt_1000"]++
		x.st.Probes["gt1000:"+method]++
		x.bigList = true
	case n > 500:
		x.st.Probes["list_gt_500"]++
		x.st.Probes["gt500:"+method]++
		x.bigList = true
	}
	switch {
	case n >= 499 && n <= 501:
		x.st.Probes["list_499_501"]++
	case n >= 999 && n <= 1001:
		x.st.Probes["list_999_1001"]++
	case n >= 1999 && n <= 2001:
		x.st.Probes["list_1999_2001"]++
	case n == 2500:
		x.st.Probes["list_2500"]++
	case n == 0:
		x.st.Probes["list_0"]++
	}
}

// touch remembers the elements of a list argument that sit at chunk boundaries.
func (x *c8Exec) touch(ids []c8ID) {
	x.touched = x.touched[:0]
	for _, c := range []int{0, 500, 1000, 1500, 2000, 2500} {
		for d := -2; d <= 1; d++ {
			if i := c + d; i >= 0 && i < len(ids) {
				x.touched = append(x.touched, ids[i])
			}
		}
	}
	if len(ids) > 0 {
		x.touched = append(x.touched, ids[len(ids)-1])
	}
}

func (x *c8Exec) msgReq(v, nflags int) (*db.CreateMessageReq, c8Msg) {
	id := x.freshID()
	x.nextRem++
	rem := fmt.Sprintf("m%d", x.nextRem)
	if v%9 == 0 {
		rem += "'\"x"
	}
	if x.knob("k_numid") && v%5 == 2 {
		// a remote ID that reads as a number (leading zeros, exponent): it is a string
		rem = []string{fmt.Sprintf("%05d", x.nextRem), fmt.Sprintf("%de0", x.nextRem), fmt.Sprintf("0%d.0", x.nextRem)}[v/5%3]
	}
	loc := time.UTC
	if v%4 == 1 {
		loc = time.FixedZone("", 3600*(v%5-2))
	}
	date := time.Date(2001+v%20, time.Month(1+v%12), 1+v%28, v%24, v%60, (v/7)%60, (v%3)*1000, loc)
	if v%17 == 0 {
		date = time.Time{}
	}
	flags := x.flagList(v/3, nflags, true)
	m := c8Msg{ID: id, RemoteID: rem, Date: date, Size: v % 5000,
		Body: fmt.Sprintf("b%d'", v%7), Structure: fmt.Sprintf("s\"%d", v%5), Envelope: fmt.Sprintf("e%d ü", v%3),
		Flags: c8NewSet(flags...)}
	req := &db.CreateMessageReq{
		Message:     imap.Message{ID: imap.MessageID(rem), Flags: imap.NewFlagSet(flags...), Date: date},
		InternalID:  id,
		LiteralSize: m.Size, Body: m.Body, Structure: m.Structure, Envelope: m.Envelope,
	}
	return req, m
}

// ---- comparison helpers ----

func (x *c8Exec) cmp(method, args string, want, got any) {
	x.st.Checks++
	if !reflect.DeepEqual(want, got) {
		x.fail("result", method, "%s(%s): model %v, implementation %v", method, args, want, got)
	}
}

func (x *c8Exec) cmpSet(method, args string, want, got []string) {
	x.st.Checks++
	sort.Strings(want)
	sort.Strings(got)
	if d := c8DiffSeq(want, got); d != "" {
		x.fail("result", method, "%s(%s): %s", method, args, d)
	}
}

func (x *c8Exec) cmpSeq(method, args string, want, got []string) {
	x.st.Checks++
	if d := c8DiffSeq(want, got); d != "" {
		x.fail("result", method, "%s(%s): %s", method, args, d)
	}
}

func c8DiffSeq(want, got []string) string {
	for i := 0; i < len(want) && i < len(got); i++ {
		if want[i] != got[i] {
			return fmt.Sprintf("element %d of %d/%d differs: model [%s], implementation [%s]", i, len(want), len(got), want[i], got[i])
		}
	}
	switch {
	case len(want) > len(got):
		return fmt.Sprintf("model has %d elements, implementation %d; first missing [%s]", len(want), len(got), want[len(got)])
	case len(want) < len(got):
		return fmt.Sprintf("model has %d elements, implementation %d; first extra [%s]", len(want), len(got), got[len(want)])
	}
	return ""
}

func c8Dedup(s []string) []string {
	sort.Strings(s)
	out := s[:0]
	for i, v := range s {
		if i == 0 || v != s[i-1] {
			out = append(out, v)
		}
	}
	return out
}

func c8RowString(uid uint32, id c8ID, rem string, recent, deleted bool, flags string) string {
	return fmt.Sprintf("uid=%d id=%s remote=%q recent=%v deleted=%v flags=%s", uid, id.UUID.String()[24:], rem, recent, deleted, flags)
}

func c8CSVFlags(s string) string {
	if s == "" {
		return "{}"
	}
	return c8FlagSetString(imap.NewFlagSetFromSlice(strings.Split(s, ",")))
}

func (x *c8Exec) modelRow(r c8Row) string {
	m := x.m.Msgs[r.Msg]
	return c8RowString(r.UID, r.Msg, m.RemoteID, r.Recent, r.Deleted, m.Flags.String())
}

func c8MboxString(id uint64, rid, name string, uidv uint32, sub bool) string {
	return fmt.Sprintf("id=%d remote=%q name=%q uidvalidity=%d subscribed=%v", id, rid, name, uidv, sub)
}

func c8ModelMbox(b *c8Mbox) string {
	return c8MboxString(b.ID, b.RemoteID, b.Name, b.UIDValidity, b.Subscribed)
}

func c8RealMbox(b *db.Mailbox) string {
	if b == nil {
		return "<nil>"
	}
	return c8MboxString(uint64(b.ID), string(b.RemoteID), b.Name, uint32(b.UIDValidity), b.Subscribed)
}

func c8MsgString(id c8ID, rem string, date time.Time, size int, body, st, env string, deleted bool) string {
	return fmt.Sprintf("id=%s remote=%q date=%s size=%d body=%q structure=%q envelope=%q deleted=%v",
		id.UUID.String()[24:], rem, date.UTC().Format(time.RFC3339Nano), size, body, st, env, deleted)
}

func c8ModelMsg(m c8Msg) string {
	return c8MsgString(m.ID, m.RemoteID, m.Date, m.Size, m.Body, m.Structure, m.Envelope, m.Deleted)
}

func c8RealMsg(m *db.Message) string {
	if m == nil {
		return "<nil>"
	}
	return c8MsgString(m.ID, string(m.RemoteID), m.Date, m.Size, m.Body, m.BodyStructure, m.Envelope, m.Deleted)
}

func c8Short(id c8ID) string { return id.UUID.String()[24:] }

func c8IDs(ids []c8ID) string {
	if len(ids) <= 4 {
		s := make([]string, len(ids))
		for i, id := range ids {
			s[i] = c8Short(id)
		}
		return "[" + strings.Join(s, " ") + "]"
	}
	return fmt.Sprintf("[%d ids from %s]", len(ids), c8Short(ids[0]))
}

func mbid(id uint64) imap.InternalMailboxID { return imap.InternalMailboxID(id) }

// ---- the table ----

func init() {
	// ======================= mailbox reads =======================
	c8Reg("MailboxExistsWithID", false, func(x *c8Exec, a core.Action) {
		if !x.knob("k_existsid") {
			return
		}
		id, b := x.pickMbox(a.Arg(1))
		got, err := x.rd.MailboxExistsWithID(x.ctx, mbid(id))
		if x.expect(a.K, fmt.Sprint(id), err, "nil", false) {
			x.cmp(a.K, fmt.Sprint(id), b != nil, got)
		}
	})
	c8Reg("MailboxExistsWithRemoteID", false, func(x *c8Exec, a core.Action) {
		rid := x.pickRemote(a.Arg(1))
		_, ok := x.m.ByRemote[rid]
		got, err := x.rd.MailboxExistsWithRemoteID(x.ctx, imap.MailboxID(rid))
		if x.expect(a.K, fmt.Sprintf("%q", rid), err, "nil", false) {
			x.cmp(a.K, rid, ok, got)
		}
	})
	c8Reg("MailboxExistsWithName", false, func(x *c8Exec, a core.Action) {
		name := x.pickName(a.Arg(1))
		_, ok := x.m.ByName[name]
		got, err := x.rd.MailboxExistsWithName(x.ctx, name)
		if x.expect(a.K, fmt.Sprintf("%q", name), err, "nil", false) {
			x.cmp(a.K, name, ok, got)
		}
	})
	c8Reg("GetMailboxIDFromRemoteID", false, func(x *c8Exec, a core.Action) {
		rid := x.pickRemote(a.Arg(1))
		id, ok := x.m.ByRemote[rid]
		got, err := x.rd.GetMailboxIDFromRemoteID(x.ctx, imap.MailboxID(rid))
		if x.expect(a.K, fmt.Sprintf("%q", rid), err, c8NilOrNotFound(ok), false) {
			x.cmp(a.K, rid, id, uint64(got))
		}
	})
	c8Reg("GetMailboxName", false, func(x *c8Exec, a core.Action) {
		id, b := x.pickMbox(a.Arg(1))
		got, err := x.rd.GetMailboxName(x.ctx, mbid(id))
		if x.expect(a.K, fmt.Sprint(id), err, c8NilOrNotFound(b != nil), false) {
			x.cmp(a.K, fmt.Sprint(id), b.Name, got)
		}
	})
	c8Reg("GetMailboxNameWithRemoteID", false, func(x *c8Exec, a core.Action) {
		rid := x.pickRemote(a.Arg(1))
		id, ok := x.m.ByRemote[rid]
		got, err := x.rd.GetMailboxNameWithRemoteID(x.ctx, imap.MailboxID(rid))
		if x.expect(a.K, fmt.Sprintf("%q", rid), err, c8NilOrNotFound(ok), false) {
			x.cmp(a.K, rid, x.m.Mboxes[id].Name, got)
		}
	})
	c8Reg("GetMailboxMessageIDPairs", false, func(x *c8Exec, a core.Action) {
		id, b := x.pickMbox(a.Arg(1))
		got, err := x.rd.GetMailboxMessageIDPairs(x.ctx, mbid(id))
		if x.expect(a.K, fmt.Sprint(id), err, c8NilOrAnyErr(b != nil), false) && b != nil {
			var w, g []string
			for _, r := range b.Rows {
				w = append(w, fmt.Sprintf("%s=%q", c8Short(r.Msg), x.m.Msgs[r.Msg].RemoteID))
			}
			for _, p := range got {
				g = append(g, fmt.Sprintf("%s=%q", c8Short(p.InternalID), string(p.RemoteID)))
			}
			x.cmpSet(a.K, fmt.Sprint(id), w, g)
		}
	})
	c8Reg("GetAllMailboxesWithAttr", false, func(x *c8Exec, a core.Action) {
		got, err := x.rd.GetAllMailboxesWithAttr(x.ctx)
		if x.expect(a.K, "", err, "nil", false) {
			var w, g []string
			for _, id := range x.m.mboxIDs() {
				b := x.m.Mboxes[id]
				w = append(w, c8ModelMbox(b)+" attrs="+b.Attrs.String())
			}
			for _, b := range got {
				g = append(g, c8RealMbox(&b.Mailbox)+" attrs="+c8FlagSetString(b.Attributes))
			}
			x.cmpSet(a.K, "", w, g)
		}
	})
	c8Reg("GetAllMailboxesAsRemoteIDs", false, func(x *c8Exec, a core.Action) {
		got, err := x.rd.GetAllMailboxesAsRemoteIDs(x.ctx)
		if x.expect(a.K, "", err, "nil", false) {
			var w, g []string
			for _, id := range x.m.mboxIDs() {
				w = append(w, x.m.Mboxes[id].RemoteID)
			}
			for _, r := range got {
				g = append(g, string(r))
			}
			x.cmpSet(a.K, "", w, g)
		}
	})
	c8Reg("GetMailboxByName", false, func(x *c8Exec, a core.Action) {
		name := x.pickName(a.Arg(1))
		id, ok := x.m.ByName[name]
		got, err := x.rd.GetMailboxByName(x.ctx, name)
		if x.expect(a.K, fmt.Sprintf("%q", name), err, c8NilOrNotFound(ok), false) {
			x.cmp(a.K, name, c8ModelMbox(x.m.Mboxes[id]), c8RealMbox(got))
		}
	})
	c8Reg("GetMailboxByID", false, func(x *c8Exec, a core.Action) {
		id, b := x.pickMbox(a.Arg(1))
		got, err := x.rd.GetMailboxByID(x.ctx, mbid(id))
		if x.expect(a.K, fmt.Sprint(id), err, c8NilOrNotFound(b != nil), false) {
			x.cmp(a.K, fmt.Sprint(id), c8ModelMbox(b), c8RealMbox(got))
		}
	})
	c8Reg("GetMailboxByRemoteID", false, func(x *c8Exec, a core.Action) {
		rid := x.pickRemote(a.Arg(1))
		id, ok := x.m.ByRemote[rid]
		got, err := x.rd.GetMailboxByRemoteID(x.ctx, imap.MailboxID(rid))
		if x.expect(a.K, fmt.Sprintf("%q", rid), err, c8NilOrNotFound(ok), false) {
			x.cmp(a.K, rid, c8ModelMbox(x.m.Mboxes[id]), c8RealMbox(got))
		}
	})
	c8Reg("GetMailboxRecentCount", false, func(x *c8Exec, a core.Action) {
		id, b := x.pickMbox(a.Arg(1))
		got, err := x.rd.GetMailboxRecentCount(x.ctx, mbid(id))
		if x.expect(a.K, fmt.Sprint(id), err, c8NilOrAnyErr(b != nil), false) && b != nil {
			x.cmp(a.K, fmt.Sprint(id), b.recentCount(), got)
		}
	})
	c8Reg("GetMailboxMessageCount", false, func(x *c8Exec, a core.Action) {
		id, b := x.pickMbox(a.Arg(1))
		got, err := x.rd.GetMailboxMessageCount(x.ctx, mbid(id))
		if x.expect(a.K, fmt.Sprint(id), err, c8NilOrAnyErr(b != nil), false) && b != nil {
			x.cmp(a.K, fmt.Sprint(id), len(b.Rows), got)
		}
	})
	c8Reg("GetMailboxMessageCountWithRemoteID", false, func(x *c8Exec, a core.Action) {
		rid := x.pickRemote(a.Arg(1))
		id, ok := x.m.ByRemote[rid]
		got, err := x.rd.GetMailboxMessageCountWithRemoteID(x.ctx, imap.MailboxID(rid))
		if x.expect(a.K, fmt.Sprintf("%q", rid), err, c8NilOrNotFound(ok), false) {
			x.cmp(a.K, rid, len(x.m.Mboxes[id].Rows), got)
		}
	})
	flagRead := func(name string, sel func(b *c8Mbox) c8Set, call func(x *c8Exec, id imap.InternalMailboxID) (imap.FlagSet, error)) {
		c8Reg(name, false, func(x *c8Exec, a core.Action) {
			id, b := x.pickMbox(a.Arg(1))
			got, err := call(x, mbid(id))
			want := "nil"
			if b == nil {
				want = "unspec" // an empty set or an error
			}
			if x.expect(name, fmt.Sprint(id), err, want, false) {
				w := c8Set{}
				if b != nil {
					w = sel(b)
				}
				x.cmp(name, fmt.Sprint(id), w.String(), c8FlagSetString(got))
			}
		})
	}
	flagRead("GetMailboxFlags", func(b *c8Mbox) c8Set { return b.Flags }, func(x *c8Exec, id imap.InternalMailboxID) (imap.FlagSet, error) {
		return x.rd.GetMailboxFlags(x.ctx, id)
	})
	flagRead("GetMailboxPermanentFlags", func(b *c8Mbox) c8Set { return b.Perm }, func(x *c8Exec, id imap.InternalMailboxID) (imap.FlagSet, error) {
		return x.rd.GetMailboxPermanentFlags(x.ctx, id)
	})
	flagRead("GetMailboxAttributes", func(b *c8Mbox) c8Set { return b.Attrs }, func(x *c8Exec, id imap.InternalMailboxID) (imap.FlagSet, error) {
		return x.rd.GetMailboxAttributes(x.ctx, id)
	})
	c8Reg("GetMailboxUID", false, func(x *c8Exec, a core.Action) {
		id, b := x.pickMbox(a.Arg(1))
		got, err := x.rd.GetMailboxUID(x.ctx, mbid(id))
		if b == nil {
			x.expect(a.K, fmt.Sprint(id), err, "unspec", false) // any value or an error
			return
		}
		if x.expect(a.K, fmt.Sprint(id), err, "nil", false) {
			x.cmp(a.K, fmt.Sprint(id), b.UIDNext, uint32(got))
		}
	})
	c8Reg("GetMailboxMessageCountAndUID", false, func(x *c8Exec, a core.Action) {
		id, b := x.pickMbox(a.Arg(1))
		n, uid, err := x.rd.GetMailboxMessageCountAndUID(x.ctx, mbid(id))
		if x.expect(a.K, fmt.Sprint(id), err, c8NilOrAnyErr(b != nil), false) && b != nil {
			x.cmp(a.K, fmt.Sprint(id), fmt.Sprintf("count=%d uidnext=%d", len(b.Rows), b.UIDNext), fmt.Sprintf("count=%d uidnext=%d", n, uid))
		}
	})
	c8Reg("GetMailboxMessageForNewSnapshot", false, func(x *c8Exec, a core.Action) {
		id, b := x.pickMbox(a.Arg(1))
		got, err := x.rd.GetMailboxMessageForNewSnapshot(x.ctx, mbid(id))
		if x.expect(a.K, fmt.Sprint(id), err, c8NilOrAnyErr(b != nil), false) && b != nil {
			x.cmpSeq(a.K, fmt.Sprint(id), x.modelSnapshot(b), c8RealSnapshot(got))
		}
	})
	c8Reg("MailboxTranslateRemoteIDs", false, func(x *c8Exec, a core.Action) {
		// distinct remote ids: those of existing mailboxes, pool names (known or not) and
		// generated unknown ones up to the wanted length
		n := min(a.Arg(0), c8MaxList)
		seen := map[string]bool{}
		var rids []imap.MailboxID
		var w []string
		addR := func(r string) {
			if seen[r] || len(rids) >= n {
				return
			}
			seen[r] = true
			rids = append(rids, imap.MailboxID(r))
			if id, ok := x.m.ByRemote[r]; ok {
				w = append(w, fmt.Sprint(id))
			}
		}
		ids := x.m.mboxIDs()
		if n > 40 {
			// long list: unknown ids, with the known ones sitting at the chunk boundaries
			list := make([]string, n)
			for k := range list {
				list[k] = fmt.Sprintf("unknown-%d", k)
			}
			var spots []int
			for _, c := range []int{0, 500, 1000, 2000, n} {
				for d := -1; d <= 1; d++ {
					if p := c + d; p >= 0 && p < n {
						spots = append(spots, p)
					}
				}
			}
			for j, id := range ids {
				list[spots[(a.Arg(1)+j*(1+a.Arg(2)%5))%len(spots)]] = x.m.Mboxes[id].RemoteID
			}
			for _, r := range list {
				addR(r)
			}
		}
		for k := 0; len(rids) < n; k++ {
			switch {
			case k%3 == 0 && k/3 < len(ids):
				addR(x.m.Mboxes[ids[(a.Arg(1)+k/3)%len(ids)]].RemoteID)
			case k%3 == 1 && k/3 < len(c8RemoteIDs):
				addR(c8RemoteIDs[(a.Arg(2)+k/3)%len(c8RemoteIDs)])
			default:
				addR(fmt.Sprintf("unknown-%d", k))
			}
		}
		x.noteLen(a.K, len(rids))
		got, err := x.rd.MailboxTranslateRemoteIDs(x.ctx, rids)
		if x.expect(a.K, fmt.Sprintf("%d ids", len(rids)), err, "nil", false) {
			var g []string
			for _, id := range got {
				g = append(g, fmt.Sprint(uint64(id)))
			}
			x.cmpSet(a.K, fmt.Sprintf("%d ids", len(rids)), w, g)
		}
	})
	c8Reg("MailboxFilterContains", false, func(x *c8Exec, a core.Action) {
		id, b := x.pickMbox(a.Arg(1))
		ids := x.msgList(a.Arg(0), a.Arg(2), x.msgPred([]int{c8Any, c8Existing, c8Member}[a.Arg(3)%3]))
		if b == nil && len(ids) == 0 {
			return
		}
		x.noteLen(a.K, len(ids))
		pairs := make([]db.MessageIDPair, len(ids))
		var w []string
		for i, m := range ids {
			pairs[i] = db.MessageIDPair{InternalID: m, RemoteID: imap.MessageID(x.m.Msgs[m].RemoteID)}
			if b != nil {
				if _, ok := b.In[m]; ok {
					w = append(w, c8Short(m))
				}
			}
		}
		args := fmt.Sprintf("%d, %s", id, c8IDs(ids))
		got, err := x.rd.MailboxFilterContains(x.ctx, mbid(id), pairs)
		want := c8NilOrAnyErr(b != nil)
		if b == nil && len(ids) == 0 {
			want = "unspec"
		}
		if x.expect(a.K, args, err, want, false) && b != nil {
			var g []string
			for _, m := range got {
				g = append(g, c8Short(m))
			}
			x.cmpSet(a.K, args, w, g)
		}
	})
	c8Reg("GetMailboxCount", false, func(x *c8Exec, a core.Action) {
		got, err := x.rd.GetMailboxCount(x.ctx)
		if x.expect(a.K, "", err, "nil", false) {
			x.cmp(a.K, "", len(x.m.Mboxes), got)
		}
	})
	c8Reg("GetAllMailboxesNameAndRemoteID", false, func(x *c8Exec, a core.Action) {
		got, err := x.rd.GetAllMailboxesNameAndRemoteID(x.ctx)
		if x.expect(a.K, "", err, "nil", false) {
			var w, g []string
			for _, id := range x.m.mboxIDs() {
				w = append(w, fmt.Sprintf("%q=%q", x.m.Mboxes[id].Name, x.m.Mboxes[id].RemoteID))
			}
			for _, r := range got {
				g = append(g, fmt.Sprintf("%q=%q", r.Name, string(r.RemoteID)))
			}
			x.cmpSet(a.K, "", w, g)
		}
	})

	// ======================= message reads =======================
	c8Reg("MessageExists", false, func(x *c8Exec, a core.Action) {
		id := x.pickMsg(a.Arg(1), a.Arg(2)%2)
		_, ok := x.m.Msgs[id]
		got, err := x.rd.MessageExists(x.ctx, id)
		if x.expect(a.K, c8Short(id), err, "nil", false) {
			x.cmp(a.K, c8Short(id), ok, got)
		}
	})
	c8Reg("MessageExistsWithRemoteID", false, func(x *c8Exec, a core.Action) {
		rem := x.pickMsgRemote(a.Arg(1))
		_, ok := x.m.MsgByRem[rem]
		got, err := x.rd.MessageExistsWithRemoteID(x.ctx, imap.MessageID(rem))
		if x.expect(a.K, c8Q(rem), err, "nil", false) {
			x.cmp(a.K, c8Q(rem), ok, got)
		}
	})
	c8Reg("GetMessageNoEdges", false, func(x *c8Exec, a core.Action) {
		id := x.pickMsg(a.Arg(1), a.Arg(2)%2)
		m, ok := x.m.Msgs[id]
		got, err := x.rd.GetMessageNoEdges(x.ctx, id)
		if x.expect(a.K, c8Short(id), err, c8NilOrNotFound(ok), false) {
			x.cmp(a.K, c8Short(id), c8ModelMsg(m), c8RealMsg(got))
		}
	})
	c8Reg("GetTotalMessageCount", false, func(x *c8Exec, a core.Action) {
		got, err := x.rd.GetTotalMessageCount(x.ctx)
		if x.expect(a.K, "", err, "nil", false) {
			x.cmp(a.K, "", len(x.m.Msgs), got)
		}
	})
	c8Reg("GetMessageRemoteID", false, func(x *c8Exec, a core.Action) {
		id := x.pickMsg(a.Arg(1), a.Arg(2)%2)
		m, ok := x.m.Msgs[id]
		got, err := x.rd.GetMessageRemoteID(x.ctx, id)
		if x.expect(a.K, c8Short(id), err, c8NilOrNotFound(ok), false) {
			x.cmp(a.K, c8Short(id), c8Q(m.RemoteID), c8Q(string(got)))
		}
	})
	c8Reg("GetImportedMessageData", false, func(x *c8Exec, a core.Action) {
		id := x.pickMsg(a.Arg(1), a.Arg(2)%2)
		m, ok := x.m.Msgs[id]
		got, err := x.rd.GetImportedMessageData(x.ctx, id)
		if x.expect(a.K, c8Short(id), err, c8NilOrNotFound(ok), false) {
			g := "<nil>"
			if got != nil {
				g = c8RealMsg(&got.Message) + " flags=" + c8FlagSetString(got.Flags)
			}
			x.cmp(a.K, c8Short(id), c8ModelMsg(m)+" flags="+m.Flags.String(), g)
		}
	})
	c8Reg("GetMessageDateAndSize", false, func(x *c8Exec, a core.Action) {
		id := x.pickMsg(a.Arg(1), a.Arg(2)%2)
		m, ok := x.m.Msgs[id]
		date, size, err := x.rd.GetMessageDateAndSize(x.ctx, id)
		if x.expect(a.K, c8Short(id), err, c8NilOrNotFound(ok), false) {
			f := func(d time.Time, s int) string { return d.UTC().Format(time.RFC3339Nano) + fmt.Sprintf(" size=%d", s) }
			x.cmp(a.K, c8Short(id), f(m.Date, m.Size), f(date, size))
		}
	})
	c8Reg("GetMessageMailboxIDs", false, func(x *c8Exec, a core.Action) {
		id := x.pickMsg(a.Arg(1), []int{c8Any, c8Existing, c8Member}[a.Arg(2)%3])
		got, err := x.rd.GetMessageMailboxIDs(x.ctx, id)
		if x.expect(a.K, c8Short(id), err, "nil", false) {
			x.cmpSet(a.K, c8Short(id), c8U64s(x.m.mailboxesOf(id)), c8MbIDs(got))
		}
	})
	c8Reg("GetMessagesFlags", false, func(x *c8Exec, a core.Action) {
		ids := x.msgList(a.Arg(0), a.Arg(1), x.msgPred([]int{c8Any, c8Existing}[a.Arg(2)%2]))
		x.noteLen(a.K, len(ids))
		got, err := x.rd.GetMessagesFlags(x.ctx, ids)
		if x.expect(a.K, c8IDs(ids), err, "nil", false) {
			var w, g []string
			for _, id := range ids {
				if m, ok := x.m.Msgs[id]; ok {
					w = append(w, fmt.Sprintf("%s remote=%q flags=%s", c8Short(id), m.RemoteID, m.Flags))
				}
			}
			for _, f := range got {
				g = append(g, fmt.Sprintf("%s remote=%q flags=%s", c8Short(f.ID), string(f.RemoteID), c8FlagSetString(f.FlagSet)))
			}
			x.cmpSet(a.K, c8IDs(ids), w, g)
		}
	})
	c8Reg("GetMessageIDsMarkedAsDelete", false, func(x *c8Exec, a core.Action) {
		got, err := x.rd.GetMessageIDsMarkedAsDelete(x.ctx)
		if x.expect(a.K, "", err, "nil", false) {
			var w, g []string
			for id, m := range x.m.Msgs {
				if m.Deleted {
					w = append(w, c8Short(id))
				}
			}
			for _, id := range got {
				g = append(g, c8Short(id))
			}
			x.cmpSet(a.K, "", w, g)
		}
	})
	c8Reg("GetMessageIDFromRemoteID", false, func(x *c8Exec, a core.Action) {
		rem := x.pickMsgRemote(a.Arg(1))
		id, ok := x.m.MsgByRem[rem]
		got, err := x.rd.GetMessageIDFromRemoteID(x.ctx, imap.MessageID(rem))
		if x.expect(a.K, c8Q(rem), err, c8NilOrNotFound(ok), false) {
			x.cmp(a.K, c8Q(rem), c8Short(id), c8Short(got))
		}
	})
	c8Reg("GetMessageDeletedFlag", false, func(x *c8Exec, a core.Action) {
		id := x.pickMsg(a.Arg(1), a.Arg(2)%2)
		m, ok := x.m.Msgs[id]
		got, err := x.rd.GetMessageDeletedFlag(x.ctx, id)
		if x.expect(a.K, c8Short(id), err, c8NilOrNotFound(ok), false) {
			x.cmp(a.K, c8Short(id), m.Deleted, got)
		}
	})
	c8Reg("GetAllMessagesIDsAsMap", false, func(x *c8Exec, a core.Action) {
		got, err := x.rd.GetAllMessagesIDsAsMap(x.ctx)
		if x.expect(a.K, "", err, "nil", false) {
			var w, g []string
			for id := range x.m.Msgs {
				w = append(w, c8Short(id))
			}
			for id := range got {
				g = append(g, c8Short(id))
			}
			x.cmpSet(a.K, "", w, g)
		}
	})
	c8Reg("GetDeletedSubscriptionSet", false, func(x *c8Exec, a core.Action) {
		got, err := x.rd.GetDeletedSubscriptionSet(x.ctx)
		if x.expect(a.K, "", err, "nil", false) {
			x.cmpSet(a.K, "", x.modelDelSubs(), c8RealDelSubs(got))
		}
	})
	c8Reg("GetConnectorSettings", false, func(x *c8Exec, a core.Action) {
		s, has, err := x.rd.GetConnectorSettings(x.ctx)
		if x.expect(a.K, "", err, "nil", false) {
			x.cmp(a.K, "", fmt.Sprintf("%q stored=%v", x.m.Settings, x.m.HasSet), fmt.Sprintf("%q stored=%v", s, has))
		}
	})

	// ======================= mailbox writes =======================
	type mboxArgs struct {
		rid, name          string
		flags, perm, attrs []string
		uidv               uint32
		valid              bool
	}
	genMbox := func(x *c8Exec, a core.Action) mboxArgs {
		clash := a.Arg(5)%6 == 0
		m := mboxArgs{
			rid:   c8Unused(c8RemoteIDs, a.Arg(1), func(s string) bool { _, ok := x.m.ByRemote[s]; return ok }, clash),
			name:  c8Unused(c8Names, a.Arg(2), func(s string) bool { _, ok := x.m.ByName[s]; return ok }, clash && a.Arg(5)%12 == 0),
			flags: x.flagList(a.Arg(3), a.Arg(0)%4, false),
			perm:  x.flagList(a.Arg(4), a.Arg(3)%3, false),
			attrs: x.flagList(a.Arg(4)/3, a.Arg(4)%3, false),
			uidv:  uint32(1 + a.Arg(5)%100000),
		}
		_, r := x.m.ByRemote[m.rid]
		_, n := x.m.ByName[m.name]
		m.valid = !r && !n
		return m
	}
	argStr := func(m mboxArgs) string {
		return fmt.Sprintf("%q, %q, %v, %v, %v, %d", m.rid, m.name, m.flags, m.perm, m.attrs, m.uidv)
	}
	create := func(x *c8Exec, m mboxArgs) *c8Mbox {
		return x.m.createMailbox(m.rid, m.name, c8NewSet(m.flags...), c8NewSet(m.perm...), c8NewSet(m.attrs...), m.uidv)
	}
	c8Reg("CreateMailbox", true, func(x *c8Exec, a core.Action) {
		m := genMbox(x, a)
		got, err := x.tx.CreateMailbox(x.ctx, imap.MailboxID(m.rid), m.name, imap.NewFlagSet(m.flags...), imap.NewFlagSet(m.perm...), imap.NewFlagSet(m.attrs...), imap.UID(m.uidv))
		if x.expect(a.K, argStr(m), err, c8NilOrAnyErr(m.valid), true) {
			x.cmp(a.K, argStr(m), c8ModelMbox(create(x, m)), c8RealMbox(got))
		}
	})
	getOrCreate := func(name string, call func(x *c8Exec, m mboxArgs, delim string, parts []string) (*db.Mailbox, bool, error)) {
		c8Reg(name, true, func(x *c8Exec, a core.Action) {
			m := genMbox(x, a)
			if a.Arg(5)%3 == 1 { // an existing remote id: must return that mailbox untouched
				m.rid = x.pickRemote(a.Arg(1))
			}
			delim := []string{"/", "."}[a.Arg(4)%2]
			parts := strings.Split(m.name, "/")
			if name != "GetOrCreateMailbox" {
				m.name = strings.Join(parts, delim)
			}
			id, exists := x.m.ByRemote[m.rid]
			_, nameUsed := x.m.ByName[m.name]
			got, hasResult, err := call(x, m, delim, parts)
			if x.expect(name, argStr(m), err, c8NilOrAnyErr(exists || !nameUsed), true) {
				var b *c8Mbox
				if exists {
					b = x.m.Mboxes[id]
				} else {
					b = create(x, m)
				}
				if hasResult {
					x.cmp(name, argStr(m), c8ModelMbox(b), c8RealMbox(got))
				}
			}
		})
	}
	getOrCreate("GetOrCreateMailbox", func(x *c8Exec, m mboxArgs, _ string, _ []string) (*db.Mailbox, bool, error) {
		b, err := x.tx.GetOrCreateMailbox(x.ctx, imap.MailboxID(m.rid), m.name, imap.NewFlagSet(m.flags...), imap.NewFlagSet(m.perm...), imap.NewFlagSet(m.attrs...), imap.UID(m.uidv))
		return b, true, err
	})
	mk := func(m mboxArgs, parts []string) imap.Mailbox {
		return imap.Mailbox{ID: imap.MailboxID(m.rid), Name: parts, Flags: imap.NewFlagSet(m.flags...), PermanentFlags: imap.NewFlagSet(m.perm...), Attributes: imap.NewFlagSet(m.attrs...)}
	}
	getOrCreate("GetOrCreateMailboxAlt", func(x *c8Exec, m mboxArgs, delim string, parts []string) (*db.Mailbox, bool, error) {
		b, err := x.tx.GetOrCreateMailboxAlt(x.ctx, mk(m, parts), delim, imap.UID(m.uidv))
		return b, true, err
	})
	getOrCreate("CreateMailboxIfNotExists", func(x *c8Exec, m mboxArgs, delim string, parts []string) (*db.Mailbox, bool, error) {
		return nil, false, x.tx.CreateMailboxIfNotExists(x.ctx, mk(m, parts), delim, imap.UID(m.uidv))
	})
	c8Reg("RenameMailboxWithRemoteID", true, func(x *c8Exec, a core.Action) {
		rid := x.pickRemote(a.Arg(1))
		name := c8Names[a.Arg(2)%len(c8Names)]
		id, ok := x.m.ByRemote[rid]
		other, used := x.m.ByName[name]
		want := "nil"
		switch {
		case !ok:
			want = "other" // "no values changed"
		case used && other != id:
			want = "anyerr"
		}
		args := fmt.Sprintf("%q, %q", rid, name)
		err := x.tx.RenameMailboxWithRemoteID(x.ctx, imap.MailboxID(rid), name)
		if x.expect(a.K, args, err, want, true) {
			b := x.m.mut(id)
			delete(x.m.ByName, b.Name)
			b.Name = name
			x.m.ByName[name] = id
			delete(x.m.DelSubs, name)
		}
	})
	c8Reg("DeleteMailboxWithRemoteID", true, func(x *c8Exec, a core.Action) {
		rid := x.pickRemote(a.Arg(1))
		id, ok := x.m.ByRemote[rid]
		want := "nil"
		if ok {
			b := x.m.Mboxes[id]
			if b.Subscribed && x.delSubClash(b.Name, rid) {
				want = "anyerr"
			}
		}
		err := x.tx.DeleteMailboxWithRemoteID(x.ctx, imap.MailboxID(rid))
		if x.expect(a.K, c8Q(rid), err, want, true) && ok {
			b := x.m.Mboxes[id]
			if b.Subscribed {
				x.m.DelSubs[b.Name] = rid
				x.st.Probes["delete_subscribed_mailbox"]++
			}
			if len(b.Rows) > 0 {
				x.st.Probes["delete_nonempty_mailbox"]++
			}
			x.m.deleteMailbox(id)
		}
	})
	c8Reg("AddMessagesToMailbox", true, func(x *c8Exec, a core.Action) {
		id, b := x.pickMbox(a.Arg(1))
		n := a.Arg(0)
		valid := true
		var ids []c8ID
		switch {
		case b == nil:
			ids = x.msgList(max(n, 1), a.Arg(2), x.msgPred(c8Existing))
			valid = false
			if len(ids) == 0 {
				return
			}
		case a.Arg(3)%10 == 0 && n > 0:
			// one element that cannot be added: already a member, or not a message
			ids = x.msgList(n-1, a.Arg(2), func(m c8ID) bool { _, ok := x.m.Msgs[m]; _, in := b.In[m]; return ok && !in })
			bad := x.msgList(1, a.Arg(4), func(m c8ID) bool { _, ok := x.m.Msgs[m]; _, in := b.In[m]; return !ok || in })
			if len(bad) == 1 {
				at := a.Arg(5) % (len(ids) + 1)
				ids = append(ids[:at:at], append([]c8ID{bad[0]}, ids[at:]...)...)
				valid = false
			}
		default:
			ids = x.msgList(n, a.Arg(2), func(m c8ID) bool { _, ok := x.m.Msgs[m]; _, in := b.In[m]; return ok && !in })
		}
		x.noteLen(a.K, len(ids))
		pairs := make([]db.MessageIDPair, len(ids))
		for i, m := range ids {
			pairs[i] = db.MessageIDPair{InternalID: m, RemoteID: imap.MessageID(x.m.Msgs[m].RemoteID)}
			if _, ok := x.m.Msgs[m]; !ok {
				pairs[i].RemoteID = imap.MessageID("ghost-" + c8Short(m))
			}
		}
		args := fmt.Sprintf("%d, %s", id, c8IDs(ids))
		got, err := x.tx.AddMessagesToMailbox(x.ctx, mbid(id), pairs)
		if x.expect(a.K, args, err, c8NilOrAnyErr(valid), true) {
			rows := x.m.addToMailbox(id, ids)
			x.touch(ids)
			w := make([]string, len(rows))
			for i, r := range rows {
				w[i] = x.modelRow(r)
			}
			g := make([]string, len(got))
			for i, r := range got {
				g[i] = c8RowString(uint32(r.UID), r.InternalID, string(r.RemoteID), r.Recent, r.Deleted, c8CSVFlags(r.Flags))
			}
			x.cmpSeq(a.K, args, w, g)
		}
	})
	c8Reg("RemoveMessagesFromMailbox", true, func(x *c8Exec, a core.Action) {
		id, b := x.pickMbox(a.Arg(1))
		n := a.Arg(0)
		if b == nil {
			n = max(n, 1)
		}
		// mostly members of this mailbox (Arg(3)%4 < 2), else any message, else any id
		pred := x.msgPred([]int{c8Member, c8Member, c8Existing, c8Any}[a.Arg(3)%4])
		if b != nil && a.Arg(3)%4 < 2 {
			pred = func(m c8ID) bool { _, in := b.In[m]; return in }
		}
		ids := x.msgList(n, a.Arg(2), pred)
		if b == nil && len(ids) == 0 {
			return
		}
		x.noteLen(a.K, len(ids))
		args := fmt.Sprintf("%d, %s", id, c8IDs(ids))
		err := x.tx.RemoveMessagesFromMailbox(x.ctx, mbid(id), ids)
		if x.expect(a.K, args, err, c8NilOrAnyErr(b != nil), true) && b != nil {
			if x.m.removeFromMailbox(id, ids) > 0 {
				x.st.Probes["removed_members"]++
			}
			x.touch(ids)
		}
	})
	c8Reg("ClearRecentFlagInMailboxOnMessage", true, func(x *c8Exec, a core.Action) {
		id, b := x.pickMbox(a.Arg(1))
		var msg c8ID
		if b != nil && len(b.Rows) > 0 && a.Arg(3)%4 != 0 {
			msg = b.Rows[a.Arg(2)%len(b.Rows)].Msg
		} else {
			msg = x.pickMsg(a.Arg(2), c8Any)
		}
		args := fmt.Sprintf("%d, %s", id, c8Short(msg))
		err := x.tx.ClearRecentFlagInMailboxOnMessage(x.ctx, mbid(id), msg)
		if x.expect(a.K, args, err, c8NilOrAnyErr(b != nil), true) && b != nil {
			if _, in := b.In[msg]; in {
				x.m.updRows(id, func(r *c8Row) {
					if r.Msg == msg {
						r.Recent = false
					}
				})
			}
		}
	})
	c8Reg("ClearRecentFlagsInMailbox", true, func(x *c8Exec, a core.Action) {
		id, b := x.pickMbox(a.Arg(1))
		err := x.tx.ClearRecentFlagsInMailbox(x.ctx, mbid(id))
		if x.expect(a.K, fmt.Sprint(id), err, c8NilOrAnyErr(b != nil), true) && b != nil {
			x.m.updRows(id, func(r *c8Row) { r.Recent = false })
		}
	})
	c8Reg("SetMailboxMessagesDeletedFlag", true, func(x *c8Exec, a core.Action) {
		id, b := x.pickMbox(a.Arg(1))
		n := a.Arg(0)
		if b == nil {
			n = max(n, 1)
		}
		// mostly members of this mailbox (Arg(3)%4 < 2), else any message, else any id
		pred := x.msgPred([]int{c8Member, c8Member, c8Existing, c8Any}[a.Arg(3)%4])
		if b != nil && a.Arg(3)%4 < 2 {
			pred = func(m c8ID) bool { _, in := b.In[m]; return in }
		}
		ids := x.msgList(n, a.Arg(2), pred)
		if b == nil && len(ids) == 0 {
			return
		}
		x.noteLen(a.K, len(ids))
		deleted := a.Arg(4)%3 != 0
		args := fmt.Sprintf("%d, %s, %v", id, c8IDs(ids), deleted)
		err := x.tx.SetMailboxMessagesDeletedFlag(x.ctx, mbid(id), ids, deleted)
		if x.expect(a.K, args, err, c8NilOrAnyErr(b != nil), true) && b != nil {
			set := make(map[c8ID]bool, len(ids))
			for _, m := range ids {
				set[m] = true
			}
			x.m.updRows(id, func(r *c8Row) {
				if set[r.Msg] {
					r.Deleted = deleted
				}
			})
			x.touch(ids)
		}
	})
	c8Reg("SetMailboxSubscribed", true, func(x *c8Exec, a core.Action) {
		id, b := x.pickMbox(a.Arg(1))
		sub := a.Arg(2)%2 == 0
		want := "nil"
		if b == nil {
			want = "unspec"
		}
		err := x.tx.SetMailboxSubscribed(x.ctx, mbid(id), sub)
		if x.expect(a.K, fmt.Sprintf("%d, %v", id, sub), err, want, true) && b != nil {
			x.m.mut(id).Subscribed = sub
		}
	})
	c8Reg("UpdateRemoteMailboxID", true, func(x *c8Exec, a core.Action) {
		id, b := x.pickMbox(a.Arg(1))
		rid := c8Unused(c8RemoteIDs, a.Arg(2), func(s string) bool { _, ok := x.m.ByRemote[s]; return ok }, a.Arg(3)%5 == 0)
		other, used := x.m.ByRemote[rid]
		want := "nil"
		switch {
		case b == nil:
			want = "other"
		case used && other != id:
			want = "anyerr"
		}
		err := x.tx.UpdateRemoteMailboxID(x.ctx, mbid(id), imap.MailboxID(rid))
		if x.expect(a.K, fmt.Sprintf("%d, %q", id, rid), err, want, true) {
			nb := x.m.mut(id)
			delete(x.m.ByRemote, nb.RemoteID)
			nb.RemoteID = rid
			x.m.ByRemote[rid] = id
		}
	})
	c8Reg("SetMailboxUIDValidity", true, func(x *c8Exec, a core.Action) {
		id, b := x.pickMbox(a.Arg(1))
		uidv := uint32(1 + a.Arg(2)*7)
		want := "nil"
		if b == nil {
			want = "other"
		}
		err := x.tx.SetMailboxUIDValidity(x.ctx, mbid(id), imap.UID(uidv))
		if x.expect(a.K, fmt.Sprintf("%d, %d", id, uidv), err, want, true) {
			x.m.mut(id).UIDValidity = uidv
		}
	})
	addAll := func(name string, call func(x *c8Exec, flags []string) error, apply func(b *c8Mbox, flags []string)) {
		c8Reg(name, true, func(x *c8Exec, a core.Action) {
			n := a.Arg(0) % 4
			if n == 0 && !x.knob("k_noflags") {
				n = 1
			}
			flags := x.flagList(a.Arg(1), n, false)
			if x.knob("k_quote") && n > 0 && a.Arg(2)%2 == 0 {
				flags[0] = "it's"
			}
			err := call(x, flags)
			if x.expect(name, fmt.Sprintf("%q", flags), err, "nil", true) {
				for _, id := range x.m.mboxIDs() {
					apply(x.m.mut(id), flags)
				}
			}
		})
	}
	addAll("AddFlagsToAllMailboxes", func(x *c8Exec, flags []string) error { return x.tx.AddFlagsToAllMailboxes(x.ctx, flags...) },
		func(b *c8Mbox, flags []string) { b.Flags = b.Flags.with(flags...) })
	addAll("AddPermFlagsToAllMailboxes", func(x *c8Exec, flags []string) error { return x.tx.AddPermFlagsToAllMailboxes(x.ctx, flags...) },
		func(b *c8Mbox, flags []string) { b.Perm = b.Perm.with(flags...) })

	// ======================= message writes =======================
	c8Reg("CreateMessages", true, func(x *c8Exec, a core.Action) {
		n := min(a.Arg(0), c8MaxList)
		reqs := make([]*db.CreateMessageReq, n)
		msgs := make([]c8Msg, n)
		for i := range reqs {
			nf := 0 // per message 0..2 flags (0..1 in long lists), or none at all in this call
			if a.Arg(2)%3 != 0 {
				nf = (i + a.Arg(2)) % 3
				if n > 50 {
					nf = (i + a.Arg(2)) % 2
				}
			}
			reqs[i], msgs[i] = x.msgReq(a.Arg(1)+i*31, nf)
		}
		valid := true
		if n > 0 && a.Arg(3)%12 == 0 {
			// one request clashes: remote id or internal id of an existing message, or of a list neighbour
			at := a.Arg(4) % n
			old, ok := x.m.Msgs[x.pickMsg(a.Arg(5), c8Existing)]
			switch {
			case ok && a.Arg(5)%3 == 0:
				reqs[at].Message.ID = imap.MessageID(old.RemoteID)
				valid = false
			case ok && a.Arg(5)%3 == 1:
				reqs[at].InternalID = old.ID
				valid = false
			case n > 1:
				reqs[at].Message.ID = reqs[(at+1)%n].Message.ID
				valid = false
			}
		}
		x.noteLen(a.K, n)
		args := fmt.Sprintf("%d requests valid=%v", n, valid)
		err := x.tx.CreateMessages(x.ctx, reqs...)
		if x.expect(a.K, args, err, c8NilOrAnyErr(valid), true) {
			ids := make([]c8ID, n)
			for i, m := range msgs {
				x.m.createMessage(m)
				ids[i] = m.ID
			}
			x.touch(ids)
		}
	})
	c8Reg("CreateMessageAndAddToMailbox", true, func(x *c8Exec, a core.Action) {
		id, b := x.pickMbox(a.Arg(1))
		req, m := x.msgReq(a.Arg(2), a.Arg(0)%4)
		valid := b != nil
		if a.Arg(3)%12 == 0 {
			if old, ok := x.m.Msgs[x.pickMsg(a.Arg(4), c8Existing)]; ok {
				req.Message.ID = imap.MessageID(old.RemoteID)
				valid = false
			}
		}
		args := fmt.Sprintf("%d, %s flags=%s valid=%v", id, c8Short(m.ID), m.Flags, valid)
		uid, flags, err := x.tx.CreateMessageAndAddToMailbox(x.ctx, mbid(id), req)
		if x.expect(a.K, args, err, c8NilOrAnyErr(valid), true) {
			x.m.createMessage(m)
			rows := x.m.addToMailbox(id, []c8ID{m.ID})
			x.touch([]c8ID{m.ID})
			x.cmp(a.K, args, fmt.Sprintf("uid=%d flags=%s", rows[0].UID, m.Flags.with(imap.FlagRecent)), fmt.Sprintf("uid=%d flags=%s", uid, c8FlagSetString(flags)))
		}
	})
	c8Reg("MarkMessageAsDeleted", true, func(x *c8Exec, a core.Action) {
		id := x.pickMsg(a.Arg(1), a.Arg(2)%2)
		m, ok := x.m.Msgs[id]
		want := "nil"
		if !ok {
			want = "unspec"
		}
		err := x.tx.MarkMessageAsDeleted(x.ctx, id)
		if x.expect(a.K, c8Short(id), err, want, true) && ok {
			m.Deleted = true
			x.m.Msgs[id] = m
		}
	})
	c8Reg("MarkMessageAsDeletedAndAssignRandomRemoteID", true, func(x *c8Exec, a core.Action) {
		class := []int{c8NonMember, c8NonMember, c8Missing}[a.Arg(2)%3]
		if x.knob("k_randmember") {
			class = c8Member
		}
		id := x.pickMsg(a.Arg(1), class)
		if !x.knob("k_randmember") && x.m.isMember(id) {
			return
		}
		m, ok := x.m.Msgs[id]
		want := "nil"
		if !ok {
			want = "unspec"
		}
		err := x.tx.MarkMessageAsDeletedAndAssignRandomRemoteID(x.ctx, id)
		if x.expect(a.K, c8Short(id), err, want, true) && ok {
			m.Deleted = true
			x.m.Msgs[id] = m
			// the new remote id is random: learn it, it must be new and unlike the old one
			rem, err := x.tx.GetMessageRemoteID(x.ctx, id)
			x.st.Checks++
			switch _, used := x.m.MsgByRem[string(rem)]; {
			case err != nil:
				x.fail("result", a.K+" remote id", "%s(%s): GetMessageRemoteID afterwards failed: %v", a.K, c8Short(id), err)
			case string(rem) == m.RemoteID || used || !strings.HasPrefix(string(rem), "DELETED-"):
				x.fail("result", a.K+" remote id", "%s(%s): remote id afterwards is %q (before %q): not a fresh DELETED-… id", a.K, c8Short(id), c8Norm(string(rem)), m.RemoteID)
			default:
				x.m.setRemote(id, string(rem))
			}
		}
	})
	c8Reg("MarkMessageAsDeletedWithRemoteID", true, func(x *c8Exec, a core.Action) {
		rem := x.pickMsgRemote(a.Arg(1))
		id, ok := x.m.MsgByRem[rem]
		want := "nil"
		if !ok {
			want = "unspec"
		}
		err := x.tx.MarkMessageAsDeletedWithRemoteID(x.ctx, imap.MessageID(rem))
		if x.expect(a.K, c8Q(rem), err, want, true) && ok {
			m := x.m.Msgs[id]
			m.Deleted = true
			x.m.Msgs[id] = m
		}
	})
	c8Reg("DeleteMessages", true, func(x *c8Exec, a core.Action) {
		class := c8NonMember
		switch a.Arg(3) % 5 {
		case 0:
			class = c8Any
		case 1:
			class = c8Missing
		}
		pred := x.msgPred(class)
		if class == c8NonMember && a.Arg(3)%2 == 0 {
			miss := x.msgPred(c8Missing)
			nm := pred
			pred = func(m c8ID) bool { return nm(m) || miss(m) }
		}
		ids := x.msgList(a.Arg(0), a.Arg(1), pred)
		x.noteLen(a.K, len(ids))
		valid := true
		for _, m := range ids {
			if x.m.isMember(m) {
				valid = false // still referenced by a mailbox: refused
				break
			}
		}
		err := x.tx.DeleteMessages(x.ctx, ids)
		if x.expect(a.K, fmt.Sprintf("%s valid=%v", c8IDs(ids), valid), err, c8NilOrAnyErr(valid), true) {
			for _, m := range ids {
				x.m.deleteMessage(m)
			}
			x.touch(ids)
		}
	})
	c8Reg("UpdateRemoteMessageID", true, func(x *c8Exec, a core.Action) {
		// Ordinary runs change the remote id of messages that are in no mailbox; the
		// knob run addresses members (the per-mailbox copy of the remote id goes stale).
		class := c8NonMember
		switch {
		case x.knob("k_updremote"):
			class = c8Member
		case a.Arg(2)%4 == 3:
			class = c8Missing
		}
		id := x.pickMsg(a.Arg(1), class)
		if !x.knob("k_updremote") && x.m.isMember(id) {
			return
		}
		_, ok := x.m.Msgs[id]
		x.nextRem++
		rem := fmt.Sprintf("m%d-new", x.nextRem)
		if a.Arg(3)%6 == 0 {
			rem = x.pickMsgRemote(a.Arg(4))
		}
		other, used := x.m.MsgByRem[rem]
		want := "nil"
		switch {
		case !ok:
			want = "other"
		case used && other != id:
			want = "anyerr"
		}
		err := x.tx.UpdateRemoteMessageID(x.ctx, id, imap.MessageID(rem))
		if x.expect(a.K, fmt.Sprintf("%s, %q", c8Short(id), rem), err, want, true) {
			x.m.setRemote(id, rem)
		}
	})
	c8Reg("AddFlagToMessages", true, func(x *c8Exec, a core.Action) {
		class := c8Existing
		if a.Arg(3)%10 == 0 {
			class = c8Any
		}
		ids := x.msgList(a.Arg(0), a.Arg(1), x.msgPred(class))
		flag := x.flag(a.Arg(2))
		valid := true
		for _, m := range ids {
			if _, ok := x.m.Msgs[m]; !ok {
				valid = false
				break
			}
		}
		x.noteLen(a.K, len(ids))
		args := fmt.Sprintf("%s, %q", c8IDs(ids), flag)
		err := x.tx.AddFlagToMessages(x.ctx, ids, flag)
		if x.expect(a.K, args, err, c8NilOrAnyErr(valid), true) {
			for _, id := range ids {
				m := x.m.Msgs[id]
				m.Flags = m.Flags.with(flag)
				x.m.Msgs[id] = m
			}
			x.touch(ids)
		}
	})
	c8Reg("RemoveFlagFromMessages", true, func(x *c8Exec, a core.Action) {
		ids := x.msgList(a.Arg(0), a.Arg(1), x.msgPred([]int{c8Existing, c8Any}[a.Arg(3)%2]))
		flag := x.flag(a.Arg(2))
		if len(ids) > 0 && a.Arg(4)%2 == 0 {
			// prefer a flag the first message has
			if ks := x.m.Msgs[ids[0]].Flags; len(ks) > 0 {
				k := ks.keys()[a.Arg(2)%len(ks)]
				flag = ks[k]
				if x.knob("k_flagcase") && a.Arg(2)%2 == 0 && c8ASCII(flag) {
					flag = c8SwapCase(flag)
				}
			}
		}
		x.noteLen(a.K, len(ids))
		args := fmt.Sprintf("%s, %q", c8IDs(ids), flag)
		err := x.tx.RemoveFlagFromMessages(x.ctx, ids, flag)
		if x.expect(a.K, args, err, "nil", true) {
			for _, id := range ids {
				if m, ok := x.m.Msgs[id]; ok && m.Flags.has(flag) {
					m.Flags = m.Flags.without(flag)
					x.m.Msgs[id] = m
					x.st.Probes["flag_removed"]++
				}
			}
			x.touch(ids)
		}
	})
	c8Reg("SetFlagsOnMessages", true, func(x *c8Exec, a core.Action) {
		flags := x.flagList(a.Arg(2), a.Arg(4)%4, true)
		class := c8Existing
		if a.Arg(3)%10 == 0 && len(flags) > 0 {
			class = c8Any
		}
		ids := x.msgList(a.Arg(0), a.Arg(1), x.msgPred(class))
		valid := true
		for _, m := range ids {
			if _, ok := x.m.Msgs[m]; !ok {
				valid = false
				break
			}
		}
		x.noteLen(a.K, len(ids))
		args := fmt.Sprintf("%s, %q", c8IDs(ids), flags)
		err := x.tx.SetFlagsOnMessages(x.ctx, ids, imap.NewFlagSet(flags...))
		if x.expect(a.K, args, err, c8NilOrAnyErr(valid), true) {
			set := c8NewSet(flags...)
			for _, id := range ids {
				m := x.m.Msgs[id]
				m.Flags = set
				x.m.Msgs[id] = m
			}
			x.touch(ids)
		}
	})

	// ======================= subscriptions, settings =======================
	c8Reg("AddDeletedSubscription", true, func(x *c8Exec, a core.Action) {
		name := c8Names[a.Arg(1)%len(c8Names)]
		rid := c8RemoteIDs[a.Arg(2)%len(c8RemoteIDs)]
		want := "nil"
		if x.delSubClash(name, rid) {
			want = "anyerr"
		}
		err := x.tx.AddDeletedSubscription(x.ctx, name, imap.MailboxID(rid))
		if x.expect(a.K, fmt.Sprintf("%q, %q", name, rid), err, want, true) {
			x.m.DelSubs[name] = rid
		}
	})
	c8Reg("RemoveDeletedSubscriptionWithName", true, func(x *c8Exec, a core.Action) {
		name := c8Names[a.Arg(1)%len(c8Names)]
		if ks := x.delSubNames(); len(ks) > 0 && a.Arg(2)%3 != 0 {
			name = ks[a.Arg(1)%len(ks)]
		}
		_, ok := x.m.DelSubs[name]
		n, err := x.tx.RemoveDeletedSubscriptionWithName(x.ctx, name)
		if x.expect(a.K, c8Q(name), err, "nil", true) {
			w := 0
			if ok {
				w = 1
				delete(x.m.DelSubs, name)
			}
			x.cmp(a.K, c8Q(name), w, n)
		}
	})
	c8Reg("StoreConnectorSettings", true, func(x *c8Exec, a core.Action) {
		s := []string{"", "settings-1", "{\"a\":'b'}", "ünï"}[a.Arg(1)%4]
		err := x.tx.StoreConnectorSettings(x.ctx, s)
		if x.expect(a.K, c8Q(s), err, "nil", true) {
			x.m.Settings, x.m.HasSet = s, true
		}
	})
}

func c8NilOrNotFound(ok bool) string {
	if ok {
		return "nil"
	}
	return "notfound"
}

func c8NilOrAnyErr(ok bool) string {
	if ok {
		return "nil"
	}
	return "anyerr"
}

func c8Q(s string) string { return fmt.Sprintf("%q", s) }

// c8Norm hides the random part of a DELETED-<uuid> remote id.
func c8Norm(s string) string {
	if strings.HasPrefix(s, "DELETED-") {
		return "DELETED-*"
	}
	return s
}

func c8SwapCase(s string) string {
	if u := strings.ToUpper(s); u != s {
		return u
	}
	return strings.ToLower(s)
}

func c8U64s(v []uint64) []string {
	out := make([]string, len(v))
	for i, x := range v {
		out[i] = fmt.Sprint(x)
	}
	return out
}

func c8MbIDs(v []imap.InternalMailboxID) []string {
	out := make([]string, len(v))
	for i, x := range v {
		out[i] = fmt.Sprint(uint64(x))
	}
	return out
}

func (x *c8Exec) delSubClash(name, rid string) bool {
	for n, r := range x.m.DelSubs {
		if r == rid && n != name {
			return true
		}
	}
	return false
}

func (x *c8Exec) delSubNames() []string {
	ks := make([]string, 0, len(x.m.DelSubs))
	for k := range x.m.DelSubs {
		ks = append(ks, k)
	}
	sort.Strings(ks)
	return ks
}

func (x *c8Exec) modelDelSubs() []string {
	var w []string
	for n, r := range x.m.DelSubs {
		w = append(w, fmt.Sprintf("key=%q name=%q remote=%q", r, n, r))
	}
	return w
}

func c8RealDelSubs(got map[imap.MailboxID]*db.DeletedSubscription) []string {
	var g []string
	for k, v := range got {
		if v == nil {
			g = append(g, fmt.Sprintf("key=%q <nil>", string(k)))
			continue
		}
		g = append(g, fmt.Sprintf("key=%q name=%q remote=%q", string(k), v.Name, string(v.RemoteID)))
	}
	return g
}

func (x *c8Exec) modelSnapshot(b *c8Mbox) []string {
	w := make([]string, len(b.Rows))
	for i, r := range b.Rows {
		w[i] = x.modelRow(r)
	}
	return w
}

func c8RealSnapshot(got []db.SnapshotMessageResult) []string {
	g := make([]string, len(got))
	for i, r := range got {
		g[i] = c8RowString(uint32(r.UID), r.InternalID, string(r.RemoteID), r.Recent, r.Deleted, c8CSVFlags(r.Flags))
	}
	return g
}
