package props

func init() { register(C16{}) }
