package props

func init() { register(C09{}) }
