package props

// Reference model of the mailbox namespace for C14, the independent LIST/LSUB matcher
// and a small modified-UTF-7 codec.  Nothing in this file looks at gluon.

import (
	"encoding/base64"
	"fmt"
	"sort"
	"strings"
	"unicode/utf16"
)

const c14Recovery = "Recovered Messages"

// expectation of a tagged result
const (
	c14OK     = 1
	c14NO     = 2
	c14Either = 3 // RFC 3501 leaves it to the server; the model follows the answer
)

func c14ExpString(x int) string {
	switch x {
	case c14OK:
		return "OK"
	case c14NO:
		return "NO"
	}
	return "OK|NO"
}

// c14NS is the namespace of one user.
type c14NS struct {
	D string
	// Boxes: existing (selectable) mailboxes -> remote id ("" when not known).
	Boxes map[string]string
	// Subs: the subscription list, a set of NAMES (it outlives the mailbox).
	Subs map[string]bool
	// RecVisible: the recovery mailbox holds messages (it is listed only then).
	RecVisible bool
}

func newC14NS(d string) *c14NS {
	return &c14NS{
		D:     d,
		Boxes: map[string]string{"INBOX": "", c14Recovery: ""},
		Subs:  map[string]bool{"INBOX": true, c14Recovery: true},
	}
}

// norm maps a name as written by a client to the name it denotes: INBOX is
// case-insensitive, both alone and as the first level of hierarchy.
func (m *c14NS) norm(name string) string {
	if strings.EqualFold(name, "INBOX") {
		return "INBOX"
	}
	if i := strings.Index(name, m.D); i == 5 && strings.EqualFold(name[:5], "INBOX") {
		return "INBOX" + name[5:]
	}
	return name
}

func (m *c14NS) split(name string) []string { return strings.Split(name, m.D) }

// badName: empty name or an empty level of hierarchy (leading, trailing, doubled delimiter).
func (m *c14NS) badName(name string) bool {
	if name == "" {
		return true
	}
	for _, s := range m.split(name) {
		if s == "" {
			return true
		}
	}
	return false
}

func (m *c14NS) superiors(name string) []string {
	segs := m.split(name)
	var out []string
	for i := 1; i < len(segs); i++ {
		out = append(out, strings.Join(segs[:i], m.D))
	}
	return out
}

func (m *c14NS) isRecoveryName(name string) bool { return strings.EqualFold(name, c14Recovery) }

// underRecovery: the name is the recovery mailbox or lies below it (any letter case).
func (m *c14NS) underRecovery(name string) bool {
	return strings.EqualFold(m.split(name)[0], c14Recovery)
}

func (m *c14NS) exists(name string) bool { _, ok := m.Boxes[name]; return ok }

func (m *c14NS) visible(name string) bool {
	return name != c14Recovery || m.RecVisible
}

// inferiors of an existing or implied name: existing mailboxes strictly below it.
func (m *c14NS) inferiors(name string) []string {
	var out []string
	p := name + m.D
	for n := range m.Boxes {
		if strings.HasPrefix(n, p) {
			out = append(out, n)
		}
	}
	sort.Strings(out)
	return out
}

// ---- commands: each returns the expected tagged result and what to do on OK ----

func (m *c14NS) Create(written string) (int, func(ids map[string]string)) {
	n := m.norm(written)
	if strings.HasSuffix(n, m.D) {
		// "a/" declares the intention to create names below "a": the name created is "a"
		n = n[:len(n)-len(m.D)]
	}
	if m.badName(n) || n == "INBOX" || m.underRecovery(n) || m.exists(n) {
		return c14NO, nil
	}
	return c14OK, func(ids map[string]string) {
		for _, s := range append(m.superiors(n), n) {
			if !m.exists(s) {
				m.Boxes[s] = ids[s]
				m.Subs[s] = true
			}
		}
	}
}

func (m *c14NS) Delete(written string) (int, func()) {
	n := m.norm(written)
	if n == "INBOX" || m.isRecoveryName(n) || !m.exists(n) {
		return c14NO, nil
	}
	// a mailbox with inferiors may be deleted; it stays visible as a \Noselect level
	return c14OK, func() { delete(m.Boxes, n) }
}

func (m *c14NS) Rename(oldW, newW string) (int, func(ids map[string]string)) {
	if n := m.norm(newW); strings.HasSuffix(n, m.D) && !m.badName(n[:len(n)-len(m.D)]) {
		// RFC 3501 gives the trailing delimiter a meaning for CREATE only.  As a RENAME
		// target the server may refuse it, or take it like CREATE does (the name without it).
		exp, apply := m.Rename(oldW, n[:len(n)-len(m.D)])
		if exp == c14OK {
			exp = c14Either
		}
		return exp, apply
	}
	o, n := m.norm(oldW), m.norm(newW)
	if m.isRecoveryName(o) || m.underRecovery(n) {
		return c14NO, nil
	}
	if !m.exists(o) || m.badName(n) || m.exists(n) {
		return c14NO, nil
	}
	for _, s := range m.superiors(n) {
		if s == o {
			return c14NO, nil // onto its own inferior
		}
	}
	create := func(ids map[string]string, name string) {
		if !m.exists(name) {
			m.Boxes[name] = ids[name]
			m.Subs[name] = true
		}
	}
	if o == "INBOX" {
		// messages move to the new mailbox, INBOX stays, inferiors of INBOX stay
		return c14OK, func(ids map[string]string) {
			for _, s := range append(m.superiors(n), n) {
				create(ids, s)
			}
		}
	}
	inf := m.inferiors(o)
	moving := map[string]bool{o: true}
	for _, i := range inf {
		moving[i] = true
	}
	for _, i := range inf {
		t := n + i[len(o):]
		if m.exists(t) && !moving[t] {
			return c14NO, nil // names are unique
		}
	}
	return c14OK, func(ids map[string]string) {
		for _, s := range m.superiors(n) {
			create(ids, s)
		}
		type mv struct{ from, to string }
		var mvs []mv
		for _, i := range append([]string{o}, inf...) {
			mvs = append(mvs, mv{i, n + i[len(o):]})
		}
		vals := map[string]string{}
		subs := map[string]bool{}
		for _, x := range mvs {
			vals[x.to] = m.Boxes[x.from]
			subs[x.to] = m.Subs[x.from]
			delete(m.Boxes, x.from)
			delete(m.Subs, x.from)
		}
		for _, x := range mvs {
			m.Boxes[x.to] = vals[x.to]
			if subs[x.to] {
				m.Subs[x.to] = true
			} else {
				delete(m.Subs, x.to)
			}
		}
	}
}

func (m *c14NS) Subscribe(written string) (int, func()) {
	n := m.norm(written)
	if m.exists(n) && !m.Subs[n] {
		return c14OK, func() { m.Subs[n] = true }
	}
	if m.Subs[n] {
		return c14Either, func() {}
	}
	// a server MAY verify that the name exists
	return c14Either, func() { m.Subs[n] = true }
}

func (m *c14NS) Unsubscribe(written string) (int, func()) {
	n := m.norm(written)
	if m.Subs[n] {
		return c14OK, func() { delete(m.Subs, n) }
	}
	return c14Either, func() {}
}

// ---- connector updates (the remote is authoritative; one mailbox per update) ----

func (m *c14NS) nameOfID(id string) string {
	for n, i := range m.Boxes {
		if i == id && id != "" {
			return n
		}
	}
	return ""
}

// ConnCreate returns false when the update must be refused (name taken).
func (m *c14NS) ConnCreate(name, id string) bool {
	if m.exists(name) {
		return false
	}
	m.Boxes[name] = id
	m.Subs[name] = true
	return true
}

func (m *c14NS) ConnRename(id, name string) bool {
	cur := m.nameOfID(id)
	if cur == "" || cur == name {
		return true
	}
	if m.exists(name) {
		return false
	}
	sub := m.Subs[cur]
	delete(m.Boxes, cur)
	delete(m.Subs, cur)
	m.Boxes[name] = id
	if sub {
		m.Subs[name] = true
	} else {
		delete(m.Subs, name)
	}
	return true
}

func (m *c14NS) ConnDelete(id string) {
	cur := m.nameOfID(id)
	if cur == "" {
		return
	}
	delete(m.Boxes, cur)
	// a deletion announced by the remote service also ends the subscription
	delete(m.Subs, cur)
}

// ---- LIST / LSUB ----

// c14Entry: name -> is it reported \Noselect.
type c14Set map[string]bool

// c14Match is RFC 3501 section 6.3.8 matching: '*' matches zero or more characters,
// '%' matches zero or more characters other than the hierarchy delimiter.
func c14Match(p, s string, d byte) bool {
	if p == "" {
		return s == ""
	}
	switch p[0] {
	case '*':
		for i := 0; i <= len(s); i++ {
			if c14Match(p[1:], s[i:], d) {
				return true
			}
		}
		return false
	case '%':
		for i := 0; i <= len(s); i++ {
			if c14Match(p[1:], s[i:], d) {
				return true
			}
			if i < len(s) && s[i] == d {
				break
			}
		}
		return false
	}
	return s != "" && s[0] == p[0] && c14Match(p[1:], s[1:], d)
}

// Pattern returns the canonical interpreted form of reference + mailbox pattern.
// The reference is itself a mailbox name (or a level of hierarchy), so INBOX in any case
// denotes INBOX there too.
func (m *c14NS) Pattern(ref, pat string) string { return m.norm(m.norm(ref) + pat) }

// List: every visible mailbox and every level of hierarchy above one that matches;
// levels that are not mailboxes themselves carry \Noselect.
func (m *c14NS) List(ref, pat string) c14Set {
	p := m.Pattern(ref, pat)
	out := c14Set{}
	for n := range m.Boxes {
		if !m.visible(n) {
			continue
		}
		if c14Match(p, n, m.D[0]) {
			out[n] = false
		}
		for _, s := range m.superiors(n) {
			if s == "" {
				continue
			}
			if _, done := out[s]; !done && c14Match(p, s, m.D[0]) {
				out[s] = !m.exists(s) || !m.visible(s)
			}
		}
	}
	return out
}

// Lsub: the subscribed names that match (\Noselect when no such mailbox exists any
// more); when the pattern ends in '%', matching levels of hierarchy above a subscribed
// name are reported as well, \Noselect unless subscribed themselves.
func (m *c14NS) Lsub(ref, pat string) c14Set {
	p := m.Pattern(ref, pat)
	out := c14Set{}
	for n := range m.Subs {
		if m.exists(n) && !m.visible(n) {
			continue
		}
		if c14Match(p, n, m.D[0]) {
			out[n] = !m.exists(n)
		}
	}
	if strings.HasSuffix(pat, "%") {
		for n := range m.Subs {
			if m.exists(n) && !m.visible(n) {
				continue
			}
			for _, s := range m.superiors(n) {
				if s == "" {
					continue
				}
				if _, done := out[s]; !done && c14Match(p, s, m.D[0]) {
					out[s] = true
				}
			}
		}
	}
	return out
}

// Known returns every name the model can talk about, sorted (mailboxes, levels above
// them, subscribed names).
func (m *c14NS) Known() []string {
	set := map[string]bool{}
	for n := range m.Boxes {
		set[n] = true
		for _, s := range m.superiors(n) {
			if s != "" {
				set[s] = true
			}
		}
	}
	for n := range m.Subs {
		set[n] = true
	}
	out := make([]string, 0, len(set))
	for n := range set {
		out = append(out, n)
	}
	sort.Strings(out)
	return out
}

// IDs returns the (name, id) pairs of connector-addressable mailboxes, sorted by name.
func (m *c14NS) Addressable() []string {
	var out []string
	for n, id := range m.Boxes {
		if id != "" && n != "INBOX" && n != c14Recovery {
			out = append(out, n)
		}
	}
	sort.Strings(out)
	return out
}

func (s c14Set) String() string {
	ks := make([]string, 0, len(s))
	for k := range s {
		ks = append(ks, k)
	}
	sort.Strings(ks)
	var sb strings.Builder
	for i, k := range ks {
		if i > 0 {
			sb.WriteString(", ")
		}
		fmt.Fprintf(&sb, "%q", k)
		if s[k] {
			sb.WriteString("(noselect)")
		}
	}
	return "{" + sb.String() + "}"
}

// ---- modified UTF-7 (RFC 3501 section 5.1.3) ----

var c14B64 = base64.NewEncoding("ABCDEFGHIJKLMNOPQRSTUVWXYZabcdefghijklmnopqrstuvwxyz0123456789+,").WithPadding(base64.NoPadding)

func c14EncodeUTF7(s string) string {
	var out []byte
	var pend []uint16
	flush := func() {
		if len(pend) == 0 {
			return
		}
		b := make([]byte, 0, 2*len(pend))
		for _, u := range pend {
			b = append(b, byte(u>>8), byte(u))
		}
		out = append(out, '&')
		out = append(out, c14B64.EncodeToString(b)...)
		out = append(out, '-')
		pend = nil
	}
	for _, r := range s {
		if r >= 0x20 && r <= 0x7e {
			flush()
			if r == '&' {
				out = append(out, '&', '-')
			} else {
				out = append(out, byte(r))
			}
			continue
		}
		pend = append(pend, utf16.Encode([]rune{r})...)
	}
	flush()
	return string(out)
}

func c14DecodeUTF7(s string) (string, error) {
	var out []rune
	for i := 0; i < len(s); i++ {
		c := s[i]
		if c < 0x20 || c > 0x7e {
			return "", fmt.Errorf("byte 0x%02x outside printable US-ASCII", c)
		}
		if c != '&' {
			out = append(out, rune(c))
			continue
		}
		j := strings.IndexByte(s[i+1:], '-')
		if j < 0 {
			return "", fmt.Errorf("unterminated shift sequence")
		}
		enc := s[i+1 : i+1+j]
		i += 1 + j
		if enc == "" {
			out = append(out, '&')
			continue
		}
		b, err := c14B64.DecodeString(enc)
		if err != nil || len(b)%2 != 0 {
			return "", fmt.Errorf("bad base64 %q in shift sequence", enc)
		}
		u := make([]uint16, len(b)/2)
		for k := range u {
			u[k] = uint16(b[2*k])<<8 | uint16(b[2*k+1])
		}
		out = append(out, utf16.Decode(u)...)
	}
	return string(out), nil
}
