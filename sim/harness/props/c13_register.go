package props

func init() { register(C13{}) }
