// Package props holds the per-property workloads and oracles.
package props

import (
	"fmt"
	"os"
	"path/filepath"
	"sort"
	"strings"
	"testing"
	"testing/synctest"
	"time"

	"verifharness/core"
	"verifharness/gen"
	"verifharness/model"
	"verifharness/wire"
	"verifharness/world"
)

// ScratchBase is where per-run directories live (set by the worker).
var ScratchBase = os.TempDir()

// T is the *testing.T of the worker (synctest needs one).
var T *testing.T

// Env is the per-run environment shared by the workloads.
type Env struct {
	W    *world.World
	Tr   *core.Tracer
	St   *core.Stats
	Sc   *core.Scenario
	Step int
	V    *core.Violation
	Prop string

	R        *model.User // reference model of user 0 (nil if unused)
	Msgs     map[int]*gen.Message
	nextMark int
	Infra    error
	start    time.Time
	Attrs    map[string]bool // facts about the history (see core.Violation.Attrs)
}

// Attr records a fact about the history of this run.
func (e *Env) Attr(name string) {
	if e.Attrs == nil {
		e.Attrs = map[string]bool{}
	}
	e.Attrs[name] = true
	if e.V != nil {
		e.V.Attrs = core.SortedKeys(e.Attrs)
	}
}

// Fail records the first violation of the run.
func (e *Env) Fail(oracle, format string, args ...any) {
	if e.V != nil {
		return
	}
	d := fmt.Sprintf(format, args...)
	e.V = &core.Violation{Property: e.Prop, Oracle: oracle, Detail: d, Sig: core.NormSig(oracle, d), Step: e.Step}
	e.Tr.Event("VIOLATION", oracle, d)
}

// FailSig is Fail with an explicit signature detail (stable across runs).
func (e *Env) FailSig(oracle, sigDetail, format string, args ...any) {
	if e.V != nil {
		return
	}
	d := fmt.Sprintf(format, args...)
	e.V = &core.Violation{Property: e.Prop, Oracle: oracle, Detail: d, Sig: oracle + ": " + sigDetail, Step: e.Step}
	e.Tr.Event("VIOLATION", oracle, d)
}

func (e *Env) Failed() bool { return e.V != nil || e.Infra != nil }

// CheckPanics turns a panic recorded by the server's panic handler into the run's
// violation (with the default handler the process would have died).
func (e *Env) CheckPanics() {
	if e.W != nil && len(e.W.Panics) > 0 && e.V == nil {
		e.FailSig("panic", firstLine(e.W.Panics[0]), "server goroutine panicked: %s", e.W.Panics[0])
	}
}

// NewMessage makes the next generator message.
func (e *Env) NewMessage(seed int, o gen.Opts) *gen.Message {
	e.nextMark++
	m := gen.Build(e.nextMark, core.NewRand(core.Mix(e.Sc.Seed, uint64(seed)*7919+uint64(e.nextMark))), o)
	if e.Msgs == nil {
		e.Msgs = map[int]*gen.Message{}
	}
	e.Msgs[m.Marker] = m
	return m
}

// RunInBubble executes fn inside a fresh synctest bubble with a fresh world and
// returns the result.  A panic of the harness or a stuck bubble is an Infra error.
func RunInBubble(prop string, sc *core.Scenario, keepLog bool, cfg world.Config, fn func(e *Env)) *core.Result {
	res := &core.Result{Stats: core.NewStats()}
	tr := &core.Tracer{Keep: keepLog}
	dir, err := os.MkdirTemp(ScratchBase, "run-")
	if err != nil {
		res.Infra = err
		return res
	}
	defer os.RemoveAll(dir)
	cfg.Dir = dir
	cfg.UUIDSeed = sc.Seed
	cfg.Trace = keepLog
	e := &Env{Tr: tr, St: &res.Stats, Sc: sc, Prop: prop}
	finished := make(chan struct{})
	// synctest.Test calls t.FailNow (runtime.Goexit) when the bubble's test failed, which in a
	// -race build happens whenever the detector reported something during the bubble: run it
	// on a helper goroutine so that only the helper exits and the run can still be judged.
	go func() {
		defer close(finished)
		defer func() {
			if r := recover(); r != nil {
				s := fmt.Sprint(r)
				if strings.Contains(s, "deadlock: main bubble goroutine has exited but blocked goroutines remain") {
					// goroutines left behind when the bubble ended: judged by C19 only;
					// elsewhere it is noted, not judged.
					e.St.Probes["bubble_leftover_goroutines"]++
					return
				}
				if e.Infra == nil {
					e.Infra = fmt.Errorf("harness panic: %v", r)
				}
			}
		}()
		synctest.Test(T, func(t *testing.T) {
			w, err := world.New(cfg)
			if err != nil {
				e.Infra = fmt.Errorf("boot: %w", err)
				return
			}
			e.W = w
			e.start = time.Now()
			defer func() {
				e.St.SimTimeMs = time.Since(e.start).Milliseconds()
				w.Destroy()
			}()
			fn(e)
			if len(w.Panics) > 0 && e.V == nil {
				e.FailSig("panic", firstLine(w.Panics[0]), "server goroutine panicked: %s", w.Panics[0])
			}
		})
	}()
	<-finished
	res.V = e.V
	if res.V != nil {
		res.V.Attrs = core.SortedKeys(e.Attrs)
	}
	res.Infra = e.Infra
	res.Stats.TraceHash = tr.Hash()
	res.Stats.Actions = e.Step
	if e.W != nil {
		for k, v := range e.W.Stats {
			res.Stats.Probes[k] += v
		}
		if keepLog {
			res.Log = append(res.Log, e.W.Log...)
		}
	}
	if keepLog && len(res.Log) == 0 {
		res.Log = tr.Log
	}
	return res
}

func firstLine(s string) string {
	if i := strings.IndexByte(s, '\n'); i >= 0 {
		return s[:i]
	}
	return s
}

// ---- authoritative read ----

// AuthRead opens a fresh session, EXAMINEs the mailbox and fetches everything.
func (e *Env) AuthRead(user int, mailbox string, withBytes bool) ([]model.Row, uint32, uint32, error) {
	s, err := e.W.Connect()
	if err != nil {
		return nil, 0, 0, err
	}
	defer func() {
		s.Cmd("LOGOUT")
		s.C.Dead = true
	}()
	u := e.W.Users[user]
	if r := s.Cmd("LOGIN %s %s", u.Cfg.Names[0], u.Cfg.Password); !r.OK() {
		return nil, 0, 0, fmt.Errorf("reader LOGIN: %s %s", r.Status, r.Text)
	}
	return e.readMailbox(s, mailbox, withBytes)
}

func (e *Env) readMailbox(s *world.Sess, mailbox string, withBytes bool) ([]model.Row, uint32, uint32, error) {
	s.M.Reset(mailbox, true)
	r := s.Cmd("EXAMINE %s", Quote(mailbox))
	if !r.OK() {
		return nil, 0, 0, fmt.Errorf("reader EXAMINE %q: %s %s", mailbox, r.Status, r.Text)
	}
	var uidValidity, uidNext uint32
	for _, l := range r.Lines {
		if l.Status == "OK" {
			var v uint32
			if _, err := fmt.Sscanf(l.Code, "UIDVALIDITY %d", &v); err == nil {
				uidValidity = v
			}
			if _, err := fmt.Sscanf(l.Code, "UIDNEXT %d", &v); err == nil {
				uidNext = v
			}
		}
	}
	if s.M.Count() == 0 {
		return nil, uidValidity, uidNext, nil
	}
	items := "(UID FLAGS BODY.PEEK[HEADER.FIELDS (X-Sim-Marker)])"
	if withBytes {
		items = "(UID FLAGS RFC822.SIZE BODY.PEEK[])"
	}
	r = s.Cmd("FETCH 1:* %s", items)
	if !r.OK() {
		return nil, uidValidity, uidNext, fmt.Errorf("reader FETCH: %s %s", r.Status, r.Text)
	}
	rows := make([]model.Row, s.M.Count())
	seen := make([]bool, s.M.Count())
	for _, l := range r.Lines {
		if _, kw, ok := l.Num(); !ok || kw != "FETCH" {
			continue
		}
		fd, err := wire.ParseFetch(l)
		if err != nil {
			return nil, uidValidity, uidNext, err
		}
		if int(fd.Seq) < 1 || int(fd.Seq) > len(rows) {
			return nil, uidValidity, uidNext, fmt.Errorf("reader FETCH seq %d outside 1..%d", fd.Seq, len(rows))
		}
		row := model.Row{UID: fd.UID, Flags: fd.Flags, Marker: -1}
		for name, n := range fd.Items {
			if strings.HasPrefix(name, "BODY[") {
				row.Marker = gen.MarkerOf([]byte(n.Str))
				if withBytes {
					rest, _, ok := gen.StripID([]byte(n.Str))
					if !ok {
						// recovered messages carry no ID header; keep bytes as they are
						rest = []byte(n.Str)
					}
					row.Bytes = rest
				}
			}
		}
		if withBytes {
			// what is served is one literal: its announced size is its length
			var size, blen = -1, -1
			for name, n := range fd.Items {
				if name == "RFC822.SIZE" {
					fmt.Sscan(n.Str, &size)
				}
				if strings.HasPrefix(name, "BODY[") {
					blen = len(n.Str)
				}
			}
			if size >= 0 && blen >= 0 && size != blen {
				return nil, uidValidity, uidNext, fmt.Errorf("message <%d> (UID %d) of %q: RFC822.SIZE is %d but BODY[] has %d bytes", row.Marker, row.UID, mailbox, size, blen)
			}
		}
		rows[fd.Seq-1] = row
		seen[fd.Seq-1] = true
	}
	for i, ok := range seen {
		if !ok {
			return nil, uidValidity, uidNext, fmt.Errorf("reader FETCH 1:* gave no line for seq %d of %d", i+1, len(rows))
		}
	}
	return rows, uidValidity, uidNext, nil
}

// Quote renders a mailbox name as an IMAP quoted string.
func Quote(s string) string {
	s = strings.ReplaceAll(s, `\`, `\\`)
	s = strings.ReplaceAll(s, `"`, `\"`)
	return `"` + s + `"`
}

// CheckModel compares every mailbox of R with the server.
func (e *Env) CheckModel(oracle string, withBytes bool, checkUID bool) {
	if e.R == nil || e.Failed() {
		return
	}
	s, err := e.W.Connect()
	if err != nil {
		e.Infra = err
		return
	}
	defer func() {
		s.Cmd("LOGOUT")
		s.C.Dead = true
	}()
	u := e.W.Users[0]
	if r := s.Cmd("LOGIN %s %s", u.Cfg.Names[0], u.Cfg.Password); !r.OK() {
		e.Infra = fmt.Errorf("reader LOGIN: %s %s", r.Status, r.Text)
		return
	}
	names := e.R.Names()
	sort.Strings(names)
	for _, name := range names {
		b := e.R.Boxes[name]
		rows, _, uidNext, err := e.readMailbox(s, name, withBytes)
		if err != nil {
			e.Fail(oracle, "authoritative read of %q failed: %v", name, err)
			return
		}
		e.St.Checks++
		if d := model.Diff(name, b.Rows(), rows, checkUID); d != "" {
			e.Fail(oracle, "%s", d)
			return
		}
		if checkUID && uidNext != 0 && uidNext != b.UIDNext {
			e.Fail(oracle, "mailbox %q: model UIDNEXT %d, server UIDNEXT %d", name, b.UIDNext, uidNext)
			return
		}
	}
}

// TmpDir returns a directory under the scratch base.
func TmpDir(name string) string { return filepath.Join(ScratchBase, name) }
