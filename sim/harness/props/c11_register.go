package props

func init() { register(C11{}) }
