package props

func init() { register(C15{}) }
