package props

import (
	"fmt"
	"sort"
	"strings"
	"time"

	"verifharness/core"
	"verifharness/gen"
	"verifharness/wire"
	"verifharness/world"
)

// C18 — commands are gated by authentication state and users are isolated.
type C18 struct{}

func (C18) ID() string { return "C18" }

func (C18) Generate(r *core.Rand, tier string, idx int) *core.Scenario {
	sc := &core.Scenario{Property: "C18", Cfg: map[string]int{}}
	sc.Cfg["jail_ms"] = []int{1000, 5000, 60000, 600000}[r.Intn(4)]
	n := r.Range(25, 70)
	for i := 0; i < n; i++ {
		k := "cmd"
		if r.P(1, 12) {
			k = "jail"
		} else if r.P(1, 10) {
			k = "reconnect"
		}
		a := core.Action{K: k, S: r.Intn(3)}
		for j := 0; j < 5; j++ {
			a.A = append(a.A, r.Intn(1000))
		}
		sc.Actions = append(sc.Actions, a)
	}
	return sc
}

type c18User struct {
	names []string
	pass  string
	boxes map[string][]int // mailbox -> markers in order
}

type c18Sess struct {
	s    *world.Sess
	user int    // -1 = not authenticated
	sel  string // "" = none
	ro   bool
}

func (C18) Execute(sc *core.Scenario, keepLog bool) *core.Result {
	jail := time.Duration(max(1, sc.C("jail_ms"))) * time.Millisecond
	cfg := world.Config{
		Users:    []world.UserCfg{{Names: []string{"alice", "alice@alt"}, Password: "pa"}, {Names: []string{"bob"}, Password: "pb"}},
		JailTime: jail,
	}
	return RunInBubble("C18", sc, keepLog, cfg, func(e *Env) {
		users := []*c18User{
			{names: []string{"alice", "alice@alt"}, pass: "pa", boxes: map[string][]int{"INBOX": nil}},
			{names: []string{"bob"}, pass: "pb", boxes: map[string][]int{"INBOX": nil}},
		}
		owner := map[int]int{} // marker -> user
		failures := 0          // consecutive failed logins (server wide)
		login := func(s *world.Sess, ui int) bool {
			if failures >= 3 {
				// the server is in its login jail: wait it out (this login is a harness read)
				e.W.Advance(jail + time.Second)
				failures = 0
			}
			r := s.Cmd("LOGIN %s %s", users[ui].names[0], users[ui].pass)
			if r.OK() {
				failures = 0
			}
			return r.OK()
		}
		appendMsg := func(s *world.Sess, ui int, box string) bool {
			g := e.NewMessage(len(owner), gen.Opts{})
			r := s.Do(wire.WithLiteral(fmt.Sprintf("APPEND %s ", Quote(box)), g.Bytes, ""))
			if r.OK() {
				owner[g.Marker] = ui
				users[ui].boxes[box] = append(users[ui].boxes[box], g.Marker)
			}
			return r.OK()
		}
		// ---- setup: private mailboxes and messages for each user ----
		for ui, u := range users {
			s, err := e.W.Connect()
			if err != nil {
				e.Infra = err
				return
			}
			if !login(s, ui) {
				e.Infra = fmt.Errorf("setup login failed")
				return
			}
			priv := fmt.Sprintf("%c-box", 'a'+ui)
			if !s.Cmd("CREATE %s", priv).OK() {
				e.Infra = fmt.Errorf("setup create failed")
				return
			}
			u.boxes[priv] = nil
			for k := 0; k < 2; k++ {
				appendMsg(s, ui, "INBOX")
				appendMsg(s, ui, priv)
			}
			s.Cmd("LOGOUT")
			s.C.Dead = true
		}
		var sess []*c18Sess
		for i := 0; i < 3; i++ {
			s, err := e.W.Connect()
			if err != nil {
				e.Infra = err
				return
			}
			sess = append(sess, &c18Sess{s: s, user: -1})
		}
		// snapshot of everything, for "refused commands change nothing"
		verifyAll := func(oracle string) {
			for ui, u := range users {
				s, err := e.W.Connect()
				if err != nil {
					e.Infra = err
					return
				}
				if !login(s, ui) {
					e.Fail(oracle, "LOGIN of %s with the right password answered NO", u.names[0])
					return
				}
				got := listNames(s)
				var want []string
				for n := range u.boxes {
					want = append(want, n)
				}
				sort.Strings(want)
				if !sameNames(got, want) {
					e.Fail(oracle, "user %s has mailboxes %v, expected %v", u.names[0], got, want)
					return
				}
				for _, name := range want {
					rows, _, _, err := e.readMailbox(s, name, false)
					if err != nil {
						e.Fail(oracle, "user %s mailbox %q: %v", u.names[0], name, err)
						return
					}
					e.St.Checks++
					var gotM []int
					for _, r := range rows {
						gotM = append(gotM, r.Marker)
						if owner[r.Marker] != ui {
							e.Fail("isolation", "mailbox %q of user %s holds message <%d> of another user", name, u.names[0], r.Marker)
							return
						}
					}
					if fmt.Sprint(gotM) != fmt.Sprint(append([]int(nil), u.boxes[name]...)) {
						e.Fail(oracle, "user %s mailbox %q holds %v, expected %v", u.names[0], name, gotM, u.boxes[name])
						return
					}
				}
				s.Cmd("LOGOUT")
				s.C.Dead = true
			}
		}
		// everything a session sees must belong to its user
		watch := func(cs *c18Sess, r *wire.Result) {
			if cs.user < 0 {
				for _, l := range r.Lines {
					kw := l.Keyword()
					if kw == "LIST" || kw == "LSUB" || kw == "STATUS" || kw == "SEARCH" {
						e.Fail("gating", "an unauthenticated session received %s data", kw)
					}
					if _, k, ok := l.Num(); ok && (k == "FETCH" || k == "EXISTS") {
						e.Fail("gating", "an unauthenticated session received %s data", k)
					}
				}
				return
			}
			u := users[cs.user]
			for _, l := range r.Lines {
				switch l.Keyword() {
				case "LIST", "LSUB":
					if len(l.Nodes) >= 4 {
						if _, ok := u.boxes[l.Nodes[3].Str]; !ok && l.Nodes[3].Str != recoveryName {
							e.Fail("isolation", "session of %s was shown mailbox %q which is not theirs", u.names[0], l.Nodes[3].Str)
						}
					}
				}
				if _, k, ok := l.Num(); ok && k == "FETCH" {
					if fd, err := wire.ParseFetch(l); err == nil {
						for name, n := range fd.Items {
							if strings.HasPrefix(name, "BODY[") {
								if mk := gen.MarkerOf([]byte(n.Str)); mk >= 0 && owner[mk] != cs.user {
									e.Fail("isolation", "session of %s fetched message <%d> of another user", u.names[0], mk)
								}
							}
						}
					}
				}
			}
		}
		anyState := map[string]bool{"CAPABILITY": true, "NOOP": true, "ID": true, "LOGOUT": true}
		selectedOnly := map[string]bool{"CHECK": true, "CLOSE": true, "UNSELECT": true, "EXPUNGE": true, "SEARCH": true, "FETCH": true, "STORE": true, "COPY": true, "MOVE": true, "UID FETCH": true, "UID STORE": true, "UID SEARCH": true, "UID COPY": true}
		mutating := map[string]bool{"CREATE": true, "DELETE": true, "RENAME": true, "APPEND": true, "STORE": true, "COPY": true, "MOVE": true, "EXPUNGE": true, "UID STORE": true, "UID COPY": true, "SUBSCRIBE": true, "CLOSE": true}
		cmds := []string{"CAPABILITY", "NOOP", "ID", "LOGIN", "LOGIN", "LOGIN", "SELECT", "EXAMINE", "CREATE", "DELETE", "RENAME", "SUBSCRIBE", "LIST", "LSUB", "STATUS", "APPEND", "CHECK", "CLOSE", "UNSELECT", "EXPUNGE", "SEARCH", "FETCH", "STORE", "COPY", "MOVE", "UID FETCH", "UID STORE", "UID SEARCH", "UID COPY", "SELECT", "FETCH", "LIST"}
		refused, jailed := 0, 0
		for i, a := range sc.Actions {
			e.Step = i + 1
			cs := sess[abs(a.S)%len(sess)]
			if cs.s.C.Dead || cs.s.C.Conn.ServerClosed() || a.K == "reconnect" {
				if !cs.s.C.Dead {
					cs.s.C.Conn.ClientCloseWrite()
					cs.s.C.Dead = true
					e.W.Quiesce()
				}
				ns, err := e.W.Connect()
				if err != nil {
					e.Infra = err
					return
				}
				*cs = c18Sess{s: ns, user: -1}
				if a.K == "reconnect" {
					continue
				}
			}
			s := cs.s
			if a.K == "jail" {
				if cs.user >= 0 {
					continue // LOGIN in an authenticated session never reaches the jail
				}
				// (a held attempt with a wrong password is followed at once by a second round in
				// half of the cases: the count of failures must have started again, so two more
				// failures arm the jail again)
				if abs(a.Arg(2))%3 == 1 && failures <= 2 {
					// two failures, then TWO attempts at the same moment (this session and a new
					// one): in whatever order the server takes them, one is the third failure
					// and the other comes after three consecutive failures - it waits
					for failures < 2 {
						if r := s.Cmd("LOGIN alice wrong%d", failures); r.OK() {
							e.Fail("credentials", "LOGIN with a wrong password answered OK")
							return
						}
						failures++
					}
					s2, err := e.W.Connect()
					if err != nil {
						e.Infra = err
						return
					}
					pair := []*world.Sess{s, s2}
					tags := []string{s.C.NextTag(), s2.C.NextTag()}
					done := []string{"", ""}
					start := time.Now()
					for j, ps := range pair {
						ps.W.Sim.SetLabel(ps.Label)
						ps.C.Conn.ClientSend([]byte(fmt.Sprintf("%s LOGIN alice both-wrong%d\r\n", tags[j], j)))
					}
					e.W.Quiesce()
					answeredN := func() int {
						n := 0
						for j, ps := range pair {
							lines, _ := ps.Poll()
							for _, l := range lines {
								if l.Tag == tags[j] {
									done[j] = l.Status
								}
							}
							if done[j] != "" {
								n++
							}
						}
						return n
					}
					if answeredN() == 2 {
						e.FailSig("jail", "simultaneous logins both answered at once", "after two consecutive failed logins two more LOGINs with wrong passwords, sent at the same moment on two connections, were both answered at once (%s, %s): one of them came after three consecutive failures and had to wait out the jail time %v", done[0], done[1], jail)
						return
					}
					e.W.Advance(jail - 10*time.Millisecond)
					if answeredN() == 2 {
						e.Fail("jail", "of two simultaneous LOGINs after two failures both were answered %v after they were sent, before the jail time %v had passed", time.Since(start), jail)
						return
					}
					e.W.Advance(time.Second + 20*time.Millisecond)
					if answeredN() != 2 {
						e.W.Advance(jail + time.Second)
					}
					if answeredN() != 2 {
						e.Fail("jail", "of two simultaneous LOGINs after two failures only %d were answered after the jail time %v had passed", answeredN(), jail)
						return
					}
					if done[0] == "OK" || done[1] == "OK" {
						e.Fail("credentials", "LOGIN with a wrong password answered OK")
						return
					}
					jailed++
					e.St.Probes["jail_entered_by_simultaneous_logins"]++
					e.St.Faults["clock_advance"] += 2
					failures = 1
					s2.Cmd("LOGOUT")
					s2.C.Dead = true
					e.Tr.Event("jail-pair", done[0], done[1])
					continue
				}
				rounds := 1
				if abs(a.Arg(3))%2 == 1 && abs(a.Arg(4))%2 == 1 {
					rounds = 2
				}
				var status string
				for round := 0; round < rounds; round++ {
					// three consecutive failures, then the next attempt must wait out the jail
					for failures < 3 {
						r := s.Cmd("LOGIN alice wrong%d", failures)
						if r.OK() {
							e.Fail("credentials", "LOGIN with a wrong password answered OK")
							return
						}
						failures++
					}
					tag := s.C.NextTag()
					start := time.Now()
					s.W.Sim.SetLabel(s.Label)
					// the attempt that is held back has the right or a wrong password: after a
					// wrong one the count of consecutive failures starts again at one
					heldPass := "pa"
					if abs(a.Arg(3))%2 == 1 {
						heldPass = "wrong-again"
					}
					s.C.Conn.ClientSend([]byte(fmt.Sprintf("%s LOGIN alice %s\r\n", tag, heldPass)))
					e.W.Quiesce()
					answered := func() (bool, string) {
						lines, _ := s.Poll()
						for _, l := range lines {
							if l.Tag == tag {
								return true, l.Status
							}
						}
						return false, ""
					}
					if ok, st := answered(); ok {
						e.Fail("jail", "after three consecutive failed logins the next LOGIN was answered (%s) at once, %v before the jail time %v had passed", st, jail-time.Since(start), jail)
						return
					}
					e.W.Advance(jail - 10*time.Millisecond)
					if ok, st := answered(); ok {
						e.Fail("jail", "the LOGIN after three failures was answered (%s) %v after it was sent, before the jail time %v had passed", st, time.Since(start), jail)
						return
					}
					e.W.Advance(20 * time.Millisecond)
					ok, st2 := answered()
					status = st2
					if !ok {
						e.W.Advance(time.Second)
						ok, status = answered()
					}
					if !ok {
						e.Fail("jail", "the LOGIN held in the login jail was not answered after the jail time %v had passed", jail)
						return
					}
					jailed++
					e.St.Probes["jail_entered"]++
					e.St.Faults["clock_advance"] += 2
					failures = 0
					if status == "OK" {
						cs.user = 0
					} else if heldPass != "pa" {
						failures = 1
						e.St.Probes["jail_left_by_failed_login"]++
					}
					if (status == "OK") != (heldPass == "pa") {
						e.Fail("credentials", "LOGIN alice %s after the jail answered %s", heldPass, status)
						return
					}
				}
				e.Tr.Event("jail", status)
				continue
			}
			name := cmds[abs(a.Arg(0))%len(cmds)]
			// target mailbox: own private, other user's private, INBOX, or a new name
			me := cs.user
			if me < 0 {
				me = abs(a.Arg(1)) % 2
			}
			own := fmt.Sprintf("%c-box", 'a'+me)
			foreign := fmt.Sprintf("%c-box", 'a'+1-me)
			target := []string{own, foreign, "INBOX", own}[abs(a.Arg(2))%4]
			var r *wire.Result
			allowed := false
			inState := anyState[name] || (cs.user >= 0 && (!selectedOnly[name] || cs.sel != ""))
			switch name {
			case "LOGIN":
				variant := abs(a.Arg(1)) % 7
				var uname, pw string
				good := -1
				switch variant {
				case 0:
					uname, pw, good = "alice", "pa", 0
				case 1:
					uname, pw, good = "bob", "pb", 1
				case 2:
					uname, pw, good = "alice@alt", "pa", 0
				case 3:
					uname, pw = "alice", "pb" // the other user's password
				case 4:
					uname, pw = "mallory", "pa"
				case 5:
					uname, pw = "bob", "wrong"
				case 6:
					uname, pw = "ALICE", "pa" // user names are not case-folded by the connector
				}
				if cs.user < 0 && failures >= 3 {
					continue // would enter the jail: only done by the jail action
				}
				r = s.Cmd("LOGIN %s %s", uname, pw)
				if cs.user >= 0 {
					if r.OK() {
						e.Fail("gating", "LOGIN in an already authenticated session answered OK")
					}
					break
				}
				if r.OK() {
					if good < 0 {
						e.Fail("credentials", "LOGIN %s with password %q answered OK", uname, pw)
						return
					}
					cs.user = good
					failures = 0
				} else {
					if good >= 0 {
						e.Fail("credentials", "LOGIN %s with the right password answered %s %s", uname, r.Status, r.Text)
						return
					}
					failures++
				}
				e.Tr.Event("login", variant, r.Status)
				continue
			case "CAPABILITY", "NOOP":
				r, allowed = s.Cmd("%s", name), true
			case "ID":
				r, allowed = s.Cmd(`ID ("name" "sim")`), true
			case "SELECT", "EXAMINE":
				s.M.Reset(target, name == "EXAMINE")
				r = s.Cmd("%s %s", name, Quote(target))
				allowed = cs.user >= 0 && target != foreign
				if r.OK() {
					cs.sel, cs.ro = target, name == "EXAMINE"
				} else {
					s.M.Unselect()
					if cs.user >= 0 {
						s.W.Sim.SetLabel(s.Label)
						s.C.Do(wire.Simple("UNSELECT"))
					}
					cs.sel = ""
				}
			case "CREATE":
				nn := fmt.Sprintf("%c-new%d", 'a'+me, a.Arg(3)%3)
				r = s.Cmd("CREATE %s", nn)
				_, exists := users[me].boxes[nn]
				allowed = cs.user >= 0 && !exists
				if r.OK() && cs.user >= 0 {
					users[cs.user].boxes[nn] = nil
				}
			case "DELETE":
				r = s.Cmd("DELETE %s", Quote(foreign)) // never one's own: keeps the model simple
			case "RENAME":
				r = s.Cmd("RENAME %s %s", Quote(foreign), Quote("stolen"))
			case "SUBSCRIBE":
				r = s.Cmd("SUBSCRIBE %s", Quote(foreign))
			case "LIST", "LSUB":
				r, allowed = s.Cmd(`%s "" "*"`, name), cs.user >= 0
			case "STATUS":
				r, allowed = s.Cmd("STATUS %s (MESSAGES UIDNEXT)", Quote(target)), cs.user >= 0 && target != foreign
			case "APPEND":
				g := e.NewMessage(a.Arg(3), gen.Opts{})
				r = s.Do(wire.WithLiteral(fmt.Sprintf("APPEND %s ", Quote(target)), g.Bytes, ""))
				allowed = cs.user >= 0 && target != foreign
				if r.OK() && cs.user >= 0 {
					owner[g.Marker] = cs.user
					users[cs.user].boxes[target] = append(users[cs.user].boxes[target], g.Marker)
				}
			case "CHECK", "UNSELECT", "CLOSE":
				r, allowed = s.Cmd("%s", name), cs.sel != ""
				if r.OK() && name != "CHECK" {
					cs.sel = ""
					s.M.Unselect()
				}
			case "EXPUNGE":
				r, allowed = s.Cmd("EXPUNGE"), cs.sel != "" && !cs.ro
			case "SEARCH", "UID SEARCH":
				r, allowed = s.Cmd("%s ALL", name), cs.sel != ""
			case "FETCH", "UID FETCH":
				r = s.Cmd("%s 1:* (UID FLAGS BODY.PEEK[HEADER.FIELDS (X-Sim-Marker)])", name)
				allowed = cs.sel != "" && s.M.Count() > 0
			case "STORE", "UID STORE":
				r = s.Cmd("%s 1 +FLAGS (\\Seen)", name)
				allowed = cs.sel != "" && !cs.ro && s.M.Count() > 0 && name == "STORE"
			case "COPY", "UID COPY", "MOVE":
				// into the other user's mailbox name: must never work
				r = s.Cmd("%s 1 %s", name, Quote(foreign))
			}
			if r == nil {
				continue
			}
			e.Tr.Event("cmd", name, cs.user, cs.sel != "", r.Status)
			watch(cs, r)
			for _, v := range s.Viol {
				e.Fail("stream", "%s", v)
			}
			e.CheckPanics()
			if e.Failed() {
				return
			}
			if name == "LOGOUT" {
				continue
			}
			if !inState {
				refused++
				if r.OK() {
					state := "not authenticated"
					if cs.user >= 0 {
						state = "authenticated without a selected mailbox"
					}
					e.Fail("gating", "%s answered OK in a session that is %s", name, state)
					return
				}
				if mutating[name] {
					verifyAll("refused-no-effect")
				}
			} else if allowed && !r.OK() {
				e.Fail("admitted", "%s answered %s %s in a state that admits it (user=%d selected=%q)", name, r.Status, r.Text, cs.user, cs.sel)
				return
			} else if !allowed && r.OK() && (name == "COPY" || name == "UID COPY" || name == "MOVE" || name == "DELETE" || name == "RENAME" || name == "SUBSCRIBE" || ((name == "SELECT" || name == "EXAMINE" || name == "STATUS" || name == "APPEND") && target == foreign)) {
				e.Fail("isolation", "%s naming the other user's mailbox %q answered OK", name, foreign)
				return
			}
			if e.Failed() {
				return
			}
		}
		e.Step = len(sc.Actions) + 1
		verifyAll("final")
		e.St.Nontrivial = refused >= 3
		e.St.Probes["refused_out_of_state"] += refused
		e.St.Probes["jail_waits"] += jailed
	})
}
