package props

import (
	"fmt"
	"os"
	"strings"
	"time"

	"github.com/ProtonMail/gluon/imap"

	"verifharness/core"
	"verifharness/gen"
	"verifharness/model"
	"verifharness/simconn"
	"verifharness/wire"
	"verifharness/world"
)

// Gated extends the mail workload with the macro actions of scheduling mode M:
// tape-chosen delivery of queued state updates, IDLE, connector updates and clock
// advances.  It keeps no reference model: its oracles compare what a session was told
// with what the server then answers.
type Gated struct {
	*Mail
	RemoteMsgs []imap.MessageID // message IDs the remote knows, in creation order
	BoxRemote  map[string]imap.MailboxID
	everIn     map[imap.MailboxID]map[imap.MessageID]bool // message was in the mailbox at some time
	nowIn      map[imap.MailboxID]map[imap.MessageID]bool
	// OnCmd is called after every client command with the mirror as it stood before.
	OnCmd func(si int, kind string, before []wire.Entry, r *wire.Result)
	// PipeAfterDone (C05): in some cases the client sends the next FETCH in the same write as
	// DONE, as a client does that does not wait for the completion of IDLE.
	PipeAfterDone bool
	batchOut      map[string]bool // removed from a mailbox by the calls of the command being folded in
}

func NewGated(e *Env, nsess, nbox int) *Gated {
	g := &Gated{Mail: NewMail(e, nsess, nbox, false), BoxRemote: map[string]imap.MailboxID{}}
	g.refreshRemote()
	return g
}

// refreshRemote folds the connector's call log into the registries.
func (g *Gated) refreshRemote() {
	c := g.E.W.Users[0].Conn
	// one command's calls: the server re-adds a message to a mailbox holding it by removing
	// and adding it in one go
	g.batchOut = map[string]bool{}
	defer func() { g.batchOut = nil }()
	for _, call := range c.TakeCalls() {
		if call.Err != nil {
			continue
		}
		if call.Kind == simconn.KAddLabel || call.Kind == simconn.KRemoveLabel || call.Kind == simconn.KMove {
			g.E.Tr.Event("remote", call.Kind, call.Mailbox, call.To, fmt.Sprint(call.Msgs))
			if os.Getenv("VERIF_DEBUG_REMOTE") != "" {
				fmt.Fprintln(os.Stderr, "REMOTE", call.Kind, call.Mailbox, call.To, call.Msgs, call.Bool)
			}
		}
		switch call.Kind {
		case simconn.KAddLabel:
			for _, id := range call.Msgs {
				g.noteIn(call.Mailbox, id)
			}
		case simconn.KRemoveLabel:
			for _, id := range call.Msgs {
				g.noteOut(call.Mailbox, id)
			}
		case simconn.KMove:
			for _, id := range call.Msgs {
				if call.Bool {
					g.noteOut(call.Mailbox, id)
				}
				g.noteIn(call.To, id)
			}
		}
		switch call.Kind {
		case simconn.KCreateMessage:
			if call.NewID != "" && !call.Bool {
				g.RemoteMsgs = append(g.RemoteMsgs, imap.MessageID(call.NewID))
			}
			if call.NewID != "" {
				g.noteIn(call.Mailbox, imap.MessageID(call.NewID))
			}
		case simconn.KCreateMailbox:
			g.BoxRemote[strings.Join(call.Name, g.E.W.Cfg.Delimiter)] = imap.MailboxID(call.NewID)
		}
	}
	for id, name := range c.MboxNames {
		n := strings.Join(name, g.E.W.Cfg.Delimiter)
		if _, ok := g.BoxRemote[n]; !ok {
			g.BoxRemote[n] = id
		}
	}
}

// noteIn / noteOut track mailbox membership as the remote sees it; a message entering a
// mailbox it has been in before is the history behind finding F07b.
func (g *Gated) noteIn(box imap.MailboxID, id imap.MessageID) {
	if g.everIn == nil {
		g.everIn, g.nowIn = map[imap.MailboxID]map[imap.MessageID]bool{}, map[imap.MailboxID]map[imap.MessageID]bool{}
	}
	if g.everIn[box] == nil {
		g.everIn[box], g.nowIn[box] = map[imap.MessageID]bool{}, map[imap.MessageID]bool{}
	}
	if g.nowIn[box][id] || g.batchOut[string(box)+"|"+string(id)] {
		// added to a mailbox that holds it already (COPY/MOVE onto a mailbox with a copy,
		// same-mailbox COPY): the history behind finding F08
		g.E.Attr("message_added_to_mailbox_holding_it")
		g.E.St.Probes["message_added_to_mailbox_holding_it"]++
	} else if g.everIn[box][id] {
		g.E.Attr("message_put_back")
		g.E.St.Probes["message_put_back"]++
	}
	g.everIn[box][id] = true
	g.nowIn[box][id] = true
}

func (g *Gated) noteOut(box imap.MailboxID, id imap.MessageID) {
	if g.batchOut != nil {
		g.batchOut[string(box)+"|"+string(id)] = true
	}
	if g.nowIn != nil && g.nowIn[box] != nil {
		delete(g.nowIn[box], id)
	}
}

func copyEntries(es []wire.Entry) []wire.Entry {
	out := make([]wire.Entry, len(es))
	copy(out, es)
	return out
}

// ExecG performs one action of the gated vocabulary (falls back to Mail.Exec).
func (g *Gated) ExecG(a core.Action) bool {
	e := g.E
	si, s := g.sess(a)
	switch a.K {
	case "deliver":
		if s.C.Dead {
			return false
		}
		k := 1 + abs(a.Arg(0))%3
		if a.Arg(0)%5 == 4 {
			k = -1
		}
		n := s.ReleaseUpdates(k)
		e.Tr.Event("deliver", si, n)
		if n > 0 {
			e.St.Faults["update_delay"] += n
		}
		g.pollIdle(si)
		return n > 0
	case "deliverall":
		n := e.W.ReleaseAll()
		e.Tr.Event("deliverall", n)
		for i := range g.Sess {
			g.pollIdle(i)
		}
		return n > 0
	case "advance":
		d := time.Duration(1+abs(a.Arg(0))%1500) * time.Millisecond
		e.W.Advance(d)
		e.Tr.Event("advance", d)
		e.St.Faults["clock_advance"]++
		for i := range g.Sess {
			g.pollIdle(i)
		}
		return true
	case "idle":
		if s.C.Dead || s.InIdle || g.Sel[si] < 0 {
			return false
		}
		before := copyEntries(s.M.Msgs)
		tag := s.C.NextTag()
		s.W.Sim.SetLabel(s.Label)
		s.C.Conn.ClientSend([]byte(tag + " IDLE\r\n"))
		e.W.Quiesce()
		lines, err := s.Poll()
		if err != nil {
			e.Fail("protocol", "IDLE: %v", err)
			return true
		}
		gotPlus := false
		for _, l := range lines {
			if l.Tag == "+" {
				gotPlus = true
			}
		}
		if !gotPlus {
			e.Fail("protocol", "IDLE was not answered with a continuation request")
			return true
		}
		s.InIdle, s.IdleTag = true, tag
		e.Tr.Event("idle", si)
		e.St.Probes["idle_entered"]++
		if g.OnCmd != nil {
			g.OnCmd(si, "idle", before, &wire.Result{Lines: lines, Status: "OK"})
		}
		g.streamViol(s)
		return true
	case "done":
		if !s.InIdle {
			return false
		}
		if g.PipeAfterDone && a.Arg(0)%2 == 1 && s.M.Count() > 0 && !s.C.Dead {
			g.endIdlePipelined(si)
			return true
		}
		g.endIdle(si)
		return true
	case "conn.new":
		box := g.box(a.Arg(0))
		rid, ok := g.BoxRemote[box]
		if !ok {
			return false
		}
		u := e.W.Users[0]
		msg := e.NewMessage(a.Arg(1), gen.Opts{})
		id := u.Conn.NewMessageID()
		flags := imap.NewFlagSet(FlagsFromMask(a.Arg(2)&0x0f, 0)...)
		u.Conn.RememberLiteral(id, msg.Bytes, flags, world.SimStart)
		parsed, err := imap.NewParsedMessage(msg.Bytes)
		if err != nil {
			e.Infra = fmt.Errorf("generator message does not parse: %w", err)
			return true
		}
		upd := imap.NewMessagesCreated(false, &imap.MessageCreated{
			Message:       imap.Message{ID: id, Flags: flags, Date: world.SimStart},
			Literal:       msg.Bytes,
			MailboxIDs:    []imap.MailboxID{rid},
			ParsedMessage: parsed,
		})
		r := e.W.Submit(u, upd)
		e.Tr.Event("conn.new", box, msg.Marker, r.Done, r.Err != nil)
		if r.Done && r.Err == nil {
			g.RemoteMsgs = append(g.RemoteMsgs, id)
			g.noteIn(rid, id)
		}
		g.afterConn(r, "MessagesCreated")
		return true
	case "conn.flags":
		if len(g.RemoteMsgs) == 0 {
			return false
		}
		id := g.RemoteMsgs[abs(a.Arg(0))%len(g.RemoteMsgs)]
		flags := imap.NewFlagSet(FlagsFromMask(a.Arg(1)&0x6f, 0)...) // never \Deleted
		r := e.W.Submit(e.W.Users[0], imap.NewMessageFlagsUpdated(id, flags))
		e.Tr.Event("conn.flags", id, flags.ToSlice(), r.Done, r.Err != nil)
		g.afterConn(r, "MessageFlagsUpdated")
		return true
	case "conn.boxes":
		if len(g.RemoteMsgs) == 0 {
			return false
		}
		id := g.RemoteMsgs[abs(a.Arg(0))%len(g.RemoteMsgs)]
		var boxes []imap.MailboxID
		for i, name := range g.Boxes {
			if a.Arg(1)&(1<<i) != 0 {
				if rid, ok := g.BoxRemote[name]; ok {
					boxes = append(boxes, rid)
				}
			}
		}
		if e.Sc.C("readd") == 0 && e.Sc.C("multibox") == 0 && len(boxes) > 1 {
			boxes = boxes[:1]
		}
		flags := imap.NewFlagSet(FlagsFromMask(a.Arg(2)&0x6f, 0)...)
		r := e.W.Submit(e.W.Users[0], imap.NewMessageMailboxesUpdated(id, boxes, flags))
		e.Tr.Event("conn.boxes", id, boxes, r.Done, r.Err != nil)
		if r.Done && r.Err == nil {
			want := map[imap.MailboxID]bool{}
			for _, b := range boxes {
				want[b] = true
			}
			for _, rid := range g.BoxRemote {
				if want[rid] {
					if g.nowIn == nil || g.nowIn[rid] == nil || !g.nowIn[rid][id] {
						g.noteIn(rid, id)
					}
				} else {
					g.noteOut(rid, id)
				}
			}
		}
		g.afterConn(r, "MessageMailboxesUpdated")
		return true
	case "conn.flap":
		// the remote takes a message out of a mailbox and puts it back, once or twice, with
		// nothing in between (optionally a message it has only just created there): the
		// sessions looking at that mailbox find add / remove / add of one message queued
		box := g.box(a.Arg(1))
		rid, ok := g.BoxRemote[box]
		other, ok2 := g.BoxRemote[g.box(a.Arg(1)+1)]
		if !ok || !ok2 || rid == other {
			return false
		}
		u := e.W.Users[0]
		var id imap.MessageID
		flags := imap.NewFlagSet()
		if a.Arg(3)%2 == 1 || len(g.RemoteMsgs) == 0 {
			msg := e.NewMessage(a.Arg(0), gen.Opts{})
			id = u.Conn.NewMessageID()
			u.Conn.RememberLiteral(id, msg.Bytes, flags, world.SimStart)
			parsed, err := imap.NewParsedMessage(msg.Bytes)
			if err != nil {
				e.Infra = fmt.Errorf("generator message does not parse: %w", err)
				return true
			}
			r := e.W.Submit(u, imap.NewMessagesCreated(false, &imap.MessageCreated{Message: imap.Message{ID: id, Flags: flags, Date: world.SimStart}, Literal: msg.Bytes, MailboxIDs: []imap.MailboxID{rid}, ParsedMessage: parsed}))
			g.afterConn(r, "MessagesCreated")
			if !r.Done || r.Err != nil || e.Failed() {
				return true
			}
			g.RemoteMsgs = append(g.RemoteMsgs, id)
			g.noteIn(rid, id)
		} else {
			id = g.RemoteMsgs[abs(a.Arg(0))%len(g.RemoteMsgs)]
		}
		for k := 0; k < 1+abs(a.Arg(2))%2 && !e.Failed(); k++ {
			for _, dst := range []imap.MailboxID{other, rid} {
				r := e.W.Submit(u, imap.NewMessageMailboxesUpdated(id, []imap.MailboxID{dst}, flags))
				e.Tr.Event("conn.flap", id, dst, r.Done, r.Err != nil)
				if r.Done && r.Err == nil {
					for _, b := range g.BoxRemote {
						if b == dst {
							if g.nowIn == nil || g.nowIn[b] == nil || !g.nowIn[b][id] {
								g.noteIn(b, id)
							}
						} else {
							g.noteOut(b, id)
						}
					}
				}
				g.afterConn(r, "MessageMailboxesUpdated")
			}
		}
		e.St.Probes["conn_flap"]++
		return true
	case "conn.del":
		if len(g.RemoteMsgs) == 0 {
			return false
		}
		i := abs(a.Arg(0)) % len(g.RemoteMsgs)
		id := g.RemoteMsgs[i]
		r := e.W.Submit(e.W.Users[0], imap.NewMessagesDeleted(id))
		e.Tr.Event("conn.del", id, r.Done, r.Err != nil)
		if r.Done && r.Err == nil {
			g.RemoteMsgs = append(g.RemoteMsgs[:i], g.RemoteMsgs[i+1:]...)
		}
		g.afterConn(r, "MessageDeleted")
		return true
	case "search":
		if s.C.Dead || s.InIdle || g.Sel[si] < 0 {
			return false
		}
		before := copyEntries(s.M.Msgs)
		q := []string{"SEARCH ALL", "UID SEARCH ALL", "SEARCH SEEN", "SEARCH 1:* UNDELETED"}[abs(a.Arg(0))%4]
		r := s.Cmd("%s", q)
		e.Tr.Event("search", si, r.Status)
		g.after(si, "search", before, r)
		return true
	}
	if s.C.Dead || s.InIdle {
		return false
	}
	a = g.tameGated(si, a)
	before := copyEntries(s.M.Msgs)
	var last *wire.Result
	kind := a.K
	// run through Mail.Exec but capture the result via a one-shot hook
	g.Mail.hook = func(r *wire.Result) { last = r }
	ok := g.Mail.Exec(a)
	g.Mail.hook = nil
	g.refreshRemote()
	if ok && last != nil {
		g.after(si, kind, before, last)
	}
	return ok
}

// tameGated keeps two separately reported defects from masking everything else unless
// the run enables them: (overtake) a session adding a message to its own selected mailbox
// while an older foreign EXISTS is still waiting at its gate, and (selfcopy) COPY/MOVE
// whose destination is the mailbox the acting session has selected.
func (g *Gated) tameGated(si int, a core.Action) core.Action {
	sc := g.E.Sc
	sel := g.Sel[si]
	if a.K == "select" && sc.C("preselect") == 0 {
		// finding F09: updates queued before SELECT and applied to the later snapshot
		g.Sess[si].ReleaseUpdates(-1)
	}
	if sel < 0 {
		return a
	}
	b := a
	b.A = append([]int(nil), a.A...)
	for len(b.A) < 8 {
		b.A = append(b.A, 0)
	}
	if sc.C("readd") == 0 && sc.C("multibox") == 0 && a.K == "copy" {
		// keep every message in at most one mailbox (see DESIGN: finding F08)
		b.K = "move"
	}
	switch b.K {
	case "copy", "move":
		if abs(b.A[3])%len(g.Boxes) == sel && sc.C("selfcopy") == 0 {
			b.A[3] = sel + 1
		}
	}
	mutates := false
	switch b.K {
	case "append":
		mutates = abs(b.A[0])%len(g.Boxes) == sel
	case "store", "copy", "move", "expunge", "uidexpunge", "close", "store-recent":
		mutates = true
	case "fetch":
		mutates = b.A[3]%2 == 1 // BODY[] sets \Seen
	}
	if mutates && sc.C("overtake") == 0 {
		// finding F07: a session's own change overtaking older updates still queued for it
		if n := g.Sess[si].ReleaseUpdates(-1); n > 0 {
			g.E.Tr.Event("deliver-before-own-change", si, n)
		}
	}
	return b
}

func (g *Gated) after(si int, kind string, before []wire.Entry, r *wire.Result) {
	s := g.Sess[si]
	if r.Bye || r.Closed {
		// the server ended the session (e.g. its mailbox was deleted): legal end
		s.C.Dead = true
		g.Sel[si] = -1
	}
	g.streamViol(s)
	if g.OnCmd != nil && !g.E.Failed() {
		g.OnCmd(si, kind, before, r)
	}
	g.learnUIDs(si)
}

// learnUIDs is client behaviour: after new messages were announced the client asks for
// their UIDs (runs with cfg lazyuid=1 do not).
func (g *Gated) learnUIDs(si int) {
	s := g.Sess[si]
	if g.E.Sc.C("lazyuid") == 1 || s.C.Dead || s.InIdle || g.Sel[si] < 0 || g.E.Failed() {
		return
	}
	lo, hi := 0, 0
	for i, m := range s.M.Msgs {
		if m.UID == 0 {
			if lo == 0 {
				lo = i + 1
			}
			hi = i + 1
		}
	}
	if lo == 0 {
		return
	}
	r := s.Cmd("FETCH %d:%d (UID)", lo, hi)
	g.E.Tr.Event("learn-uids", si, lo, hi, r.Status)
	if r.Bye || r.Closed {
		s.C.Dead = true
		g.Sel[si] = -1
	}
	g.streamViol(s)
}

func (g *Gated) streamViol(s *world.Sess) {
	for _, v := range s.Viol {
		g.E.Fail("stream", "%s: %s", s.Label, v)
	}
}

func (g *Gated) afterConn(r world.UpdRes, what string) {
	if r.Delivered && !r.Done {
		g.E.Fail("update-ack", "connector update %s was taken by the server but never acknowledged", what)
	}
}

// pollIdle collects what an idling session was pushed.
func (g *Gated) pollIdle(si int) {
	s := g.Sess[si]
	if !s.InIdle || s.C.Dead {
		return
	}
	before := copyEntries(s.M.Msgs)
	lines, err := s.Poll()
	if err != nil {
		g.E.Fail("protocol", "IDLE output: %v", err)
		return
	}
	if len(lines) > 0 {
		g.E.St.Probes["idle_pushes"] += len(lines)
		g.after(si, "idle-push", before, &wire.Result{Lines: lines, Status: "OK"})
	}
}

func (g *Gated) endIdle(si int) {
	s := g.Sess[si]
	before := copyEntries(s.M.Msgs)
	s.W.Sim.SetLabel(s.Label)
	s.C.Conn.ClientSend([]byte("DONE\r\n"))
	g.E.W.Quiesce()
	lines, err := s.Poll()
	s.InIdle = false
	if err != nil {
		g.E.Fail("protocol", "DONE: %v", err)
		return
	}
	res := &wire.Result{Tag: s.IdleTag}
	completed := false
	for _, l := range lines {
		if l.Tag == s.IdleTag {
			res.Status, res.Code, res.Text = l.Status, l.Code, l.Text
			completed = true
		} else {
			if n, kw, ok := l.Num(); ok && kw == "EXPUNGE" && completed && g.PipeAfterDone {
				// (C05) the client has sent nothing after DONE: this removal is announced by no
				// command at all, and it will land in whatever the client sends next
				g.E.FailSig("expunge-in-forbidding", "after the completion of idle", "%s received \"* %d EXPUNGE\" after the tagged completion of IDLE, with no command in progress", s.Label, n)
				return
			}
			res.Lines = append(res.Lines, l)
		}
	}
	g.E.Tr.Event("done", si, res.Status)
	if res.Status == "" && !s.C.Conn.ServerClosed() {
		g.E.Fail("protocol", "DONE was not answered with the IDLE completion")
		return
	}
	g.after(si, "done", before, res)
}

// endIdlePipelined leaves IDLE with "DONE" and a FETCH in one write.  Whatever the server
// still has to announce from the time of the IDLE must not reach the client as an EXPUNGE
// between the completion of IDLE and the completion of the FETCH: the client sent the FETCH
// with the sequence numbers it knew.
func (g *Gated) endIdlePipelined(si int) {
	s := g.Sess[si]
	e := g.E
	before := copyEntries(s.M.Msgs)
	ftag := s.C.NextTag()
	s.W.Sim.SetLabel(s.Label)
	s.C.Conn.ClientSend([]byte("DONE\r\n" + ftag + " FETCH 1:* (FLAGS)\r\n"))
	e.W.Quiesce()
	lines, err := s.Poll()
	s.InIdle = false
	if err != nil {
		e.Fail("protocol", "DONE + FETCH: %v", err)
		return
	}
	e.St.Probes["done_with_pipelined_fetch"]++
	res := &wire.Result{Tag: s.IdleTag}
	phase := 0 // 0 = IDLE still open, 1 = FETCH in progress, 2 = FETCH completed
	fstatus := ""
	for _, l := range lines {
		switch {
		case l.Tag == s.IdleTag:
			res.Status, res.Code, res.Text = l.Status, l.Code, l.Text
			phase = 1
		case l.Tag == ftag:
			fstatus = l.Status
			phase = 2
		default:
			if n, kw, ok := l.Num(); ok && kw == "EXPUNGE" && phase == 1 {
				e.FailSig("expunge-in-forbidding", "fetch after done", "%s sent DONE and a FETCH in one write and received \"* %d EXPUNGE\" after the completion of IDLE and before the completion of the FETCH: the removal had been held in the IDLE buffer and was sent while the server was answering the FETCH", s.Label, n)
				return
			}
			res.Lines = append(res.Lines, l)
		}
	}
	e.Tr.Event("done+fetch", si, res.Status, fstatus)
	if (res.Status == "" || fstatus == "") && !s.C.Conn.ServerClosed() {
		e.Fail("protocol", "DONE + FETCH: completions %q / %q", res.Status, fstatus)
		return
	}
	g.after(si, "done", before, res)
}

// EndAllIdle leaves IDLE in every session.
func (g *Gated) EndAllIdle() {
	for i, s := range g.Sess {
		if s.InIdle && !s.C.Dead {
			g.endIdle(i)
		}
	}
}

// Diagnose adds, to a violation of the view oracles, what the sessions' views look like
// once everything is delivered and read afresh: attribute
// "views_equal_mailboxes_after_resync" when every selected session, asked with
// UID FETCH 1:* (FLAGS) after all updates and a NOOP, answers exactly what a new session
// sees (the server-side views are right, what went wrong are the announcements), and
// "view_differs_from_mailbox_after_resync" otherwise (a view has lost, kept or mis-flagged
// a message for good).  The known-finding matcher uses it to keep a recorded
// announcement defect from hiding a diverged view.
func (g *Gated) Diagnose() {
	e := g.E
	if e.V == nil || e.Infra != nil {
		return
	}
	switch e.V.Oracle {
	case "stream", "view", "convergence", "removal-announced", "readd-order":
	default:
		return
	}
	// the remote calls of the command that showed the violation have not been folded in yet:
	// they may be the ones that make the history (a re-add, a put-back)
	g.refreshRemote()
	e.W.ReleaseAll()
	g.EndAllIdle()
	same, checked := true, 0
	auth := map[string][]model.Row{}
	for i, s := range g.Sess {
		if s.C.Dead || g.Sel[i] < 0 {
			continue
		}
		e.W.Sim.SetLabel(s.Label)
		if r := s.C.Do(wire.Simple("NOOP")); !r.OK() {
			same = false
			break
		}
		r := s.C.Do(wire.Simple("UID FETCH 1:* (FLAGS)"))
		if !r.OK() {
			same = false
			break
		}
		bySeq := map[int]model.Row{}
		maxSeq := 0
		for _, l := range r.Lines {
			if _, kw, ok := l.Num(); ok && kw == "FETCH" {
				if fd, err := wire.ParseFetch(l); err == nil && fd.HasUID {
					bySeq[int(fd.Seq)] = model.Row{UID: fd.UID, Flags: fd.Flags}
					maxSeq = max(maxSeq, int(fd.Seq))
				}
			}
		}
		// the lines of a parallel FETCH come in any order: the view is ordered by sequence number
		view := make([]model.Row, 0, maxSeq)
		for q := 1; q <= maxSeq; q++ {
			view = append(view, bySeq[q])
		}
		name := g.Boxes[g.Sel[i]]
		rows, ok := auth[name]
		if !ok {
			var err error
			rows, _, _, err = e.AuthRead(0, name, false)
			if err != nil {
				same = false
				break
			}
			auth[name] = rows
		}
		checked++
		if diffView(s.Label, name, view, rows) != "" {
			same = false
			e.Tr.Event("diagnose", s.Label, name, "view differs", len(view), len(rows))
		}
	}
	if same && checked > 0 {
		e.Attr("views_equal_mailboxes_after_resync")
	} else {
		e.Attr("view_differs_from_mailbox_after_resync")
	}
}
