package props

// C13 — FETCH returns byte-exact message data for every section and partial.
//
// Messages with a MIME tree known by construction (gen.Build13 / gen.Build) are put
// into INBOX by APPEND and by connector MessagesCreated.  Sessions FETCH generated
// attribute lists; every returned literal is compared with the byte range the
// generator recorded.  The simulator varies, besides the input: the fetching session
// may be kept on a stale view (its updates parked at the gate) while another session
// expunges the message and logs out; the cache file of a message may be deleted,
// truncated or corrupted between commands so that the literal is downloaded again from
// the connector; FETCH workers run in parallel or not.
//
// Knobs (sc.Cfg) that enable input classes with known / suspected defects; default
// runs avoid them:
//   hugepartial=1  partial counts/offsets of 2^63-1 (begin+count overflow in WithPartial)
//   truncblock=1   cache files truncated exactly at a block boundary of the store format
//                  (store.Get then returns a short literal without error: C09's finding)
//   subpart1=1     part paths that go through "part 1" of a non-multipart (embedded)
//                  message (c13_expect.go, c13Ref.sub1): gluon answers the whole embedded message
// Shape classes without a finding so far: lf=1 (bare LF line endings), odd, binary,
// nobody, prefixb, big, wild (requests outside the judged domain).
//   emptyfield=1   header fields with an empty value ("X-Empty:" CRLF): HEADER.FIELDS[.NOT]
//                  returns only the field name, without ":" CRLF

import (
	"bytes"
	"errors"
	"fmt"
	"os"
	"path/filepath"
	"regexp"
	"sort"
	"strconv"
	"strings"

	"github.com/ProtonMail/gluon/imap"

	"verifharness/core"
	"verifharness/gen"
	"verifharness/simconn"
	"verifharness/wire"
	"verifharness/world"
)

type C13 struct{}

var offsetRe = regexp.MustCompile(`offset (\d+)`)
var digitsRe = regexp.MustCompile(`\d+`)

func (C13) ID() string { return "C13" }

var c13Kinds = []string{"append", "create", "fetch", "expunge", "hold", "deliver", "logout", "login", "rmcache", "copy", "armfail", "noop", "cdelete"}

func (C13) Generate(r *core.Rand, tier string, idx int) *core.Scenario {
	sc := &core.Scenario{Property: "C13", Cfg: map[string]int{}}
	ns := r.Range(2, 3)
	sc.Cfg["nsess"] = ns
	sc.Cfg["par"] = r.Intn(2)
	sc.Cfg["depth"] = r.Weighted([]int{2, 3, 4, 4})
	if r.P(1, 3) {
		sc.Cfg["odd"] = 1
	}
	if r.P(1, 8) {
		sc.Cfg["lf"] = 1
	}
	if sc.Cfg["odd"] == 1 && r.P(1, 4) {
		sc.Cfg["emptyfield"] = 1
	}
	if r.P(1, 6) {
		sc.Cfg["binary"] = 1
	}
	if r.P(1, 6) {
		sc.Cfg["nobody"] = 1
	}
	if r.P(1, 3) {
		sc.Cfg["viarec"] = 1 // some messages reach INBOX through the recovery mailbox
	}
	if r.P(1, 4) {
		sc.Cfg["emptypart"] = 1
	}
	if r.P(1, 8) {
		sc.Cfg["prefixb"] = 1
	}
	if r.P(1, 10) || tier == "thorough" && r.P(1, 12) {
		// one of the size classes around the LZ4 block (64 KiB) and store block (256 KiB)
		sc.Cfg["big"] = []int{70000, 140000, 300000, 400000, 600000}[r.Intn(5)]
	}
	if r.P(1, 12) {
		sc.Cfg["hugepartial"] = 1
	}
	if r.P(1, 12) {
		sc.Cfg["truncblock"] = 1
	}
	if r.P(1, 8) {
		sc.Cfg["subpart1"] = 1
	}
	if r.P(1, 5) {
		sc.Cfg["wild"] = 1 // requests outside the judged domain (absent parts, zero counts): stream integrity only
	}
	//                 app cre fet exp hold del lout lin rmc cop arm noop cdel
	weights := []int{5, 5, 40, 5, 4, 3, 4, 4, 7, 2, 1, 1, 3}
	n := r.Range(20, 50)
	if sc.Cfg["big"] > 0 {
		n = r.Range(10, 22)
	}
	mk := func(k string) core.Action {
		a := core.Action{K: k, S: r.Intn(ns)}
		na := 8
		if k == "fetch" {
			na = 5 + 6*6
		}
		for j := 0; j < na; j++ {
			a.A = append(a.A, r.Intn(100000))
		}
		return a
	}
	// a few messages first
	for i, k := 0, r.Range(1, 3); i < k; i++ {
		sc.Actions = append(sc.Actions, mk([]string{"append", "create"}[r.Intn(2)]))
	}
	if r.P(1, 2) {
		a := mk("hold")
		a.S = 0
		sc.Actions = append(sc.Actions, a)
	}
	for i := 0; i < n; i++ {
		a := mk(c13Kinds[r.Weighted(weights)])
		switch a.K {
		case "fetch":
			// session 0 is the preferred reader, the others the preferred removers
			if r.P(1, 2) {
				a.S = 0
			}
			// mostly a single message (part paths are specific to one tree)
			if r.P(3, 5) {
				a.A[0] = 0
			}
		case "expunge", "logout":
			if r.P(2, 3) {
				a.S = 1 + r.Intn(ns-1)
			}
		}
		sc.Actions = append(sc.Actions, a)
	}
	return sc
}

// c13Msg is what the harness knows about one message.
type c13Msg struct {
	g          *gen.Message
	id         string // internal ID = name of the cache file = value of the ID header
	file       string // path of the cache file
	lit        []byte // expected literal: ID header line + the bytes handed in
	shift      int    // length of the ID header line
	via        string
	remote     imap.MessageID
	expunged   bool // some session removed it from INBOX
	loAfter    int  // sessions that logged out after it was expunged
	deleted    bool // the remote reported it deleted (gluon may drop row and file once nobody holds it)
	faulted    bool // its cache file was damaged and not yet reloaded
	truncBlock bool // its cache file was cut at a block boundary of the store format (knob truncblock)
	inBox1     bool
}

type c13Sess struct {
	s     *world.Sess
	alive bool
	held  bool
	ro    bool
}

type c13Run struct {
	e      *Env
	sc     *core.Scenario
	ss     []*c13Sess
	msgs   map[int]*c13Msg // by marker
	order  []*c13Msg
	files  map[string]bool
	judged int
	dims   int // simulation-dimension events that fired (stale fetch, reload, holder logout, parallel)
	armed  bool
	user   *world.User
}

func (C13) Execute(sc *core.Scenario, keepLog bool) *core.Result {
	cfg := world.Config{
		Users:              []world.UserCfg{{Names: []string{"user"}, Password: "pass"}},
		Gate:               true,
		DisableParallelism: sc.C("par") == 0,
	}
	return RunInBubble("C13", sc, keepLog, cfg, func(e *Env) {
		x := &c13Run{e: e, sc: sc, msgs: map[int]*c13Msg{}, files: map[string]bool{}, user: e.W.Users[0]}
		x.scanFiles()
		ns := max(2, sc.C("nsess"))
		for i := 0; i < ns; i++ {
			x.ss = append(x.ss, &c13Sess{})
			x.login(i, 0)
			if e.Failed() {
				return
			}
		}
		if r := x.ss[0].s.Cmd("CREATE box1"); !r.OK() {
			e.Infra = fmt.Errorf("CREATE box1: %s %s", r.Status, r.Text)
			return
		}
		for i, a := range sc.Actions {
			e.Step = i + 1
			x.exec(a)
			x.checkPanics()
			if e.Failed() {
				return
			}
		}
		e.St.Nontrivial = x.judged >= 10 && x.dims > 0
	})
}

// checkPanics is Env.CheckPanics with a detail that is the same in every process (no
// goroutine numbers, no addresses): the first line and the gluon frames.
func (x *c13Run) checkPanics() {
	e := x.e
	if len(e.W.Panics) == 0 || e.V != nil {
		return
	}
	p := e.W.Panics[0]
	var frames []string
	for _, l := range strings.Split(p, "\n")[1:] {
		if strings.HasPrefix(l, "github.com/ProtonMail/gluon/") && !strings.Contains(l, "verifsimrt") {
			if k := strings.LastIndexByte(l, '('); k > 0 {
				l = l[:k]
			}
			frames = append(frames, strings.TrimPrefix(l, "github.com/ProtonMail/gluon/"))
		}
	}
	if len(frames) > 6 {
		frames = frames[:6]
	}
	// (numbers are taken out: with parallel workers, which message's worker panics
	// first is up to the real scheduler)
	first := digitsRe.ReplaceAllString(firstLine(p), "#")
	e.FailSig("panic", first, "server goroutine panicked: %s; frames: %s", first, strings.Join(frames, " < "))
}

// ev records a trace event (and shows it in the kept log).
func (x *c13Run) ev(kind string, args ...any) {
	x.e.Tr.Event(kind, args...)
	if x.e.W.Cfg.Trace {
		x.e.W.Tracef("E %s %s", kind, fmt.Sprint(args...))
	}
}

// ---- files ----

func (x *c13Run) listFiles() []string {
	var out []string
	filepath.Walk(x.e.W.DataDir, func(p string, info os.FileInfo, err error) error {
		if err == nil && info.Mode().IsRegular() {
			out = append(out, p)
		}
		return nil
	})
	sort.Strings(out)
	return out
}

// scanFiles returns the cache files that appeared since the last scan.
func (x *c13Run) scanFiles() []string {
	var fresh []string
	for _, p := range x.listFiles() {
		if !x.files[p] {
			x.files[p] = true
			fresh = append(fresh, p)
		}
	}
	return fresh
}

// ---- sessions ----

func (x *c13Run) login(i int, arg int) {
	e := x.e
	s, err := e.W.Connect()
	if err != nil {
		e.Infra = err
		return
	}
	if r := s.Cmd("LOGIN user pass"); !r.OK() {
		e.Infra = fmt.Errorf("LOGIN: %s %s", r.Status, r.Text)
		return
	}
	s.User = 0
	cs := x.ss[i]
	cs.s, cs.alive, cs.held, cs.ro = s, true, false, arg%4 == 3
	// nothing may be waiting at the new session's gate when it selects (C01's finding)
	s.ReleaseUpdates(-1)
	verb := "SELECT"
	if cs.ro {
		verb = "EXAMINE"
	}
	s.M.Reset("INBOX", cs.ro)
	if r := s.Cmd("%s INBOX", verb); !r.OK() {
		e.Infra = fmt.Errorf("%s INBOX: %s %s", verb, r.Status, r.Text)
		return
	}
	x.ev("login", i, verb, s.M.Count())
	x.learn(i)
}

// learn asks for UID and marker of the messages of the session's view it does not know.
func (x *c13Run) learn(i int) {
	e := x.e
	cs := x.ss[i]
	s := cs.s
	if !cs.alive || s.C.Dead || e.Failed() {
		return
	}
	lo, hi := 0, 0
	for k, m := range s.M.Msgs {
		if m.Marker == "" {
			if lo == 0 {
				lo = k + 1
			}
			hi = k + 1
		}
	}
	if lo == 0 {
		return
	}
	r := s.Cmd("FETCH %d:%d (UID BODY.PEEK[HEADER.FIELDS (X-Sim-Marker)])", lo, hi)
	x.stream(i, r, "marker fetch")
	if !r.OK() {
		e.Fail("fetch-status", "FETCH %d:%d (UID BODY.PEEK[HEADER.FIELDS (X-Sim-Marker)]) answered %s %s", lo, hi, r.Status, r.Text)
		return
	}
	for _, l := range r.Lines {
		if _, kw, ok := l.Num(); !ok || kw != "FETCH" {
			continue
		}
		fd, err := wire.ParseFetch(l)
		if err != nil || int(fd.Seq) < 1 || int(fd.Seq) > len(s.M.Msgs) {
			continue
		}
		for name, n := range fd.Items {
			if strings.HasPrefix(name, "BODY[") {
				mk := gen.MarkerOf([]byte(n.Str))
				if mk < 0 {
					for _, m := range x.order {
						if m.truncBlock {
							e.Attr("truncated_at_block_boundary")
						}
					}
					// every generated message has the field
					e.FailSig("section-bytes", "marker field missing", "FETCH %d:%d (UID BODY.PEEK[HEADER.FIELDS (X-Sim-Marker)]): the answer for sequence number %d does not hold the X-Sim-Marker field every message has: %q", lo, hi, fd.Seq, n.Str)
					return
				}
				s.M.Msgs[fd.Seq-1].Marker = fmt.Sprint(mk)
			}
		}
	}
	for k := lo; k <= hi; k++ {
		if m := s.M.Msgs[k-1]; m.Marker == "" || m.UID == 0 {
			e.Fail("fetch-lines", "FETCH %d:%d (UID BODY.PEEK[HEADER.FIELDS (X-Sim-Marker)]) gave no usable line for sequence number %d", lo, hi, k)
			return
		}
	}
}

// stream turns protocol-level trouble of one command into a violation.
func (x *c13Run) stream(i int, r *wire.Result, what string) {
	e := x.e
	s := x.ss[i].s
	if r.Err != nil {
		// a literal whose announced length differs from the bytes that follow
		// desynchronises the stream: the tokenizer fails or no completion arrives
		ctx := ""
		var pe *wire.ParseError
		if errors.As(r.Err, &pe) {
			if mm := offsetRe.FindStringSubmatch(pe.Msg); mm != nil {
				off, _ := strconv.Atoi(mm[1])
				off += 2 // the offset counts from behind "* "
				lo, hi := max(0, off-60), min(len(pe.At), off+60)
				if lo < hi {
					ctx = fmt.Sprintf(" [around the offset: %q]", pe.At[lo:hi])
				}
			}
		}
		e.Fail("literal-framing", "%s: %v%s", what, r.Err, ctx)
	}
	for _, v := range s.Viol {
		e.Fail("stream", "%s: %s", what, v)
	}
	if r.Closed || r.Bye {
		s.C.Dead = true
		x.ss[i].alive = false
	}
}

func (x *c13Run) pick(a core.Action) (int, *c13Sess) {
	n := len(x.ss)
	st := abs(a.S) % n
	for d := 0; d < n; d++ {
		i := (st + d) % n
		if x.ss[i].alive && !x.ss[i].s.C.Dead {
			return i, x.ss[i]
		}
	}
	return -1, nil
}

// settle delivers pending updates to every session that is not held on a stale view and
// lets it flush them with NOOP, so that only held sessions are stale.
func (x *c13Run) settle() {
	for i, cs := range x.ss {
		if !cs.alive || cs.s.C.Dead || cs.held {
			continue
		}
		x.sync(i)
	}
}

func (x *c13Run) sync(i int) {
	cs := x.ss[i]
	cs.s.ReleaseUpdates(-1)
	r := cs.s.Cmd("NOOP")
	x.stream(i, r, "NOOP")
	x.learn(i)
}

func (x *c13Run) msgAt(i int, seq int) *c13Msg {
	s := x.ss[i].s
	if seq < 1 || seq > len(s.M.Msgs) {
		return nil
	}
	mk, err := strconv.Atoi(s.M.Msgs[seq-1].Marker)
	if err != nil {
		return nil
	}
	return x.msgs[mk]
}

func (x *c13Run) newMessage(a core.Action) *gen.Message {
	sc := x.sc
	o := gen.Opts13{
		MaxDepth:       sc.C("depth"),
		LF:             sc.C("lf") == 1,
		Odd:            sc.C("odd") == 1 && a.Arg(1)%2 == 0,
		EmptyField:     sc.C("emptyfield") == 1,
		Binary:         sc.C("binary") == 1,
		NoBody:         sc.C("nobody") == 1,
		PrefixBoundary: sc.C("prefixb") == 1,
		EmptyPart:      sc.C("emptypart") == 1,
	}
	if o.MaxDepth > 0 {
		o.MaxDepth = 1 + a.Arg(2)%o.MaxDepth
		if a.Arg(2)%5 == 4 {
			o.MaxDepth = 0
		}
	}
	if big := sc.C("big"); big > 0 && a.Arg(3)%2 == 0 {
		o.Big = big - a.Arg(4)%(big/8+1)
	}
	e := x.e
	e.nextMark++
	var m *gen.Message
	rr := core.NewRand(core.Mix(sc.Seed, uint64(a.Arg(0))*7919+uint64(e.nextMark)))
	if a.Arg(5)%6 == 5 {
		m = gen.Build(e.nextMark, rr, gen.Opts{MaxDepth: o.MaxDepth, EmbedIDHeader: a.Arg(5)%12 == 11})
	} else {
		m = gen.Build13(e.nextMark, rr, o)
	}
	return m
}

func (x *c13Run) register(g *gen.Message, via string, remote imap.MessageID, fresh []string) bool {
	e := x.e
	if len(fresh) != 1 {
		e.Infra = fmt.Errorf("%s of msg<%d>: %d new cache files (expected 1): %v", via, g.Marker, len(fresh), fresh)
		return false
	}
	id := filepath.Base(fresh[0])
	idLine := gen.IDHeader + ": " + id + "\r\n"
	m := &c13Msg{g: g, id: id, file: fresh[0], via: via, remote: remote, shift: len(idLine)}
	m.lit = append([]byte(idLine), g.Bytes...)
	x.msgs[g.Marker] = m
	x.order = append(x.order, m)
	if len(m.lit) > 256<<10 {
		e.St.Probes["message_over_256k"]++
	}
	if fi, err := os.Stat(m.file); err == nil && fi.Size() > 27+(256<<10)+16 {
		e.St.Probes["cache_file_multi_block"]++
	}
	if sc := x.sc; sc.C("lf") == 1 {
		e.St.Probes["lf_message"]++
	}
	return true
}

func (x *c13Run) exec(a core.Action) {
	e := x.e
	switch a.K {
	case "append":
		i, cs := x.pick(a)
		if cs == nil {
			return
		}
		// the appender must not overtake updates queued for it (C01's finding)
		if cs.held {
			x.sync(i)
		}
		g := x.newMessage(a)
		x.user.Conn.TakeCalls()
		viaRec := x.sc.C("viarec") == 1 && a.Arg(4)%3 == 1
		if viaRec {
			// the remote refuses this message once: it is kept in the recovery mailbox, and a
			// further session moves or copies it into INBOX afterwards - a third way in
			x.user.Conn.Arm(simconn.KCreateMessage, simconn.ErrInjected)
		}
		r := cs.s.Do(wire.WithLiteral("APPEND INBOX ", g.Bytes, ""))
		x.ev("append", i, g.Marker, len(g.Bytes), r.Status)
		x.stream(i, r, "APPEND")
		if viaRec {
			x.user.Conn.Disarm()
			x.scanFiles()
			if r.OK() {
				e.Fail("append-status", "APPEND answered OK although the remote refused the message")
				return
			}
			x.user.Conn.TakeCalls()
			rs, err := e.W.Connect()
			if err != nil {
				e.Infra = err
				return
			}
			ok := rs.Cmd("LOGIN user pass").OK()
			rs.M.Reset(recoveryName, false)
			if ok = ok && rs.Cmd("SELECT %s", Quote(recoveryName)).OK(); !ok || rs.M.Count() == 0 {
				// (an undecodable or oversized shape may not have been kept: not this property)
				e.St.Probes["append_rejected"]++
				rs.Cmd("LOGOUT")
				rs.C.Dead = true
				x.settle()
				return
			}
			verb := []string{"MOVE", "COPY"}[abs(a.Arg(4)/3)%2]
			r2 := rs.Cmd("%s %d INBOX", verb, rs.M.Count())
			x.ev("out-of-recovery", verb, g.Marker, r2.Status)
			if verb == "COPY" && r2.OK() {
				rs.Cmd("STORE %d +FLAGS.SILENT (\\Deleted)", rs.M.Count())
				rs.Cmd("EXPUNGE")
			}
			rs.Cmd("LOGOUT")
			rs.C.Dead = true
			fresh := x.scanFiles()
			if !r2.OK() {
				e.St.Probes["append_rejected"]++
				x.settle()
				return
			}
			var remote imap.MessageID
			for _, c := range x.user.Conn.TakeCalls() {
				if c.Kind == simconn.KCreateMessage && c.Err == nil {
					remote = imap.MessageID(c.NewID)
				}
			}
			if !x.register(g, "recovered", remote, fresh) {
				return
			}
			e.St.Probes["msg_by_recovery_mailbox"]++
			x.settle()
			return
		}
		fresh := x.scanFiles()
		if !r.OK() {
			// whether every generated shape is acceptable to APPEND is not this property
			e.St.Probes["append_rejected"]++
			x.settle()
			return
		}
		var remote imap.MessageID
		for _, c := range x.user.Conn.TakeCalls() {
			if c.Kind == simconn.KCreateMessage && c.Err == nil {
				remote = imap.MessageID(c.NewID)
			}
		}
		if !x.register(g, "append", remote, fresh) {
			return
		}
		e.St.Probes["msg_by_append"]++
		x.learn(i)
		x.settle()
	case "create":
		g := x.newMessage(a)
		parsed, err := imap.NewParsedMessage(g.Bytes)
		if err != nil {
			e.St.Probes["create_unparsable"]++
			x.ev("create-unparsable", g.Marker)
			return
		}
		var rid imap.MailboxID
		for id, nm := range x.user.Conn.MboxNames {
			if len(nm) == 1 && nm[0] == "INBOX" {
				rid = id
			}
		}
		id := x.user.Conn.NewMessageID()
		x.user.Conn.RememberLiteral(id, g.Bytes, imap.NewFlagSet(), world.SimStart)
		res := e.W.Submit(x.user, imap.NewMessagesCreated(false, &imap.MessageCreated{Message: imap.Message{ID: id, Flags: imap.NewFlagSet(), Date: world.SimStart}, Literal: g.Bytes, MailboxIDs: []imap.MailboxID{rid}, ParsedMessage: parsed}))
		x.ev("create", g.Marker, len(g.Bytes), res.Done, res.Err != nil)
		fresh := x.scanFiles()
		if !res.Done || res.Err != nil {
			e.St.Probes["create_rejected"]++
			return
		}
		if !x.register(g, "conn", id, fresh) {
			return
		}
		e.St.Probes["msg_by_connector"]++
		x.settle()
	case "hold":
		i, cs := x.pick(a)
		if cs == nil {
			return
		}
		cs.held = true
		x.ev("hold", i)
	case "deliver":
		i, cs := x.pick(a)
		if cs == nil {
			return
		}
		cs.held = false
		x.ev("deliver", i)
		x.sync(i)
	case "noop":
		i, cs := x.pick(a)
		if cs == nil {
			return
		}
		r := cs.s.Cmd("NOOP")
		x.ev("noop", i, r.Status)
		x.stream(i, r, "NOOP")
		x.learn(i)
	case "logout":
		i, cs := x.pick(a)
		if cs == nil {
			return
		}
		alive := 0
		for _, o := range x.ss {
			if o.alive {
				alive++
			}
		}
		if alive <= 1 {
			return
		}
		r := cs.s.Cmd("LOGOUT")
		x.ev("logout", i, r.Status)
		cs.s.C.Dead = true
		cs.alive = false
		e.W.Quiesce()
		for _, m := range x.order {
			if m.expunged {
				m.loAfter++
			}
		}
	case "login":
		for i, cs := range x.ss {
			if !cs.alive {
				x.login(i, a.Arg(0))
				return
			}
		}
	case "copy":
		i, cs := x.pick(a)
		if cs == nil || cs.s.M.Count() == 0 {
			return
		}
		if cs.held {
			x.sync(i)
		}
		if cs.s.M.Count() == 0 || e.Failed() {
			return
		}
		seq := 1 + a.Arg(0)%cs.s.M.Count()
		m := x.msgAt(i, seq)
		if m == nil || m.inBox1 {
			return
		}
		r := cs.s.Cmd("COPY %d box1", seq)
		x.ev("copy", i, seq, r.Status)
		x.stream(i, r, "COPY")
		if r.OK() {
			m.inBox1 = true
		}
		x.settle()
	case "expunge":
		i, cs := x.pick(a)
		if cs == nil || cs.ro || cs.s.M.Count() == 0 {
			return
		}
		if cs.held {
			x.sync(i)
		}
		if cs.s.M.Count() == 0 {
			return
		}
		seq := 1 + a.Arg(0)%cs.s.M.Count()
		m := x.msgAt(i, seq)
		uid := cs.s.M.Msgs[seq-1].UID
		if m == nil || uid == 0 {
			return
		}
		r := cs.s.Cmd("UID STORE %d +FLAGS.SILENT (\\Deleted)", uid)
		x.stream(i, r, "UID STORE")
		if !r.OK() {
			x.ev("expunge-store-failed", i, r.Status)
			x.settle()
			return
		}
		r = cs.s.Cmd("UID EXPUNGE %d", uid)
		x.ev("expunge", i, m.g.Marker, r.Status)
		x.stream(i, r, "UID EXPUNGE")
		if r.OK() {
			m.expunged = true
		}
		x.settle()
	case "cdelete":
		// the remote reports the message as deleted for good: gluon marks it and removes
		// its row and cache file when a session ends, unless another session's view holds it
		var cand []*c13Msg
		for _, m := range x.order {
			if m.remote != "" && !m.deleted {
				cand = append(cand, m)
			}
		}
		if len(cand) == 0 {
			return
		}
		m := cand[a.Arg(0)%len(cand)]
		res := e.W.Submit(x.user, imap.NewMessagesDeleted(m.remote))
		x.ev("cdelete", m.g.Marker, res.Done, res.Err != nil)
		if !res.Done || res.Err != nil {
			e.Fail("connector-update", "MessageDeleted for msg<%d>: done=%v err=%v", m.g.Marker, res.Done, res.Err)
			return
		}
		m.deleted, m.expunged = true, true
		if a.Arg(1)%2 == 0 {
			// ... and can no longer hand out its literal
			x.user.Conn.ForgetMessage(m.remote)
		}
		e.St.Probes["message_deleted_by_remote"]++
		x.settle()
	case "rmcache":
		x.rmcache(a)
	case "armfail":
		// the next FETCH whose outcome does not depend on the real scheduler (one
		// message, or parallel workers off) runs with a failing GetMessageLiteral
		x.armed = true
		x.ev("armfail")
	case "fetch":
		x.fetch(a)
	}
}

// rmcache damages the cache file of one message between two commands.
func (x *c13Run) rmcache(a core.Action) {
	e := x.e
	if len(x.order) == 0 {
		return
	}
	m := x.order[a.Arg(0)%len(x.order)]
	fi, err := os.Stat(m.file)
	if err != nil {
		return // gluon has removed the file (nobody holds the message any more)
	}
	size := int(fi.Size())
	const hdr, nonce, blk = 15, 12, 256<<10 + 16
	mode := a.Arg(1) % 6
	if mode == 5 && x.sc.C("truncblock") == 0 || size == 0 {
		mode = 0
	}
	what := ""
	switch mode {
	case 0:
		err = os.Remove(m.file)
		what = "delete"
	case 1:
		// (positions are counted from the start or from the end, never derived from the
		// file size: LZ4 output for the same bytes is not the same in every process)
		n := a.Arg(2) % 64
		what = fmt.Sprintf("truncate to %d", n)
		if a.Arg(2)%2 == 1 || n >= size {
			k := 1 + a.Arg(2)%64
			n = max(0, size-k)
			what = fmt.Sprintf("cut %d bytes off the end", k)
		}
		// exact block boundaries decrypt cleanly (knob truncblock)
		if n == hdr+nonce || (n > hdr+nonce && (n-hdr-nonce)%blk == 0) {
			n--
		}
		err = os.Truncate(m.file, int64(n))
	case 2:
		what = "overwrite header"
		err = patchFile(m.file, 0, []byte("NOT-A-GLUON-CACHE-FILE"))
	case 3:
		pos := a.Arg(2) % 64
		what = fmt.Sprintf("flip byte %d", pos)
		if a.Arg(2)%2 == 1 || pos >= size {
			k := 1 + a.Arg(2)%32
			pos = max(0, size-k)
			what = fmt.Sprintf("flip byte %d from the end", k)
		}
		if a.Arg(2)%5 == 4 && size > hdr+nonce+blk+100 {
			// inside the second encrypted block of a large file: the first block decrypts
			pos = hdr + nonce + blk + a.Arg(2)%64
			what = fmt.Sprintf("flip byte %d of the second block", a.Arg(2)%64)
			e.St.Probes["second_block_damaged"]++
		}
		err = flipByte(m.file, pos)
	case 4:
		err = os.Truncate(m.file, 0)
		what = "truncate to 0"
	case 5:
		nb := (size - hdr - nonce) / blk
		n := hdr + nonce + (a.Arg(2)%(nb+1))*blk
		if n >= size {
			n = hdr + nonce
		}
		err = os.Truncate(m.file, int64(n))
		what = fmt.Sprintf("truncate to block boundary %d", (n-hdr-nonce)/blk)
		m.truncBlock = true
	}
	if err != nil {
		e.Infra = fmt.Errorf("rmcache %s: %v", what, err)
		return
	}
	m.faulted = true
	x.ev("rmcache", m.g.Marker, what)
}

func patchFile(path string, off int, b []byte) error {
	f, err := os.OpenFile(path, os.O_RDWR, 0)
	if err != nil {
		return err
	}
	defer f.Close()
	_, err = f.WriteAt(b, int64(off))
	return err
}

func flipByte(path string, pos int) error {
	f, err := os.OpenFile(path, os.O_RDWR, 0)
	if err != nil {
		return err
	}
	defer f.Close()
	b := make([]byte, 1)
	if _, err := f.ReadAt(b, int64(pos)); err != nil {
		return err
	}
	b[0] ^= 0x5a
	_, err = f.WriteAt(b, int64(pos))
	return err
}

// ---- FETCH ----

// c13Item is one requested attribute after resolution against the addressed messages.
type c13Item struct {
	req      string // text sent
	name     string // upper-cased item name expected in the response
	sec      *c13Sec
	partial  bool
	off, cnt uint64
	literal  bool // the answer is string data judged byte for byte
	size     bool // RFC822.SIZE
	judged   bool
	needsLit bool
}

func (x *c13Run) fetch(a core.Action) {
	e := x.e
	i, cs := x.pick(a)
	if cs == nil {
		return
	}
	s := cs.s
	n := s.M.Count()
	if n == 0 {
		return
	}
	// the set: ascending, no repeats
	var seqs []int
	var set string
	p, q := 1+a.Arg(1)%n, 1+a.Arg(2)%n
	if p > q {
		p, q = q, p
	}
	switch a.Arg(0) % 5 {
	case 0, 1:
		set, seqs = strconv.Itoa(p), []int{p}
	case 2:
		if q-p > 7 {
			q = p + 7
		}
		set, seqs = fmt.Sprintf("%d:%d", p, q), rng(p, q)
	case 3:
		lo := max(1, n-5)
		set, seqs = fmt.Sprintf("%d:*", lo), rng(lo, n)
	case 4:
		if p == q {
			set, seqs = strconv.Itoa(p), []int{p}
		} else {
			set, seqs = fmt.Sprintf("%d,%d", p, q), []int{p, q}
		}
	}
	var ms []*c13Msg
	for _, q := range seqs {
		m := x.msgAt(i, q)
		if m == nil {
			e.Infra = fmt.Errorf("c13: no message known for seq %d of session %d", q, i)
			return
		}
		ms = append(ms, m)
	}
	uidForm := a.Arg(3)%4 == 0
	if uidForm {
		parts := make([]string, len(seqs))
		for k, q := range seqs {
			parts[k] = fmt.Sprint(s.M.Msgs[q-1].UID)
		}
		set = strings.Join(parts, ",")
	}
	items, allJudged := x.buildItems(a, ms)
	if len(items) == 0 {
		return
	}
	reqs := make([]string, len(items))
	needsLit := false
	for k, it := range items {
		reqs[k] = it.req
		needsLit = needsLit || it.needsLit
	}
	verb := "FETCH"
	if uidForm {
		verb = "UID FETCH"
	}
	attrs := "(" + strings.Join(reqs, " ") + ")"
	if len(reqs) == 1 && a.Arg(4)%3 == 0 {
		attrs = reqs[0]
	}
	cmd := fmt.Sprintf("%s %s %s", verb, set, attrs)
	// facts about the situation
	stale, holderGone, delGone, reload := false, false, false, false
	for _, m := range ms {
		if m.expunged {
			stale = true
			if m.loAfter > 0 {
				holderGone = true
				delGone = delGone || m.deleted
			}
		}
		if m.faulted && needsLit {
			reload = true
		}
	}
	x.user.Conn.TakeCalls()
	armedNow := x.armed && (len(ms) == 1 || x.sc.C("par") == 0)
	if armedNow {
		x.user.Conn.Arm(simconn.KGetLiteral, simconn.ErrInjected)
	}
	r := s.Cmd("%s", cmd)
	if armedNow {
		x.user.Conn.Disarm()
		x.armed = false
	}
	x.ev("fetch", i, cmd, r.Status)
	x.checkPanics()
	x.stream(i, r, cmd)
	if e.Failed() {
		return
	}
	gets, getFails := 0, 0
	for _, c := range x.user.Conn.TakeCalls() {
		if c.Kind == simconn.KGetLiteral {
			gets++
			if c.Err != nil {
				getFails++
			}
		}
	}
	if getFails > 0 {
		e.St.Faults["connector_call_fail"] += getFails
	}
	if reload {
		for _, m := range ms {
			if m.faulted && (r.OK() || getFails == 0) {
				m.faulted = false
			}
		}
	}
	if gets > getFails {
		e.St.Faults["store_corrupt"] += gets - getFails
		e.St.Probes["literal_reloaded_from_connector"] += gets - getFails
		x.dims++
	}
	if stale {
		e.St.Faults["update_delay"]++
		e.St.Probes["fetch_of_message_expunged_by_other"]++
		x.dims++
	}
	if holderGone {
		e.St.Probes["fetch_after_holder_logout"]++
	}
	if delGone {
		// gluon's clean-up at session end had the chance to remove the message
		e.St.Probes["fetch_of_remote_deleted_message_after_a_logout"]++
	}
	if len(ms) > 1 && needsLit && x.sc.C("par") == 1 {
		e.St.Probes["parallel_literal_fetch"]++
		x.dims++
	}
	if !r.OK() {
		if allJudged && getFails == 0 {
			for _, m := range ms {
				if m.truncBlock {
					e.Attr("truncated_at_block_boundary")
				}
			}
			e.Fail("fetch-status", "%s answered %s %s", cmd, r.Status, r.Text)
		} else {
			e.St.Probes["fetch_refused"]++
		}
		// lines that did arrive are still judged below
	}
	// one line per addressed message
	lines := map[int]*wire.FetchData{}
	for _, l := range r.Lines {
		if _, kw, ok := l.Num(); !ok || kw != "FETCH" {
			continue
		}
		fd, err := wire.ParseFetch(l)
		if err != nil {
			e.Fail("stream", "%s: %v", cmd, err)
			return
		}
		if _, dup := lines[int(fd.Seq)]; dup && !isFlagsOnly(fd) {
			if !isFlagsOnly(lines[int(fd.Seq)]) {
				e.Fail("fetch-lines", "%s: two FETCH responses for sequence number %d", cmd, fd.Seq)
				return
			}
		}
		if old, dup := lines[int(fd.Seq)]; !dup || isFlagsOnly(old) {
			lines[int(fd.Seq)] = fd
		}
	}
	for k, q := range seqs {
		fd := lines[q]
		if fd == nil {
			if r.OK() {
				e.Fail("fetch-lines", "%s answered OK without a FETCH response for sequence number %d", cmd, q)
				return
			}
			continue
		}
		x.judgeLine(cmd, items, ms[k], fd, uidForm, s.M.Msgs[q-1].UID)
		if e.Failed() {
			return
		}
	}
	for q := range lines {
		found := false
		for _, w := range seqs {
			found = found || w == q
		}
		if !found && !isFlagsOnly(lines[q]) {
			e.Fail("fetch-lines", "%s: FETCH response for sequence number %d which was not asked for", cmd, q)
			return
		}
	}
	// non-peek fetches change \Seen: let the others hear about it
	x.settle()
}

func isFlagsOnly(fd *wire.FetchData) bool {
	for _, n := range fd.Order {
		if n != "FLAGS" && n != "UID" {
			return false
		}
	}
	return true
}

func (x *c13Run) judgeLine(cmd string, items []*c13Item, m *c13Msg, fd *wire.FetchData, uidForm bool, uid uint32) {
	e := x.e
	if uidForm && (!fd.HasUID || fd.UID != uid) {
		e.Fail("fetch-lines", "%s: response for sequence number %d carries UID %d (has=%v), the client knows UID %d", cmd, fd.Seq, fd.UID, fd.HasUID, uid)
		return
	}
	got := map[string][]byte{} // for the relations between answers
	for _, it := range items {
		node, ok := fd.Items[it.name]
		if !ok {
			if it.judged {
				e.FailSig("item-missing", c13Class(it.name), "%s: response for msg<%d> (%s) has no item %s; items: %v", cmd, m.g.Marker, m.g.Describe(), it.name, fd.Order)
				return
			}
			continue
		}
		if it.size {
			e.St.Checks++
			x.judged++
			if node.Str != strconv.Itoa(len(m.lit)) {
				e.Fail("size", "%s: RFC822.SIZE %s for msg<%d>, the message (with its ID header line) has %d bytes", cmd, node.Str, m.g.Marker, len(m.lit))
				return
			}
			continue
		}
		if !it.literal {
			continue
		}
		if !node.IsStr() && node.Kind != wire.Nil {
			e.Fail("item-type", "%s: item %s is not string data", cmd, it.name)
			return
		}
		data := []byte(node.Str)
		got[it.name] = data
		if !it.judged {
			continue
		}
		want, defined := it.sec.bytesOf(m)
		if !defined {
			continue
		}
		full := want
		if it.partial {
			want = clampSlice(want, it.off, it.cnt)
			if it.off >= uint64(len(full)) {
				e.St.Probes["partial_starts_beyond_end"]++
			}
			if it.cnt >= 1<<31 || it.off >= 1<<31 {
				e.St.Probes["partial_huge_number"]++
			}
		}
		e.St.Checks++
		x.judged++
		if !bytes.Equal(data, want) {
			oracle := "section-bytes"
			if it.partial {
				oracle = "partial-bytes"
			}
			if m.via == "conn" {
				e.Attr("message_from_connector")
			}
			// facts for the known-finding matcher
			if r := m.find(it.sec.path); r != nil && r.sub1 {
				e.Attr("part_1_of_nonmultipart_embedded_message")
			}
			if strings.HasPrefix(it.sec.text, "FIELDS") && (bytes.Contains(full, []byte(":\r\n")) || bytes.Contains(full, []byte(":\n"))) {
				e.Attr("header_field_with_empty_value")
			}
			if m.truncBlock {
				e.Attr("truncated_at_block_boundary")
			}
			e.FailSig(oracle, c13Class(it.name)+" "+diffClass(data, want), "%s: %s of msg<%d> (%s, %s): got %d bytes, expected %d bytes; %s", cmd, it.name, m.g.Marker, m.via, m.g.Describe(), len(data), len(want), firstDiff(data, want))
			return
		}
	}
	x.relations(cmd, m, got)
}

// c13Class strips part numbers and field names from an item name for signatures.
func c13Class(name string) string {
	var sb strings.Builder
	depth := 0
	for _, c := range name {
		switch {
		case c == '(':
			depth++
			sb.WriteString("(..)")
		case c == ')':
			depth--
		case depth > 0:
		case c >= '0' && c <= '9':
			if !strings.HasSuffix(sb.String(), "#") {
				sb.WriteByte('#')
			}
		default:
			sb.WriteRune(c)
		}
	}
	return sb.String()
}

func diffClass(got, want []byte) string {
	switch {
	case len(got) == len(want):
		return "same length, different bytes"
	case len(got) < len(want) && bytes.HasPrefix(want, got):
		return "answer is a strict prefix of the expected bytes"
	case len(got) < len(want) && bytes.HasSuffix(want, got):
		return "answer is a strict suffix of the expected bytes"
	case len(got) > len(want) && bytes.HasPrefix(got, want):
		return "answer continues beyond the expected bytes"
	case len(got) > len(want) && bytes.HasSuffix(got, want):
		return "answer starts before the expected bytes"
	case len(got) < len(want):
		return "shorter"
	}
	return "longer"
}

func firstDiff(got, want []byte) string {
	n := min(len(got), len(want))
	k := 0
	for k < n && got[k] == want[k] {
		k++
	}
	cut := func(b []byte) string {
		lo := max(0, k-20)
		hi := min(len(b), k+40)
		if lo > hi {
			lo = hi
		}
		return strconv.Quote(string(b[lo:hi]))
	}
	return fmt.Sprintf("first difference at offset %d: got ...%s, expected ...%s", k, cut(got), cut(want))
}

func clampSlice(b []byte, off, cnt uint64) []byte {
	n := uint64(len(b))
	if off >= n {
		return nil
	}
	end := n
	if cnt < n-off {
		end = off + cnt
	}
	return b[off:end]
}

// relations checks what the statement says about answers relative to each other, using
// only what the server sent in this response line.
func (x *c13Run) relations(cmd string, m *c13Msg, got map[string][]byte) {
	e := x.e
	defer func() {
		if e.V != nil && m.truncBlock {
			e.Attr("truncated_at_block_boundary")
		}
	}()
	whole, okW := got["BODY[]"]
	if rf, ok := got["RFC822"]; ok && okW {
		e.St.Checks++
		if !bytes.Equal(rf, whole) {
			e.Fail("rfc822-equals-body", "%s: RFC822 (%d bytes) differs from BODY[] (%d bytes) of msg<%d>", cmd, len(rf), len(whole), m.g.Marker)
			return
		}
	}
	h, okH := got["BODY[HEADER]"]
	t, okT := got["BODY[TEXT]"]
	if okW && okH && okT {
		e.St.Checks++
		if !bytes.Equal(append(append([]byte(nil), h...), t...), whole) {
			e.Fail("header-plus-text", "%s: BODY[HEADER] (%d bytes) followed by BODY[TEXT] (%d bytes) is not BODY[] (%d bytes) of msg<%d>", cmd, len(h), len(t), len(whole), m.g.Marker)
			return
		}
	}
	// HEADER.FIELDS (F) and HEADER.FIELDS.NOT (F) partition the header lines
	names := make([]string, 0, len(got))
	for n := range got {
		names = append(names, n)
	}
	sort.Strings(names)
	for _, n := range names {
		const mark = "HEADER.FIELDS ("
		k := strings.Index(n, mark)
		if k < 0 || strings.HasSuffix(n, ">") {
			continue
		}
		not := n[:k] + "HEADER.FIELDS.NOT (" + n[k+len(mark):]
		hdr := n[:k] + "HEADER]"
		a, b := got[n], got[not]
		hb, ok1 := got[hdr]
		if _, ok2 := got[not]; !ok1 || !ok2 {
			continue
		}
		e.St.Checks++
		e.St.Probes["fields_partition_checked"]++
		if d := partitionDiff(hb, a, b); d != "" {
			e.Fail("fields-partition", "%s: msg<%d>: %s and %s do not partition %s: %s", cmd, m.g.Marker, n, not, hdr, d)
			return
		}
	}
}

// headerLines splits a header into fields (with their folded continuation lines) and
// reports the final blank line separately.
func headerLines(h []byte) (fields []string, blank string) {
	var lines []string
	for len(h) > 0 {
		k := bytes.IndexByte(h, '\n')
		if k < 0 {
			lines = append(lines, string(h))
			break
		}
		lines = append(lines, string(h[:k+1]))
		h = h[k+1:]
	}
	if n := len(lines); n > 0 && strings.Trim(lines[n-1], "\r\n") == "" {
		blank = lines[n-1]
		lines = lines[:n-1]
	}
	for _, l := range lines {
		if (strings.HasPrefix(l, " ") || strings.HasPrefix(l, "\t")) && len(fields) > 0 {
			fields[len(fields)-1] += l
		} else {
			fields = append(fields, l)
		}
	}
	return
}

// partitionDiff: merging a and b in header order must give the header; nothing twice.
func partitionDiff(header, a, b []byte) string {
	hf, hb := headerLines(header)
	af, ab := headerLines(a)
	bf, bb := headerLines(b)
	if ab != hb || bb != hb {
		return fmt.Sprintf("the delimiting blank line is %q in the header, %q and %q in the two answers", hb, ab, bb)
	}
	i, j := 0, 0
	for k, f := range hf {
		switch {
		case i < len(af) && af[i] == f && j < len(bf) && bf[j] == f:
			// identical duplicate fields: may legitimately be on either side; take a
			i++
		case i < len(af) && af[i] == f:
			i++
		case j < len(bf) && bf[j] == f:
			j++
		default:
			return fmt.Sprintf("header field %d %q is in neither answer (in order)", k+1, f)
		}
	}
	if i < len(af) {
		return fmt.Sprintf("answer holds %q which is not a header field at that position (duplicated or reordered)", af[i])
	}
	if j < len(bf) {
		return fmt.Sprintf("answer holds %q which is not a header field at that position (duplicated or reordered)", bf[j])
	}
	return ""
}
