package props

func init() { register(C14{}) }
