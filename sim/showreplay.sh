#!/bin/bash
# showreplay.sh FILE: print cfg, actions, and abridged log of a replay file
python3 - "$1" <<'PY'
import json,sys
d=json.load(open(sys.argv[1]))
print(d['cfg'], '|', d['violation']['oracle'], '|', d['violation']['detail'])
print([ (a['k'],a.get('s',0),a.get('a')) for a in d['actions']])
for l in d['log']:
  if (l.startswith('C ') and not 'LOGIN' in l and not 'LOGOUT' in l and not 'EXAMINE' in l) or 'FETCH (' in l or 'EXISTS' in l or 'EXPUNGE' in l or 'COPYUID' in l or ' NO ' in l or ' BAD ' in l or 'BYE' in l: print('  ',l[:170].replace('\r\n',' '))
PY
