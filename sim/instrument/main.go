// verif-instrument rewrites a scratch copy of the gluon module in place.
//
// Stage 1 (always): go statements get Spawn/Begin/End, send statements and selects
// with a send case get a BeforeSend gate.  Purely syntactic (go/ast): it keys on
// statement shapes, never on gluon identifiers, so it applies unchanged to an edited
// tree.
package main

import (
	"bytes"
	"flag"
	"fmt"
	"go/ast"
	"go/format"
	"go/parser"
	"go/token"
	"os"
	"path/filepath"
	"strconv"
	"strings"
)

const rtPath = "github.com/ProtonMail/gluon/verifsimrt"

var (
	root    = flag.String("root", "", "module root of the scratch copy")
	verbose = flag.Bool("v", false, "list sites")
	skip    = map[string]bool{"tests": true, "benchmarks": true, "demo": true, "tools": true, "verifsimrt": true, "verifbridge": true, ".git": true}
)

type stats struct{ files, gos, sends, selects, skippedGo int }

func main() {
	flag.Parse()
	if *root == "" {
		fmt.Fprintln(os.Stderr, "usage: verif-instrument -root DIR")
		os.Exit(2)
	}
	var st stats
	err := filepath.Walk(*root, func(p string, info os.FileInfo, err error) error {
		if err != nil {
			return err
		}
		rel, _ := filepath.Rel(*root, p)
		if info.IsDir() {
			top := strings.Split(rel, string(filepath.Separator))[0]
			if skip[top] {
				return filepath.SkipDir
			}
			return nil
		}
		if !strings.HasSuffix(p, ".go") || strings.HasSuffix(p, "_test.go") {
			return nil
		}
		return doFile(p, rel, &st)
	})
	if err != nil {
		fmt.Fprintln(os.Stderr, "instrument:", err)
		os.Exit(2)
	}
	fmt.Printf("instrumented files=%d go=%d send=%d select_with_send=%d skipped_go=%d\n", st.files, st.gos, st.sends, st.selects, st.skippedGo)
	if st.gos == 0 || st.sends == 0 {
		fmt.Fprintln(os.Stderr, "instrument: nothing instrumented")
		os.Exit(2)
	}
}

type fileCtx struct {
	fset    *token.FileSet
	rel     string
	fn      string
	counter map[string]int
	changed bool
	st      *stats
}

func (c *fileCtx) site(kind string) string {
	base := strings.TrimSuffix(c.rel, ".go")
	k := base + "." + c.fn + "#" + kind
	c.counter[k]++
	return k + strconv.Itoa(c.counter[k])
}

func doFile(path, rel string, st *stats) error {
	src, err := os.ReadFile(path)
	if err != nil {
		return err
	}
	fset := token.NewFileSet()
	f, err := parser.ParseFile(fset, path, src, parser.ParseComments)
	if err != nil {
		return err
	}
	c := &fileCtx{fset: fset, rel: rel, counter: map[string]int{}, st: st}
	for _, d := range f.Decls {
		fd, ok := d.(*ast.FuncDecl)
		if !ok || fd.Body == nil {
			continue
		}
		c.fn = fd.Name.Name
		if fd.Recv != nil && len(fd.Recv.List) == 1 {
			c.fn = recvName(fd.Recv.List[0].Type) + "." + fd.Name.Name
		}
		c.block(fd.Body)
	}
	if !c.changed {
		return nil
	}
	addImport(f)
	// Free-floating comments and position-less inserted nodes do not mix in go/printer;
	// keep only what precedes the package clause (build constraints).
	var keep []*ast.CommentGroup
	for _, cg := range f.Comments {
		if cg.End() < f.Package {
			keep = append(keep, cg)
		}
	}
	f.Comments = keep
	var buf bytes.Buffer
	if err := format.Node(&buf, fset, f); err != nil {
		return fmt.Errorf("%s: %w", rel, err)
	}
	st.files++
	return os.WriteFile(path, buf.Bytes(), 0o644)
}

func recvName(e ast.Expr) string {
	switch t := e.(type) {
	case *ast.StarExpr:
		return recvName(t.X)
	case *ast.Ident:
		return t.Name
	case *ast.IndexExpr:
		return recvName(t.X)
	case *ast.IndexListExpr:
		return recvName(t.X)
	}
	return "?"
}

func addImport(f *ast.File) {
	for _, im := range f.Imports {
		if im.Path.Value == strconv.Quote(rtPath) {
			return
		}
	}
	spec := &ast.ImportSpec{Name: ast.NewIdent("verifsimrt"), Path: &ast.BasicLit{Kind: token.STRING, Value: strconv.Quote(rtPath)}}
	decl := &ast.GenDecl{Tok: token.IMPORT, Specs: []ast.Spec{spec}}
	f.Decls = append([]ast.Decl{decl}, f.Decls...)
	f.Imports = append(f.Imports, spec)
}

func call(fn string, args ...ast.Expr) *ast.CallExpr {
	return &ast.CallExpr{Fun: &ast.SelectorExpr{X: ast.NewIdent("verifsimrt"), Sel: ast.NewIdent(fn)}, Args: args}
}

func str(s string) ast.Expr { return &ast.BasicLit{Kind: token.STRING, Value: strconv.Quote(s)} }

// block instruments a statement list holder, recursing into nested statements.
func (c *fileCtx) block(b *ast.BlockStmt) {
	if b == nil {
		return
	}
	b.List = c.list(b.List)
}

func (c *fileCtx) list(in []ast.Stmt) []ast.Stmt {
	var out []ast.Stmt
	for _, s := range in {
		pre := c.stmt(s)
		out = append(out, pre...)
		out = append(out, s)
	}
	return out
}

// stmt instruments s (recursively) and returns statements to insert before it.
func (c *fileCtx) stmt(s ast.Stmt) (pre []ast.Stmt) {
	switch n := s.(type) {
	case *ast.LabeledStmt:
		// statements inserted before the label: fine for loops/selects (the label still
		// labels the same statement).
		return c.stmt(n.Stmt)
	case *ast.SendStmt:
		c.exprs(n.Chan, n.Value)
		c.changed = true
		c.st.sends++
		return []ast.Stmt{&ast.ExprStmt{X: call("BeforeSend", str(c.site("send")), n.Chan)}}
	case *ast.GoStmt:
		c.goStmt(n)
	case *ast.BlockStmt:
		c.block(n)
	case *ast.IfStmt:
		if n.Init != nil {
			c.inner(n.Init)
		}
		c.exprs(n.Cond)
		c.block(n.Body)
		if n.Else != nil {
			switch e := n.Else.(type) {
			case *ast.BlockStmt:
				c.block(e)
			default:
				c.inner(e)
			}
		}
	case *ast.ForStmt:
		if n.Init != nil {
			c.inner(n.Init)
		}
		c.exprs(n.Cond)
		c.block(n.Body)
	case *ast.RangeStmt:
		c.exprs(n.X)
		c.block(n.Body)
	case *ast.SwitchStmt:
		if n.Init != nil {
			c.inner(n.Init)
		}
		c.exprs(n.Tag)
		c.clauses(n.Body)
	case *ast.TypeSwitchStmt:
		c.clauses(n.Body)
	case *ast.SelectStmt:
		var sendCh ast.Expr
		for _, cl := range n.Body.List {
			cc := cl.(*ast.CommClause)
			if snd, ok := cc.Comm.(*ast.SendStmt); ok && sendCh == nil {
				sendCh = snd.Chan
			}
			cc.Body = c.list(cc.Body)
		}
		if sendCh != nil {
			c.changed = true
			c.st.selects++
			return []ast.Stmt{&ast.ExprStmt{X: call("BeforeSend", str(c.site("selsend")), sendCh)}}
		}
	case *ast.ExprStmt:
		c.exprs(n.X)
	case *ast.AssignStmt:
		c.exprs(n.Rhs...)
		c.exprs(n.Lhs...)
	case *ast.ReturnStmt:
		c.exprs(n.Results...)
	case *ast.DeferStmt:
		c.exprs(n.Call)
	case *ast.DeclStmt:
		if gd, ok := n.Decl.(*ast.GenDecl); ok {
			for _, sp := range gd.Specs {
				if vs, ok := sp.(*ast.ValueSpec); ok {
					c.exprs(vs.Values...)
				}
			}
		}
	}
	return nil
}

// inner handles a statement that is not in a list (if-init, else-if, for-init).
func (c *fileCtx) inner(s ast.Stmt) {
	if pre := c.stmt(s); len(pre) != 0 {
		// a send in an init position: cannot insert before it; not present in gluon.
		fmt.Fprintf(os.Stderr, "instrument: warning: send in init position in %s (%s) left ungated\n", c.rel, c.fn)
	}
}

func (c *fileCtx) clauses(b *ast.BlockStmt) {
	for _, cl := range b.List {
		if cc, ok := cl.(*ast.CaseClause); ok {
			cc.Body = c.list(cc.Body)
		}
	}
}

// exprs finds function literals inside expressions and instruments their bodies.
func (c *fileCtx) exprs(es ...ast.Expr) {
	for _, e := range es {
		if e == nil {
			continue
		}
		ast.Inspect(e, func(n ast.Node) bool {
			if fl, ok := n.(*ast.FuncLit); ok {
				c.block(fl.Body)
				return false
			}
			return true
		})
	}
}

func (c *fileCtx) goStmt(g *ast.GoStmt) {
	fl, ok := g.Call.Fun.(*ast.FuncLit)
	if !ok {
		c.exprs(g.Call)
		c.st.skippedGo++
		fmt.Fprintf(os.Stderr, "instrument: warning: go statement without func literal in %s (%s) not labelled\n", c.rel, c.fn)
		return
	}
	c.exprs(g.Call.Args...)
	c.block(fl.Body)
	if fl.Type.Params == nil {
		fl.Type.Params = &ast.FieldList{}
	}
	if n := len(fl.Type.Params.List); n > 0 {
		if _, variadic := fl.Type.Params.List[n-1].Type.(*ast.Ellipsis); variadic {
			c.st.skippedGo++
			return
		}
	}
	tok := "__veriftok"
	fl.Type.Params.List = append(fl.Type.Params.List, &ast.Field{
		Names: []*ast.Ident{ast.NewIdent(tok)},
		Type:  &ast.SelectorExpr{X: ast.NewIdent("verifsimrt"), Sel: ast.NewIdent("Token")},
	})
	g.Call.Args = append(g.Call.Args, call("Spawn", str(c.site("go"))))
	begin := &ast.ExprStmt{X: call("Begin", ast.NewIdent(tok))}
	end := &ast.DeferStmt{Call: call("End")}
	fl.Body.List = append([]ast.Stmt{begin, end}, fl.Body.List...)
	c.changed = true
	c.st.gos++
}
