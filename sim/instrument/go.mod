module verifinstrument

go 1.21
