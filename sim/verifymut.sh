#!/bin/bash
# verifymut.sh <ID> <variant>: confirm a seeded defect in a scratch worktree:
#   patch applies and builds; the demonstration passes WITHOUT the change and fails WITH it;
#   the existing tests of the touched packages pass with it.  Writes /verif/seeded/<id>-<v>/.
set -u
export GOFLAGS=-mod=mod GOPROXY=off GOSUMDB=off
ID=$1; V=$2; SRC=${VERIF_MUT_SRC:-/tmp/mut}/$ID/$V; WT=/tmp/wt-verify-$ID-$V; OV=${VERIF_MUT_OUTV:-$V}; OUT=/verif/seeded/$ID-$OV
[ -f $SRC/patch.diff ] || { echo "no patch for $ID/$V"; exit 1; }
rm -rf $WT; git -C /repo worktree add -q --detach $WT HEAD || exit 1
cd $WT
DEMOS=$(ls $SRC/*_test.go 2>/dev/null)
if [ -n "${3:-}" ]; then DEMOS=$SRC/demo_test.go; fi
DEST=$(grep -ohE '(tests|internal/[a-z_/0-9]+|store|imap|imap/command|rfcparser|rfc822|async)/[A-Za-z0-9_]+_test\.go' $SRC/README.md | head -1)
D2=$(head -3 $SRC/demo_test.go 2>/dev/null | grep -ohE '(tests|internal/[a-z_/0-9]+|store|imap|imap/command|rfcparser|rfc822|async)/[A-Za-z0-9_]+_test\.go' | head -1)
[ -n "$D2" ] && DEST=$D2
[ -z "$DEST" ] && DEST=tests/seeded_${ID}${V}_test.go
[ -n "${3:-}" ] && DEST=$3/x_test.go
PKG=./$(dirname $DEST)/
i=0; for d in $DEMOS; do i=$((i+1)); cp $d $(dirname $DEST)/seeded_${ID}${V}_${i}_test.go; done
TESTS=$(grep -ohE '^func (Test[A-Za-z0-9_]+)' $DEMOS | sed 's/func //' | sort -u | tr '\n' '|' | sed 's/|$//')
res_clean=$(go test -vet=off -count=1 -timeout 300s -run "^($TESTS)\$" $PKG 2>&1 | tail -3)
clean_ok=$(echo "$res_clean" | grep -c '^ok')
applies=1; git apply --check $SRC/patch.diff 2>/dev/null || applies=0
res_mut=""; mut_fail=0; build_ok=0; pkgtests=""
if [ $applies = 1 ]; then
  git apply $SRC/patch.diff
  go build ./... 2>/dev/null && build_ok=1
  res_mut=$(go test -vet=off -count=1 -timeout 300s -run "^($TESTS)\$" $PKG 2>&1 | tail -5)
  mut_fail=$(echo "$res_mut" | grep -c '^FAIL\|^--- FAIL')
  # existing tests of the touched packages (demo files removed)
  rm -f $(dirname $DEST)/seeded_${ID}${V}_*_test.go
  TOUCHED=$(grep '^+++ b/' $SRC/patch.diff | sed 's|+++ b/||' | xargs -n1 dirname | sort -u | sed 's|^|./|;s|$|/...|' | tr '\n' ' ')
  pkgtests=$(go test -vet=off -count=1 -timeout 300s $TOUCHED 2>&1 | grep -v 'no test files' | tail -4 | tr '\n' ';')
fi
mkdir -p $OUT; cp $SRC/patch.diff $OUT/; cp $DEMOS $OUT/ 2>/dev/null; cp $SRC/README.md $OUT/README.md
python3 - "$ID" "$OV" "$DEST" "$TESTS" "$clean_ok" "$applies" "$build_ok" "$mut_fail" "$pkgtests" <<'PY'
import json,sys
ID,V,DEST,TESTS,clean_ok,applies,build_ok,mut_fail,pkgtests=sys.argv[1:]
meta={"property":ID,"variant":V,"demo_destination":DEST,"demo_tests":TESTS,
 "confirmed":{"patch_applies_to_head":applies=="1","builds":build_ok=="1","demo_passes_without_change":clean_ok!="0","demo_fails_with_change":mut_fail!="0","touched_package_tests_with_change":pkgtests},
 "what_i_ran":"git worktree at /repo HEAD; go test -run '^(%s)$' on the demo without and with patch.diff applied; go build ./...; go test of the packages the patch touches (./tests/... is timing-flaky on the unchanged tree in this sandbox and was run by the authoring agent, see README.md)"%TESTS,
 "needs_to_manifest":"see README.md (written by the authoring sub-agent, who had only the property text)"}
json.dump(meta,open('/verif/seeded/%s-%s/meta.json'%(ID,V),'w'),indent=1)
print("VERIFIED" if (applies=="1" and build_ok=="1" and clean_ok!="0" and mut_fail!="0") else "NOT-CONFIRMED", ID, V, meta["confirmed"])
PY
cd /; git -C /repo worktree remove --force $WT
