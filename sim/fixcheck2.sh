#!/bin/bash
# fixcheck2.sh <base-commit> <replay.json>...: replay each scenario with /repo's files at <base-commit> and at HEAD
cd /verif
base=$1; shift
for f in "$@"; do
  git -C /repo checkout -q $base -- . ; echo -n "$(basename $f) @$base: "; ./check replay $f 2>&1 | grep -A1 "^VIOLATION\|^replay: \|^check:" | tail -1 | cut -c1-170
  git -C /repo checkout -q HEAD -- . ; git -C /repo status --short | grep -v '^??' | head -3
  echo -n "$(basename $f) @HEAD:  "; ./check replay $f 2>&1 | grep -A1 "^VIOLATION\|^replay: \|^check:" | tail -1 | cut -c1-170
done
